(** Proofs about the situation-builder model, continued: a document with an ill-formed item of
    any class of the property, at ANY place, never builds.  The argument goes backwards: if the
    build succeeds, every step succeeded, hence every declaration was accepted, every role list
    allocated persons that exist, are distinct and within the role's maximum, and every
    buffered period was accepted by the holder. *)
From Coq Require Import ZArith QArith List Bool String Lia Permutation.
From Verif Require Import Base Cal Tables Period Builder BuilderSpec BuilderProofs BuilderGroupProofs
  BuilderValueProofs.
Import ListNotations.
Open Scope Z_scope.
Open Scope res_scope.

(** * Keys of the buffer are never removed *)

Definition has_key (b : buffer) (vn : string) (p : period) : Prop :=
  exists arr, buf_get b vn p = Some arr.

Definition keeps (b b' : buffer) : Prop := forall vn p, has_key b vn p -> has_key b' vn p.

Lemma keeps_refl b : keeps b b.
Proof. intros vn p H. exact H. Qed.

Lemma keeps_trans a b c : keeps a b -> keeps b c -> keeps a c.
Proof. intros H1 H2 vn p H. apply H2, H1, H. Qed.

Lemma put_touch_keeps b n p a : keeps b (buf_put (buf_touch b n) n p a).
Proof.
  intros vn q (arr & G).
  destruct (string_dec vn n) as [->|Nv].
  - destruct (period_eq_dec_b q p) as [->|Np].
    + exists a. apply buf_get_put_same.
    + exists arr. rewrite buf_get_put_other by congruence. rewrite buf_get_touch. assumption.
  - exists arr. rewrite buf_get_put_other by congruence. rewrite buf_get_touch. assumption.
Qed.

Lemma add_variable_value_keeps x st e v idx t value st' :
  add_variable_value x st e v idx t value = Ok st' -> keeps (b_buffer st) (b_buffer st').
Proof.
  intros H. destruct (json_eq_null value) as [->|Hn].
  - cbn in H. inversion H; subst. apply keeps_refl.
  - destruct (add_variable_value_shape _ _ _ _ _ _ _ _ Hn H) as (p & arr & ->).
    cbn [set_buffer b_buffer]. apply put_touch_keeps.
Qed.

Lemma add_variable_value_makes_key x st e v idx t value st' :
  value <> JNull -> add_variable_value x st e v idx t value = Ok st' ->
  exists p c, canon_key (tok x t) = Ok p /\ check_set_value x v value = Ok c
              /\ has_key (b_buffer st') (v_name v) p.
Proof.
  intros Hn H. destruct (add_variable_value_spec _ _ _ _ _ _ _ _ Hn H)
    as (p & c & old & Hp & Hc & _ & _ & Hg & _).
  exists p, c. split; [assumption|]. split; [assumption|]. eexists; eassumption.
Qed.

(** * A successful step accepted everything it read *)

(* the pair (key, value) was accepted for variable [v]; its period is a key of buffer [b] *)
Definition entry_fine (x : ext) (v : variable) (b : buffer) (tv : string * json) : Prop :=
  (exists p0, parse_key (tok x (fst tv)) = Ok p0) /\
  (snd tv <> JNull ->
   exists p c, canon_key (tok x (fst tv)) = Ok p /\ check_set_value x v (snd tv) = Ok c
               /\ has_key b (v_name v) p).

Lemma entry_fine_keeps x v b b' tv : keeps b b' -> entry_fine x v b tv -> entry_fine x v b' tv.
Proof.
  intros K (A & B). split; [assumption|]. intros Hn. destruct (B Hn) as (p & c & P & C & H).
  exists p, c. split; [assumption|]. split; [assumption|]. apply K. assumption.
Qed.

Lemma add_dated_inv x e v idx l : forall st st',
  add_dated x st e v idx l = Ok st' ->
  keeps (b_buffer st) (b_buffer st') /\
  (forall tv, In tv l -> entry_fine x v (b_buffer st') tv).
Proof.
  induction l as [|[t value] l IH]; intros st st'; cbn [add_dated].
  - intros H; inversion H; subst. split; [apply keeps_refl|intros ? []].
  - destruct (parse_key (tok x t)) as [p0|] eqn:Pk; [|discriminate]. intros H.
    apply bind_ok in H. destruct H as (st1 & H1 & H2).
    destruct (IH _ _ H2) as (K & F).
    split; [eapply keeps_trans; [eapply add_variable_value_keeps; eassumption|assumption]|].
    intros tv [<-|I]; [|apply F; assumption].
    eapply entry_fine_keeps; [exact K|]. split; [cbn [fst]; eauto|].
    cbn [fst snd]. intros Hn. eapply add_variable_value_makes_key; eassumption.
Qed.

Definition field_fine (x : ext) (s : sys) (e : entity) (b : buffer) (f : string * json) : Prop :=
  exists v dated, find_var (fst f) (s_vars s) = Some v /\ v_entity v = e_key e /\ snd f = JObj dated
                  /\ forall tv, In tv dated -> entry_fine x v b tv.

Lemma field_fine_keeps x s e b b' f : keeps b b' -> field_fine x s e b f -> field_fine x s e b' f.
Proof.
  intros K (v & dated & A & B & C & D). exists v, dated.
  split; [assumption|]. split; [assumption|]. split; [assumption|].
  intros tv I. eapply entry_fine_keeps; [exact K|apply D; assumption].
Qed.

Lemma init_inv x s e id fields : forall st st',
  init_variable_values x s st e fields id = Ok st' ->
  keeps (b_buffer st) (b_buffer st') /\
  (forall f, In f fields -> field_fine x s e (b_buffer st') f).
Proof.
  induction fields as [|[vn vals] fields IH]; intros st st'; cbn [init_variable_values].
  - intros H; inversion H; subst. split; [apply keeps_refl|intros ? []].
  - destruct (find_var vn (s_vars s)) as [v|] eqn:Fv; [|discriminate].
    destruct (String.eqb (v_entity v) (e_key e)) eqn:Ee; [|discriminate]. cbn [negb].
    apply String.eqb_eq in Ee.
    destruct (index_of id _); [|discriminate]. destruct vals; try discriminate.
    intros H. apply bind_ok in H. destruct H as (st1 & H1 & H2).
    destruct (add_dated_inv _ _ _ _ _ _ _ H1) as (K1 & F1). destruct (IH _ _ H2) as (K & F).
    split; [eapply keeps_trans; eassumption|].
    intros f [<-|I]; [|apply F; assumption].
    exists v, l. cbn [fst snd]. split; [assumption|]. split; [assumption|]. split; [reflexivity|].
    intros tv I. eapply entry_fine_keeps; [exact K|apply F1; assumption].
Qed.

Definition instance_fine (x : ext) (s : sys) (e : entity) (b : buffer) (ij : string * json) : Prop :=
  exists fields, snd ij = JObj fields
                 /\ forall f, In f (without_roles e fields) -> field_fine x s e b f.

Lemma instance_fine_keeps x s e b b' ij :
  keeps b b' -> instance_fine x s e b ij -> instance_fine x s e b' ij.
Proof.
  intros K (fields & A & B). exists fields. split; [assumption|].
  intros f I. eapply field_fine_keeps; [exact K|apply B; assumption].
Qed.

Lemma without_roles_person s fields : without_roles (s_person s) fields = fields \/ True.
Proof. right. exact I. Qed.

Lemma add_person_instances_inv x s l : forall st st',
  e_roles (s_person s) = [] ->
  add_person_instances x s st l = Ok st' ->
  keeps (b_buffer st) (b_buffer st') /\
  (forall ij, In ij l -> instance_fine x s (s_person s) (b_buffer st') ij).
Proof.
  induction l as [|[pid j] l IH]; intros st st' Hr; cbn [add_person_instances].
  - intros H; inversion H; subst. split; [apply keeps_refl|intros ? []].
  - destruct j; try discriminate. intros H. apply bind_ok in H. destruct H as (st1 & H1 & H2).
    destruct (init_inv _ _ _ _ _ _ _ H1) as (K1 & F1). destruct (IH _ _ Hr H2) as (K & F).
    split; [eapply keeps_trans; eassumption|].
    intros ij [<-|I]; [|apply F; assumption].
    exists l0. cbn [snd]. split; [reflexivity|]. unfold without_roles. rewrite Hr. cbn [fold_left].
    intros f I. eapply field_fine_keeps; [exact K|apply F1; assumption].
Qed.

(** * Groups *)

Lemma allocated_by_roles_json e fields :
  allocated_by (roles_json e fields) = flat_map (fun r => role_members r fields) (e_roles e).
Proof.
  unfold allocated_by, roles_json, role_members.
  induction (e_roles e) as [|r rs IH]; cbn [map flat_map snd]; [reflexivity|]. rewrite IH. reflexivity.
Qed.

Lemma assign_roles_ok_max pids gi rj : forall mr mr',
  assign_roles pids gi rj mr = Ok mr' ->
  forall r l mx, In (r, JArr l) rj -> r_max r = Some mx ->
    Z.of_nat (List.length (person_ids_of l)) <= mx.
Proof.
  induction rj as [|[r0 j0] rj IH]; intros mr mr' H r l mx I Hm; [destruct I|].
  cbn [assign_roles] in H. destruct I as [Q|I].
  - inversion Q; subst r0 j0. rewrite Hm in H.
    destruct (mx <? Z.of_nat (List.length (person_ids_of l))) eqn:L; [discriminate|].
    apply Z.ltb_ge in L. assumption.
  - destruct (r_max r0); [destruct (z <? _); [discriminate|]|]; eapply IH; eassumption.
Qed.

(* what a successfully read group guarantees *)
Definition group_fine (x : ext) (s : sys) (e : entity) (pids : list string) (b : buffer)
    (ij : string * json) : Prop :=
  exists fields, snd ij = JObj fields
    /\ (forall f, In f (without_roles e fields) -> field_fine x s e b f)
    /\ (forall r pid, In r (e_roles e) -> In pid (role_members r fields) -> In pid pids)
    /\ (forall r mx, In r (e_roles e) -> r_max r = Some mx ->
          Z.of_nat (List.length (role_members r fields)) <= mx).

Lemma group_fine_keeps x s e pids b b' ij :
  keeps b b' -> group_fine x s e pids b ij -> group_fine x s e pids b' ij.
Proof.
  intros K (fields & A & B & C & D). exists fields.
  split; [assumption|]. split; [|split; assumption].
  intros f I. eapply field_fine_keeps; [exact K|apply B; assumption].
Qed.

Lemma add_group_instances_inv x s e pids eids l : forall st todo mr st' todo' mr',
  add_group_instances x s e pids eids l st todo mr = Ok (st', todo', mr') ->
  keeps (b_buffer st) (b_buffer st') /\
  (forall ij, In ij l -> group_fine x s e pids (b_buffer st') ij).
Proof.
  induction l as [|[gid j] l IH]; intros st todo mr st' todo' mr'; cbn [add_group_instances].
  - intros H; inversion H; subst. split; [apply keeps_refl|intros ? []].
  - destruct j; try discriminate. intros H. apply bind_ok in H. destruct H as (todo1 & HA & H).
    destruct (index_of gid eids); [|discriminate].
    apply bind_ok in H. destruct H as (mr1 & HS & H).
    apply bind_ok in H. destruct H as (st1 & H1 & H2).
    destruct (init_inv _ _ _ _ _ _ _ H1) as (K1 & F1). destruct (IH _ _ _ _ _ _ H2) as (K & F).
    split; [eapply keeps_trans; eassumption|].
    intros ij [<-|I]; [|apply F; assumption].
    pose proof (allocate_roles_facts _ _ _ _ HA) as (_ & _ & Fa & _).
    exists l0. cbn [snd]. split; [reflexivity|]. split; [|split].
    + intros f I. eapply field_fine_keeps; [exact K|apply F1; assumption].
    + intros r pid Ir Ip. apply (Fa pid). rewrite allocated_by_roles_json.
      apply in_flat_map. exists r. split; assumption.
    + intros r mx Ir Hm. destruct (roles_json_member _ _ _ _ _ _ HA Ir) as (l1 & Il & El).
      rewrite El. eapply assign_roles_ok_max; eassumption.
Qed.

(* a person is allocated at most once: same group, same role, same rank *)
Lemma nodup_flat_map_pos {A B} (f : A -> list B) (l : list A) : forall b b' x x' i i' p,
  NoDup (flat_map f l) ->
  nth_error l b = Some x -> nth_error (f x) i = Some p ->
  nth_error l b' = Some x' -> nth_error (f x') i' = Some p ->
  b = b' /\ i = i'.
Proof.
  induction l as [|a l IH]; intros b b' x x' i i' p ND Hb Hi Hb' Hi'; [destruct b; discriminate|].
  cbn [flat_map] in ND.
  assert (NoDup (f a) /\ NoDup (flat_map f l) /\ forall q, In q (f a) -> In q (flat_map f l) -> False)
    as (N1 & N2 & N3).
  { clear -ND. induction (f a) as [|y ys IHy]; cbn [app] in ND.
    - split; [constructor|]. split; [assumption|]. intros q [].
    - inversion ND; subst. destruct (IHy H2) as (A1 & A2 & A3). split; [|split; [assumption|]].
      + constructor; [|assumption]. intros I. apply H1. apply in_or_app. left. assumption.
      + intros q [<-|I] J; [apply H1; apply in_or_app; right; assumption|eapply A3; eassumption]. }
  destruct b, b'; cbn [nth_error] in Hb, Hb'.
  - inversion Hb; inversion Hb'; subst. split; [reflexivity|].
    eapply NoDup_nth_error; [exact N1| |congruence]. apply nth_error_Some. congruence.
  - inversion Hb; subst. exfalso. eapply N3; [eapply nth_error_In; eassumption|].
    apply in_flat_map. exists x'. split; [eapply nth_error_In; eassumption|eapply nth_error_In; eassumption].
  - inversion Hb'; subst. exfalso. eapply N3; [eapply nth_error_In; eassumption|].
    apply in_flat_map. exists x. split; [eapply nth_error_In; eassumption|eapply nth_error_In; eassumption].
  - destruct (IH b b' x x' i i' p N2 Hb Hi Hb' Hi') as [-> ->]. split; reflexivity.
Qed.

Lemma member_at_todo x s e pids eids l : forall a b i pid st todo mr st' todo' mr',
  add_group_instances x s e pids eids l st todo mr = Ok (st', todo', mr') ->
  member_at e l a b i pid -> In pid todo /\ ~ In pid todo'.
Proof.
  induction l as [|[gid j] l IH]; intros a b i pid st todo mr st' todo' mr' H M.
  { destruct M as (g & f & r & M & _). destruct a; discriminate. }
  cbn [add_group_instances] in H. destruct j; try discriminate.
  apply bind_ok in H. destruct H as (todo1 & HA & H).
  destruct (index_of gid eids); [|discriminate].
  apply bind_ok in H. destruct H as (mr1 & HS & H).
  apply bind_ok in H. destruct H as (st1 & H1 & H2).
  pose proof (allocate_roles_facts _ _ _ _ HA) as (_ & _ & Fa & Ga).
  assert (forall p, In p todo' -> In p todo1) as Sub.
  { intros p. assert (lens_ok pids mr1 \/ True) by (right; exact I). clear -H2.
    revert st1 todo1 mr1 H2. induction l as [|[g j] l IHl]; intros st1 todo1 mr1 H2 Ip.
    - cbn in H2. inversion H2; subst. assumption.
    - cbn [add_group_instances] in H2. destruct j; try discriminate.
      apply bind_ok in H2. destruct H2 as (t2 & HA2 & H2).
      destruct (index_of g eids); [|discriminate].
      apply bind_ok in H2. destruct H2 as (m2 & _ & H2).
      apply bind_ok in H2. destruct H2 as (s2 & _ & H2).
      pose proof (allocate_roles_facts _ _ _ _ HA2) as (_ & _ & _ & G2).
      apply (IHl _ _ _ H2) in Ip. apply G2 in Ip. tauto. }
  destruct M as (g & f & r & Ma & Mb & Mi). destruct a; cbn [nth_error] in Ma.
  - inversion Ma; subst g l0.
    assert (In pid (allocated_by (roles_json e f))) as Ial.
    { rewrite allocated_by_roles_json. apply in_flat_map. exists r.
      split; [eapply nth_error_In; eassumption|eapply nth_error_In; eassumption]. }
    destruct (Fa _ Ial) as (_ & A & B). split; [assumption|]. intros W. apply B, Sub, W.
  - destruct (IH a b i pid _ _ _ _ _ _ H2) as (A & B).
    { exists g, f, r. repeat split; assumption. }
    split; [|assumption]. apply Ga in A. tauto.
Qed.

Lemma member_at_unique x s e pids eids l : forall a b i a' b' i' pid st todo mr st' todo' mr',
  add_group_instances x s e pids eids l st todo mr = Ok (st', todo', mr') ->
  member_at e l a b i pid -> member_at e l a' b' i' pid -> (a, b, i) = (a', b', i').
Proof.
  induction l as [|[gid j] l IH]; intros a b i a' b' i' pid st todo mr st' todo' mr' H M M'.
  { destruct M as (g & f & r & M & _). destruct a; discriminate. }
  pose proof H as Hall.
  cbn [add_group_instances] in H. destruct j; try discriminate.
  apply bind_ok in H. destruct H as (todo1 & HA & H).
  destruct (index_of gid eids); [|discriminate].
  apply bind_ok in H. destruct H as (mr1 & HS & H).
  apply bind_ok in H. destruct H as (st1 & H1 & H2).
  pose proof (allocate_roles_facts _ _ _ _ HA) as (_ & ND & Fa & Ga).
  destruct M as (g & f & r & Ma & Mb & Mi). destruct M' as (g' & f' & r' & Ma' & Mb' & Mi').
  assert (forall f0 r0 b0 i0, nth_error (e_roles e) b0 = Some r0 ->
            nth_error (role_members r0 f0) i0 = Some pid -> f0 = l0 ->
            ~ In pid todo1) as Here.
  { intros f0 r0 b0 i0 Hb Hi ->. apply (Fa pid). rewrite allocated_by_roles_json.
    apply in_flat_map. exists r0. split; eapply nth_error_In; eassumption. }
  destruct a, a'; cbn [nth_error] in Ma, Ma'.
  - inversion Ma; inversion Ma'; subst. rewrite allocated_by_roles_json in ND.
    destruct (nodup_flat_map_pos _ _ _ _ _ _ _ _ _ ND Mb Mi Mb' Mi') as [-> ->]. reflexivity.
  - inversion Ma; subst. exfalso.
    assert (member_at e l a' b' i' pid) as N2 by (exists g', f', r'; repeat split; assumption).
    destruct (member_at_todo x s e pids eids l a' b' i' pid _ _ _ _ _ _ H2 N2) as (T & _).
    eapply Here; [exact Mb|exact Mi|reflexivity|exact T].
  - inversion Ma'; subst. exfalso.
    assert (member_at e l a b i pid) as N1 by (exists g, f, r; repeat split; assumption).
    destruct (member_at_todo x s e pids eids l a b i pid _ _ _ _ _ _ H2 N1) as (T & _).
    eapply Here; [exact Mb'|exact Mi'|reflexivity|exact T].
  - assert (member_at e l a b i pid) as N1 by (exists g, f, r; repeat split; assumption).
    assert (member_at e l a' b' i' pid) as N2 by (exists g', f', r'; repeat split; assumption).
    pose proof (IH _ _ _ _ _ _ _ _ _ _ _ _ _ H2 N1 N2) as E.
    inversion E; subst. reflexivity.
Qed.

Lemma pad_buffer_keeps s e n b : keeps b (pad_buffer s e n b).
Proof.
  intros vn p (arr & G). unfold has_key, buf_get, pad_buffer in *. rewrite aget_map_keyfix.
  - destruct (aget vn b) as [h|]; [|discriminate]. cbn [option_map fst snd].
    destruct (find_var vn (s_vars s)) as [v|]; [destruct (String.eqb _ _)|]; cbn [snd]; eauto.
    clear -G. induction h as [|[k w] h IH]; cbn [map hget fst snd] in *; [discriminate|].
    destruct (period_eqb k p); [eauto|apply IH; assumption].
  - intros [k h]. cbn [fst].
    destruct (find_var k (s_vars s)); [destruct (String.eqb _ _)|]; reflexivity.
Qed.

Lemma add_group_entity_inv x s st pids e instances st' :
  add_group_entity x s st pids e (JObj instances) = Ok st' ->
  keeps (b_buffer st) (b_buffer st') /\
  (forall ij, In ij instances -> group_fine x s e pids (b_buffer st') ij) /\
  (forall a b i a' b' i' pid, member_at e instances a b i pid -> member_at e instances a' b' i' pid ->
     (a, b, i) = (a', b', i')).
Proof.
  unfold add_group_entity. intros H. apply bind_ok in H. destruct H as ([[st1 todo] mr] & H1 & H2).
  destruct (add_group_instances_inv _ _ _ _ _ _ _ _ _ _ _ _ H1) as (K & F).
  cbn [set_ids b_buffer] in K.
  assert (keeps (b_buffer st1) (b_buffer st')) as K'.
  { destruct todo; inversion H2; subst st'; cbn [set_roles set_members set_buffer set_ids b_buffer];
      [apply keeps_refl|apply pad_buffer_keeps]. }
  split; [eapply keeps_trans; eassumption|]. split.
  - intros ij I. eapply group_fine_keeps; [exact K'|apply F; assumption].
  - intros. eapply member_at_unique; eassumption.
Qed.

Lemma add_groups_inv x s pids params ax gs : forall st st',
  add_groups x s st pids params ax gs = Ok st' ->
  keeps (b_buffer st) (b_buffer st') /\
  (forall e instances, In e gs -> aget (e_plural e) params = Some (JObj instances) ->
     (forall ij, In ij instances -> group_fine x s e pids (b_buffer st') ij) /\
     (forall a b i a' b' i' pid, member_at e instances a b i pid -> member_at e instances a' b' i' pid ->
        (a, b, i) = (a', b', i'))).
Proof.
  induction gs as [|g gs IH]; intros st st' H; cbn [add_groups] in H.
  - inversion H; subst. split; [apply keeps_refl|intros ? ? []].
  - apply bind_ok in H. destruct H as (st1 & H1 & H2). destruct (IH _ _ H2) as (K & F).
    assert (keeps (b_buffer st) (b_buffer st1)) as K1.
    { destruct (aget (e_plural g) params) as [j|].
      - destruct j; try (destruct ax; [discriminate|inversion H1; subst; apply keeps_refl]);
          try (unfold add_group_entity in H1; discriminate).
        eapply add_group_entity_inv; eassumption.
      - destruct ax; [discriminate|inversion H1; subst; apply keeps_refl]. }
    split; [eapply keeps_trans; eassumption|].
    intros e instances [<-|I] Hp; [|apply F; assumption].
    rewrite Hp in H1. destruct (add_group_entity_inv _ _ _ _ _ _ _ H1) as (_ & A & B).
    split; [|assumption]. intros ij Iij. eapply group_fine_keeps; [exact K|apply A; assumption].
Qed.

(** * Axes keep the keys; the flush accepted every key *)

Lemma expand_entities_buffer pp cells l : forall st,
  b_buffer (expand_entities st pp cells l) = b_buffer st.
Proof.
  induction l as [|[p ids] l IH]; intros st; cbn [expand_entities]; [reflexivity|].
  rewrite IH. destruct (String.eqb p pp); reflexivity.
Qed.

Lemma apply_axis_keeps x s st step cells vals a st' :
  apply_axis x s st step cells vals a = Ok st' -> keeps (b_buffer st) (b_buffer st').
Proof.
  unfold apply_axis. intros H. apply bind_ok in H. destruct H as (t & _ & H).
  apply bind_ok in H. destruct H as (p & _ & H).
  destruct (find_var (a_name a) (s_vars s)); [|discriminate].
  apply bind_ok in H. destruct H as (cs & _ & H).
  destruct (Nat.eqb step 0); [discriminate|].
  apply bind_ok in H. destruct H as (arr & _ & H). inversion H; subst.
  cbn [set_buffer b_buffer]. apply put_touch_keeps.
Qed.

Lemma apply_axes_keeps x s step cells valsf l : forall st st',
  apply_axes x s st step cells valsf l = Ok st' -> keeps (b_buffer st) (b_buffer st').
Proof.
  induction l as [|a l IH]; intros st st' H; cbn [apply_axes] in H.
  - inversion H; subst. apply keeps_refl.
  - apply bind_ok in H. destruct H as (st1 & H1 & H2).
    eapply keeps_trans; [eapply apply_axis_keeps; eassumption|eapply IH; eassumption].
Qed.

Lemma apply_dims_keeps x s counts cells dims : forall st d st',
  apply_dims x s st counts cells d dims = Ok st' -> keeps (b_buffer st) (b_buffer st').
Proof.
  induction dims as [|dim dims IH]; intros st d st' H; cbn [apply_dims] in H.
  - inversion H; subst. apply keeps_refl.
  - apply bind_ok in H. destruct H as (step & _ & H).
    destruct (dim_count dim <=? 1); [discriminate|].
    apply bind_ok in H. destruct H as (st1 & H1 & H2).
    eapply keeps_trans; [eapply apply_axes_keeps; eassumption|eapply IH; eassumption].
Qed.

Lemma expand_axes_keeps x s st dims st' :
  expand_axes x s st dims = Ok st' -> keeps (b_buffer st) (b_buffer st').
Proof.
  unfold expand_axes. destruct (cell_count dims <=? 0); [discriminate|]. intros H.
  assert (forall st1, b_buffer st1 = b_buffer st -> keeps (b_buffer st1) (b_buffer st') ->
                      keeps (b_buffer st) (b_buffer st')) as Via.
  { intros st1 E K. rewrite <- E. assumption. }
  destruct dims as [|dim [|dim' dims]].
  - eapply Via; [apply expand_entities_buffer|eapply apply_dims_keeps; eassumption].
  - apply bind_ok in H. destruct H as (step & _ & H).
    eapply Via; [apply expand_entities_buffer|eapply apply_axes_keeps; eassumption].
  - eapply Via; [apply expand_entities_buffer|eapply apply_dims_keeps; eassumption].
Qed.

Lemma flush_periods_inv v count L : forall h h',
  flush_periods v count h L = Ok h' ->
  forall p values, In (p, values) L -> exists h0 a h1, set_input_unless_ended v count h0 p a = Ok h1.
Proof.
  induction L as [|[q vs] L IH]; intros h h' H p values I; [destruct I|].
  cbn [flush_periods] in H. destruct (Nat.eqb (List.length vs) 0); [discriminate|].
  apply bind_ok in H. destruct H as (h1 & H1 & H2). destruct I as [Q|I].
  - inversion Q; subst. eauto.
  - eapply IH; eassumption.
Qed.

Lemma flush_buffer_inv s e count b : forall hs hs',
  flush_buffer s e count b hs = Ok hs' ->
  forall vn entries v, In (vn, entries) b -> find_var vn (s_vars s) = Some v -> v_entity v = e_key e ->
    exists h0 h, flush_periods v count h0 (sort_periods entries) = Ok h.
Proof.
  induction b as [|[vn0 en0] b IH]; intros hs hs' H vn entries v I Fv Ev; [destruct I|].
  cbn [flush_buffer] in H. destruct I as [Q|I].
  - inversion Q; subst vn0 en0. rewrite Fv, Ev, String.eqb_refl in H. cbn [negb] in H.
    destruct (flush_periods v count _ (sort_periods entries)) as [h|k] eqn:F; [eauto|destruct k; discriminate].
  - destruct (find_var vn0 (s_vars s)) as [v0|]; [|eapply IH; eassumption].
    destruct (negb _); [eapply IH; eassumption|].
    destruct (flush_periods v0 count _ (sort_periods en0)) as [h|k]; [eapply IH; eassumption|destruct k; discriminate].
Qed.

(* the holder refuses the period, whatever the array *)
Lemma mismatch_never_ok v count h p a h' :
  eternal v = false -> not_after_end v p ->
  (p_unit p = Eternity \/ (v_rule v = RNone /\ (p_unit p <> v_def v \/ 1 < p_size p))) ->
  set_input_unless_ended v count h p a = Ok h' -> False.
Proof.
  intros He Hend Hm H. unfold set_input_unless_ended in H.
  assert (holder_set_input v count h p a = Ok h' -> False) as Hs.
  { clear H. intros H. unfold holder_set_input in H. rewrite He in H. cbn [negb] in H.
    destruct Hm as [Hu|(Hr & Hm)].
    - rewrite Hu in H. discriminate.
    - destruct (unit_eqb (p_unit p) Eternity && true); [discriminate|]. rewrite Hr in H.
      unfold holder_set in H. apply bind_ok in H. destruct H as (a' & _ & H). rewrite He in H.
      destruct Hm as [Hu|Hs].
      + assert (unit_eqb (v_def v) (p_unit p) = false) as E.
        { destruct (v_def v), (p_unit p); try reflexivity; exfalso; apply Hu; reflexivity. }
        rewrite E in H. discriminate.
      + assert (1 <? p_size p = true) as E by (apply Z.ltb_lt; assumption).
        rewrite E, orb_true_r in H. discriminate. }
  unfold not_after_end in Hend. destruct (v_end v) as [en|]; [|auto].
  destruct (unit_eqb (p_unit p) Eternity) eqn:U; [discriminate|].
  destruct Hend as [Hu|Hd]; [rewrite Hu in U; discriminate|]. rewrite Hd in H. auto.
Qed.

(** * The theorem *)

Lemma aget_aremove_other {A} k a (l : list (string * A)) : k <> a -> aget k (aremove a l) = aget k l.
Proof.
  intros N. induction l as [|[k' v] l IH]; cbn [aremove aget]; [reflexivity|].
  destruct (String.eqb k' a) eqn:E.
  - apply String.eqb_eq in E. subst k'.
    destruct (String.eqb a k) eqn:Q; [apply String.eqb_eq in Q; congruence|assumption].
  - cbn [aget]. destruct (String.eqb k' k); [reflexivity|assumption].
Qed.

Lemma aremove_In {A} a k (v : A) l : In (k, v) l -> k <> a -> In (k, v) (aremove a l).
Proof.
  induction l as [|[k' w] l IH]; cbn [aremove In]; [tauto|]. intros [E|I] N.
  - inversion E; subst. destruct (String.eqb k a) eqn:Q; [apply String.eqb_eq in Q; contradiction|].
    left. reflexivity.
  - destruct (String.eqb k' a); [apply IH; assumption|right; apply IH; assumption].
Qed.

Lemma without_roles_In e fields vn vals :
  In (vn, vals) fields -> ~ In vn (map role_name (e_roles e)) -> In (vn, vals) (without_roles e fields).
Proof.
  unfold without_roles. revert fields. induction (e_roles e) as [|r rs IH]; intros fields I N;
    cbn [fold_left]; [assumption|].
  apply IH.
  - apply aremove_In; [assumption|]. intros E. apply N. left. symmetry. assumption.
  - intros J. apply N. right. assumption.
Qed.

Section NeverBuilds.
  Variables (x : ext) (s : sys) (doc : list (string * json)) (sim : simulation).
  Hypothesis Wf : wf_sys s.
  Hypothesis Hr : e_roles (s_person s) = [].
  Hypothesis Hb : build_from_entities x s doc = Ok sim.

  Let pp := e_plural (s_person s).

  Lemma plural_not_axes e : In e (entities s) -> e_plural e <> "axes"%string.
  Proof.
    intros I E. destruct Wf as (_ & _ & N & _). apply N. rewrite <- E. apply in_map. assumption.
  Qed.

  Lemma instances_params e l :
    In e (entities s) -> instances_of doc e = Some l ->
    aget (e_plural e) (aremove "axes" doc) = Some (JObj l).
  Proof.
    intros I H. unfold instances_of in H. rewrite aget_aremove_other by (apply plural_not_axes; assumption).
    destruct (aget (e_plural e) doc) as [j|]; [|discriminate]. destruct j; try discriminate.
    inversion H; subst. reflexivity.
  Qed.

  (* the stages of the successful build *)
  Lemma build_stages :
    exists persons st1 st2 st3,
      aget pp (aremove "axes" doc) = Some (JObj persons) /\
      existsb (fun kv : string * json => negb (mem_str (fst kv) (plurals s))) (aremove "axes" doc) = false /\
      add_person_instances x s (set_ids b_empty pp (map fst persons)) persons = Ok st1 /\
      (exists ax, add_groups x s st1 (get_ids st1 pp) (aremove "axes" doc) ax (s_groups s) = Ok st2) /\
      keeps (b_buffer st2) (b_buffer st3) /\
      mapM (finalize_population s st3) (entities s) = Ok sim.
  Proof.
    unfold build_from_entities in Hb. fold pp in Hb.
    destruct (existsb _ (aremove "axes" doc)) eqn:Ex; [discriminate|].
    destruct (aget pp (aremove "axes" doc)) as [j|] eqn:Ap; [|discriminate].
    destruct j; try discriminate. destruct l as [|i l]; [discriminate|].
    apply bind_ok in Hb. destruct Hb as (st1 & H1 & H).
    apply bind_ok in H. destruct H as (st2 & H2 & H).
    apply bind_ok in H. destruct H as (st3 & H3 & H).
    exists (i :: l), st1, st2, st3. split; [reflexivity|]. split; [reflexivity|].
    split; [exact H1|]. split; [eauto|]. split; [|exact H].
    destruct (match aget "axes"%string doc with Some JNull | None => None | Some j => Some j end).
    - apply bind_ok in H3. destruct H3 as (dims & _ & H3). eapply expand_axes_keeps; eassumption.
    - inversion H3; subst. apply keeps_refl.
  Qed.

  (* every declaration of every instance was accepted, and its period is a key at flush time *)
  Lemma declaration_accepted e l id fields vn vals :
    In e (entities s) -> instances_of doc e = Some l -> In (id, JObj fields) l ->
    In (vn, vals) fields -> ~ In vn (map role_name (e_roles e)) ->
    exists st3, field_fine x s e (b_buffer st3) (vn, vals)
                /\ mapM (finalize_population s st3) (entities s) = Ok sim.
  Proof.
    intros Ie Hi Iid If Nr.
    destruct build_stages as (persons & st1 & st2 & st3 & Ap & _ & H1 & (ax & H2) & K3 & Hm).
    exists st3. split; [|assumption].
    pose proof (instances_params _ _ Ie Hi) as Pe.
    destruct (add_groups_inv _ _ _ _ _ _ _ _ H2) as (K2 & G2).
    destruct Ie as [<-|Ig].
    - fold pp in Pe. rewrite Ap in Pe. inversion Pe; subst persons.
      destruct (add_person_instances_inv _ _ _ _ _ Hr H1) as (_ & F1).
      destruct (F1 _ Iid) as (fields' & E & F). cbn [snd] in E. inversion E; subst fields'.
      eapply field_fine_keeps; [eapply keeps_trans; [exact K2|exact K3]|]. apply F.
      unfold without_roles. rewrite Hr. cbn [fold_left]. assumption.
    - destruct (G2 e l Ig Pe) as (F & _). destruct (F _ Iid) as (fields' & E & Fi & _).
      cbn [snd] in E. inversion E; subst fields'.
      eapply field_fine_keeps; [exact K3|]. apply Fi. apply without_roles_In; assumption.
  Qed.

  Theorem ill_formed_contradiction : ill_formed x s doc -> False.
  Proof.
    intros [k Ik Nax Npl
           |e l id fields vn vals Ie Hi Iid If Nr Nv
           |e l id vn t value v Ie Hi (fields & dated & Iid & If & It) Nr Fv Hn Hc
           |e l id vn t value k Ie Hi (fields & dated & Iid & If & It) Nr Hp
           |e l id vn t value v p Ie Hi (fields & dated & Iid & If & It) Nr Fv Hn Hp He Hend Hm
           |e l gid r i pid persons Ie Hi (fields & Iid & Ir & Hnth) Hpers Np
           |e l a b i a' b' i' pid Ie Hi M M' Nd
           |e l gid fields r mx Ie Hi Iid Ir Hmx Hlen].
    - (* unknown entity *)
      rewrite (unknown_entity_entities x s doc k Ik Nax Npl) in Hb. discriminate.
    - (* unknown variable *)
      destruct (declaration_accepted e l id fields vn vals Ie Hi Iid If Nr)
        as (st3 & (v & dated & Fv & Ev & _) & _).
      cbn [fst] in Fv. eapply Nv; eassumption.
    - (* bad value *)
      destruct (declaration_accepted e l id fields vn (JObj dated) Ie Hi Iid If Nr)
        as (st3 & (v' & dated' & Fv' & Ev & Ed & Fe) & _).
      cbn [fst snd] in Fv', Ed. inversion Ed; subst dated'. rewrite Fv in Fv'. inversion Fv'; subst v'.
      destruct (Fe _ It) as (_ & B). destruct (B Hn) as (p & c & _ & C & _). cbn [snd] in C. congruence.
    - (* unparsable period *)
      destruct (declaration_accepted e l id fields vn (JObj dated) Ie Hi Iid If Nr)
        as (st3 & (v' & dated' & Fv' & Ev & Ed & Fe) & _).
      cbn [snd] in Ed. inversion Ed; subst dated'.
      destruct (Fe _ It) as ((p0 & A) & _). cbn [fst] in A. congruence.
    - (* mismatched period *)
      destruct (declaration_accepted e l id fields vn (JObj dated) Ie Hi Iid If Nr)
        as (st3 & (v' & dated' & Fv' & Ev & Ed & Fe) & Hm3).
      cbn [fst snd] in Fv', Ed. inversion Ed; subst dated'. rewrite Fv in Fv'. inversion Fv'; subst v'.
      destruct (Fe _ It) as (_ & B). destruct (B Hn) as (p' & c & P & _ & (arr & G)).
      cbn [fst] in P. rewrite Hp in P. inversion P; subst p'.
      rewrite (find_var_name _ _ _ Fv) in G.
      destruct (mapM_In _ _ _ _ Hm3 Ie) as (pop & Fp & _).
      unfold finalize_population in Fp. apply bind_ok in Fp. destruct Fp as (hs & Fl & _).
      unfold buf_get in G. destruct (aget vn (b_buffer st3)) as [entries|] eqn:Ge; [|discriminate].
      destruct (flush_buffer_inv _ _ _ _ _ _ Fl vn entries v (aget_In _ _ _ Ge) Fv Ev) as (h0 & h & Fpp).
      assert (In (p, arr) (sort_periods entries)) as Ipa.
      { eapply Permutation_in; [symmetry; apply sort_periods_perm|]. apply hget_In. assumption. }
      destruct (flush_periods_inv _ _ _ _ _ Fpp _ _ Ipa) as (h1 & a1 & h2 & Hset).
      eapply mismatch_never_ok; eassumption.
    - (* unknown person *)
      destruct build_stages as (persons' & st1 & st2 & st3 & Ap & _ & H1 & (ax & H2) & _ & _).
      pose proof (instances_params _ _ (or_introl eq_refl) Hpers) as Pp. fold pp in Pp.
      rewrite Ap in Pp. inversion Pp; subst persons'.
      assert (get_ids st1 pp = map fst persons) as Ids.
      { apply add_person_instances_frame in H1. rewrite (get_ids_frame _ _ _ H1).
        unfold get_ids, ids_of. cbn. rewrite String.eqb_refl. reflexivity. }
      destruct (add_groups_inv _ _ _ _ _ _ _ _ H2) as (_ & G2).
      destruct (G2 e l Ie (instances_params _ _ (or_intror Ie) Hi)) as (F & _).
      destruct (F _ Iid) as (fields' & E & _ & Known & _). cbn [snd] in E. inversion E; subst fields'.
      apply Np. rewrite <- Ids. eapply Known; [exact Ir|]. eapply nth_error_In; eassumption.
    - (* duplicate membership *)
      destruct build_stages as (persons' & st1 & st2 & st3 & _ & _ & _ & (ax & H2) & _ & _).
      destruct (add_groups_inv _ _ _ _ _ _ _ _ H2) as (_ & G2).
      destruct (G2 e l Ie (instances_params _ _ (or_intror Ie) Hi)) as (_ & U).
      apply Nd. eapply U; eassumption.
    - (* too many holders of a role *)
      destruct build_stages as (persons' & st1 & st2 & st3 & _ & _ & _ & (ax & H2) & _ & _).
      destruct (add_groups_inv _ _ _ _ _ _ _ _ H2) as (_ & G2).
      destruct (G2 e l Ie (instances_params _ _ (or_intror Ie) Hi)) as (F & _).
      destruct (F _ Iid) as (fields' & E & _ & _ & Max). cbn [snd] in E. inversion E; subst fields'.
      specialize (Max r mx Ir Hmx). lia.
  Qed.
End NeverBuilds.

(** A document with an ill-formed item of any class, at any place, never builds. *)
Theorem ill_formed_never_builds x s doc :
  wf_sys s -> e_roles (s_person s) = [] -> ill_formed x s doc ->
  forall sim, build_from_entities x s doc <> Ok sim.
Proof. intros Wf Hr Hi sim Hb. eapply ill_formed_contradiction; eassumption. Qed.
