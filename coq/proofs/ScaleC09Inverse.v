(** C09: the inverse of a marginal-rate scale maps every net amount back to its gross.

    For a sorted scale starting at threshold 0 with all rates < 1:
      inverse s = [(net_k, 1 / (1 - r_k))]_k   with net_0 = 0,
                                               net_(k+1) = net_k + (1 - r_k) (t_(k+1) - t_k)
    (strictly increasing, so every add_bracket of the loop appends), and for g >= 0
      tax (inverse s) (g - tax s g) = g. *)
From Coq Require Import ZArith QArith Qminmax Qfield List Bool Lia Lqa Setoid Morphisms Sorted.
From Verif Require Import Base Scale ScaleOps ScaleProofs ScaleC09Proofs ScaleC09Combine ScaleC09Average.
Import ListNotations.
Open Scope Q_scope.

(* ------------------------------------------------------------------------- *)
(** * Facts about marginal_tax                                                 *)
(* ------------------------------------------------------------------------- *)

Lemma marginal_tax_base_compat : forall s b b', b == b' -> marginal_tax b s == marginal_tax b' s.
Proof.
  induction s as [|[t r] s IH]; intros b b' H; [reflexivity|].
  cbn [marginal_tax]. rewrite (IH b b' H). rewrite H. reflexivity.
Qed.

Global Instance marginal_tax_comp : Proper (Qeq ==> eq ==> Qeq) marginal_tax.
Proof. intros b b' Hb s s' Hs. subst s'. apply marginal_tax_base_compat. assumption. Qed.

Lemma marginal_tax_below : forall s b, Forall (fun x => b <= fst x) s -> marginal_tax b s == 0.
Proof.
  induction s as [|[t r] s IH]; intros b H; [reflexivity|].
  inversion H as [|? ? Ht Hs]; subst. cbn [fst] in Ht. cbn [marginal_tax].
  rewrite (IH b Hs).
  assert (E : overlap t (upper_end s) b == 0).
  { destruct (upper_end s) as [h|]; cbn [overlap]; qminmax; lra. }
  rewrite E. ring.
Qed.

Lemma sorted_lower : forall t r s b, sorted ((t, r) :: s) -> b <= t ->
  Forall (fun x => b <= fst x) ((t, r) :: s).
Proof.
  intros t r s b Hs Hb. constructor; [assumption|].
  pose proof (sorted_above _ _ _ Hs) as Ha. eapply Forall_impl; [|exact Ha].
  intros a Hlt. cbn beta in *. lra.
Qed.

(** with rates at most 1 the tax above the first threshold is at most the excess *)
Lemma marginal_tax_le : forall rest t r g,
  sorted ((t, r) :: rest) -> Forall (fun x => snd x <= 1) ((t, r) :: rest) -> t <= g ->
  marginal_tax g ((t, r) :: rest) <= g - t.
Proof.
  induction rest as [|[t2 r2] rest IH]; intros t r g Hs Hr Hg;
    inversion Hr as [|? ? Hr1 Hr']; subst; cbn [snd] in Hr1.
  - cbn [marginal_tax upper_end overlap]. qminmax; nra.
  - pose proof (sorted_cons2 _ _ _ _ _ Hs) as Hlt.
    change (marginal_tax g ((t, r) :: (t2, r2) :: rest))
      with (r * overlap t (Fin t2) g + marginal_tax g ((t2, r2) :: rest)).
    destruct (Qlt_le_dec t2 g) as [Hc|Hc].
    + pose proof (IH t2 r2 g (sorted_tail _ _ Hs) Hr' (Qlt_le_weak _ _ Hc)) as H2.
      cbn [overlap]. qminmax; nra.
    + rewrite (marginal_tax_below ((t2, r2) :: rest) g)
        by (apply sorted_lower; [eapply sorted_tail; exact Hs|assumption]).
      cbn [overlap]. qminmax; nra.
Qed.

(* ------------------------------------------------------------------------- *)
(** * What the loop of inverse builds                                          *)
(* ------------------------------------------------------------------------- *)

Fixpoint inv_spec (s : scale) (pr theta : Q) : scale :=
  match s with
  | [] => []
  | (t, r) :: s' => ((1 - pr) * t + theta, 1 / (1 - r)) :: inv_spec s' r ((r - pr) * t + theta)
  end.

Definition rates_below_one (s : scale) : Prop := Forall (fun x => snd x < 1) s.

Lemma inverse_loop_spec : forall s pr theta acc,
  sorted s -> rates_below_one s -> Forall (fun x => 0 < fst x) s -> pr < 1 ->
  match s with
  | [] => True
  | (t, _) :: _ => Forall (fun x => fst x < (1 - pr) * t + theta) acc
  end ->
  inverse_loop s (Some (pr, theta)) acc = Ok (acc ++ inv_spec s pr theta).
Proof.
  induction s as [|[t r] s IH]; intros pr theta acc Hs Hr Hp Hpr Hacc.
  - cbn [inverse_loop inv_spec]. rewrite app_nil_r. reflexivity.
  - inversion Hr as [|? ? Hr1 Hr']; subst. inversion Hp as [|? ? Hp1 Hp']; subst.
    cbn [fst snd] in Hr1, Hp1. cbn [inverse_loop inv_spec].
    assert (E1 : Qeq_bool t 0 = false) by (apply Qeq_bool_false_iff; lra).
    assert (E2 : Qeq_bool (1 - r) 0 = false) by (apply Qeq_bool_false_iff; lra).
    rewrite E1, E2. rewrite add_append by assumption.
    rewrite IH; try assumption.
    + rewrite <- app_assoc. reflexivity.
    + eapply sorted_tail. exact Hs.
    + destruct s as [|[t2 r2] s']; [exact I|].
      pose proof (sorted_cons2 _ _ _ _ _ Hs) as Hlt.
      apply Forall_app. split.
      * eapply Forall_impl; [|exact Hacc]. intros a Ha. cbn beta in *. nra.
      * constructor; [|constructor]. cbn [fst]. nra.
Qed.

Lemma inverse_spec : forall t0 r0 s,
  sorted ((t0, r0) :: s) -> rates_below_one ((t0, r0) :: s) -> t0 == 0 ->
  inverse ((t0, r0) :: s) = Ok (inv_spec ((t0, r0) :: s) 0 0).
Proof.
  intros t0 r0 s Hs Hr H0. inversion Hr as [|? ? Hr1 Hr']; subst. cbn [snd] in Hr1.
  unfold inverse. cbn [inverse_loop inv_spec].
  apply Qeq_bool_iff in H0. rewrite H0. apply Qeq_bool_iff in H0.
  assert (E2 : Qeq_bool (1 - r0) 0 = false) by (apply Qeq_bool_false_iff; lra).
  rewrite E2. change (add_bracket ((1 - 0) * t0 + 0) (1 / (1 - r0)) [])
    with [((1 - 0) * t0 + 0, 1 / (1 - r0))].
  rewrite inverse_loop_spec; try assumption.
  - reflexivity.
  - eapply sorted_tail. exact Hs.
  - pose proof (sorted_above _ _ _ Hs) as Ha. eapply Forall_impl; [|exact Ha].
    intros a Ha'. cbn beta in *. lra.
  - destruct s as [|[t2 r2] s']; [exact I|].
    pose proof (sorted_cons2 _ _ _ _ _ Hs) as Hlt.
    constructor; [|constructor]. cbn [fst]. nra.
Qed.

Lemma inv_spec_lower : forall s pr theta c,
  sorted s -> rates_below_one s ->
  match s with [] => True | (t, _) :: _ => c <= (1 - pr) * t + theta end ->
  Forall (fun x => c <= fst x) (inv_spec s pr theta).
Proof.
  induction s as [|[t r] s IH]; intros pr theta c Hs Hr Hc; [constructor|].
  inversion Hr as [|? ? Hr1 Hr']; subst. cbn [snd] in Hr1.
  cbn [inv_spec]. constructor; [cbn [fst]; assumption|].
  apply IH; [eapply sorted_tail; exact Hs|assumption|].
  destruct s as [|[t2 r2] s']; [exact I|].
  pose proof (sorted_cons2 _ _ _ _ _ Hs) as Hlt. nra.
Qed.

(* ------------------------------------------------------------------------- *)
(** * The round trip                                                           *)
(* ------------------------------------------------------------------------- *)

Lemma inverse_suffix : forall rest t r pr theta g,
  sorted ((t, r) :: rest) -> rates_below_one ((t, r) :: rest) -> t <= g ->
  marginal_tax ((1 - pr) * t + theta + (g - t) - marginal_tax g ((t, r) :: rest))
               (inv_spec ((t, r) :: rest) pr theta)
  == g - t.
Proof.
  induction rest as [|[t2 r2] rest IH]; intros t r pr theta g Hs Hr Hg;
    inversion Hr as [|? ? Hr1 Hr']; subst; cbn [snd] in Hr1.
  - cbn [inv_spec marginal_tax upper_end overlap].
    assert (E : Qmax 0 (g - t) == g - t) by (apply Q.max_r; lra).
    rewrite E.
    assert (E2 : Qmax 0 ((1 - pr) * t + theta + (g - t) - (r * (g - t) + 0) - ((1 - pr) * t + theta))
                 == (1 - r) * (g - t)).
    { rewrite Q.max_r; [ring|]. nra. }
    rewrite E2. field. lra.
  - pose proof (sorted_cons2 _ _ _ _ _ Hs) as Hlt.
    pose proof (sorted_tail _ _ Hs) as Hs2.
    change (marginal_tax g ((t, r) :: (t2, r2) :: rest))
      with (r * overlap t (Fin t2) g + marginal_tax g ((t2, r2) :: rest)).
    change (inv_spec ((t, r) :: (t2, r2) :: rest) pr theta)
      with (((1 - pr) * t + theta, 1 / (1 - r))
              :: inv_spec ((t2, r2) :: rest) r ((r - pr) * t + theta)).
    set (s2 := (t2, r2) :: rest) in *.
    set (theta' := (r - pr) * t + theta).
    set (nt := (1 - pr) * t + theta).
    assert (Hup : upper_end (inv_spec s2 r theta') = Fin ((1 - r) * t2 + theta')) by reflexivity.
    cbn [marginal_tax]. rewrite Hup.
    assert (Hn2 : (1 - r) * t2 + theta' == nt + (1 - r) * (t2 - t)) by (unfold theta', nt; ring).
    destruct (Qlt_le_dec t2 g) as [Hc|Hc].
    + (* above the next threshold *)
      pose proof (marginal_tax_le rest t2 r2 g Hs2
                    (Forall_impl _ (fun a (H : snd a < 1) => Qlt_le_weak _ _ H) Hr')
                    (Qlt_le_weak _ _ Hc)) as Hle.
      fold s2 in Hle.
      pose proof (IH t2 r2 r theta' g Hs2 Hr' (Qlt_le_weak _ _ Hc)) as H2. fold s2 in H2.
      assert (Eo : overlap t (Fin t2) g == t2 - t) by (cbn [overlap]; qminmax; lra).
      rewrite Eo.
      assert (Ex : nt + (g - t) - (r * (t2 - t) + marginal_tax g s2)
                   == (1 - r) * t2 + theta' + (g - t2) - marginal_tax g s2)
        by (rewrite Hn2; ring).
      rewrite (marginal_tax_base_compat _ _ _ Ex), H2.
      assert (Eo2 : overlap nt (Fin ((1 - r) * t2 + theta'))
                      (nt + (g - t) - (r * (t2 - t) + marginal_tax g s2))
                    == (1 - r) * (t2 - t)).
      { cbn [overlap]. rewrite Hn2. qminmax; nra. }
      rewrite Eo2. field. lra.
    + (* inside the first bracket *)
      assert (Eo : overlap t (Fin t2) g == g - t) by (cbn [overlap]; qminmax; lra).
      rewrite Eo.
      rewrite (marginal_tax_below s2 g) by (apply sorted_lower; assumption).
      assert (Hb : marginal_tax (nt + (g - t) - (r * (g - t) + 0)) (inv_spec s2 r theta') == 0).
      { apply marginal_tax_below. apply inv_spec_lower; [assumption|assumption|].
        unfold s2. rewrite Hn2. nra. }
      rewrite Hb.
      assert (Eo2 : overlap nt (Fin ((1 - r) * t2 + theta')) (nt + (g - t) - (r * (g - t) + 0))
                    == (1 - r) * (g - t)).
      { cbn [overlap]. rewrite Hn2. qminmax; nra. }
      rewrite Eo2. field. lra.
Qed.

Lemma inverse_roundtrip_calc : forall t0 r0 rest g,
  sorted ((t0, r0) :: rest) -> t0 == 0 -> Forall (fun r => r < 1) (rates ((t0, r0) :: rest)) ->
  0 <= g ->
  exists inv, inverse ((t0, r0) :: rest) = Ok inv
              /\ calc inv (g - calc ((t0, r0) :: rest) g) == g.
Proof.
  intros t0 r0 rest g Hs H0 Hr Hg.
  assert (Hr' : rates_below_one ((t0, r0) :: rest)).
  { unfold rates_below_one. unfold rates in Hr. rewrite Forall_map in Hr. exact Hr. }
  exists (inv_spec ((t0, r0) :: rest) 0 0). split; [apply inverse_spec; assumption|].
  rewrite (calc_marginal_tax (inv_spec ((t0, r0) :: rest) 0 0)).
  rewrite (calc_marginal_tax ((t0, r0) :: rest) g).
  pose proof (inverse_suffix rest t0 r0 0 0 g Hs Hr' ltac:(lra)) as H.
  assert (E : g - marginal_tax g ((t0, r0) :: rest)
              == (1 - 0) * t0 + 0 + (g - t0) - marginal_tax g ((t0, r0) :: rest)) by lra.
  rewrite (marginal_tax_base_compat _ _ _ E), H. lra.
Qed.
