(** C02, sentence 2: the purge hypothesis [marks_exact] holds when the stored keys and the
    marks are ordinary periods: size 1, the unit of their variable, a valid start, and a
    start day <= 28 for month and year periods (no end-of-month clipping).  Among such
    periods of one unit, [contains p q = true] only if [p = q]. *)
From Coq Require Import ZArith List Bool Lia ZifyBool.
From Verif Require Import Base Cal Tables Period PeriodSpec CalProofs PeriodProofs Engine EngineProofs
  EngineC02SpiralProofs EngineC02Justify.
Import ListNotations.
Ltac Zify.zify_post_hook ::= Z.to_euclidean_division_equations.
Local Open Scope Z_scope.

Definition ordinary (q : period) : bool :=
  negb (unit_eqb (p_unit q) Eternity) && validb (p_start q) && (p_size q =? 1) &&
  match p_unit q with
  | Month | Year => let '(_, _, d) := p_start q in d <=? 28
  | _ => true
  end.

(** shifting by whole months keeps the order of unclipped dates *)
Lemma add_months_mono y m d y' m' d' k :
  valid (y, m, d) -> valid (y', m', d') -> d <= 28 -> d' <= 28 -> 0 <= k ->
  ord (y, m, d) < ord (y', m', d') ->
  ord (add_months (y, m, d) k) < ord (add_months (y', m', d') k).
Proof.
  intros V V' Hd Hd' Hk Hlt.
  apply (ord_lt_iff _ _ V V') in Hlt.
  pose proof V as W. pose proof V' as W'. apply valid_iff in W. apply valid_iff in W'.
  assert (V1 : valid (add_months (y, m, d) k)) by (apply add_months_valid; [assumption|lia]).
  assert (V2 : valid (add_months (y', m', d') k)) by (apply add_months_valid; [assumption|lia]).
  apply ord_lt; [assumption|assumption|].
  rewrite !add_months_small by lia.
  unfold date_ltb, date_leb, date_eqb in *. lia.
Qed.

Lemma ordinary_contains_eq p q : ordinary p = true -> ordinary q = true -> p_unit p = p_unit q ->
  contains p q = true -> p = q.
Proof.
  destruct p as [[u [[y m] d]] n], q as [[u' [[y' m'] d']] n'].
  unfold ordinary, p_unit, p_start, p_size; cbn [fst snd].
  intros Hp Hq Hu Hc. subst u'.
  apply andb_true_iff in Hp as [Hp Hp4]. apply andb_true_iff in Hp as [Hp Hp3].
  apply andb_true_iff in Hp as [Hp1 Hp2].
  apply andb_true_iff in Hq as [Hq Hq4]. apply andb_true_iff in Hq as [Hq Hq3].
  apply andb_true_iff in Hq as [Hq1 Hq2].
  apply Z.eqb_eq in Hp3, Hq3. subst n n'.
  assert (Hne : u <> Eternity) by (intro; subst u; discriminate).
  assert (Wp : wf (u, (y, m, d), 1)) by (repeat split; auto; cbn; lia).
  assert (Wq : wf (u, (y', m', d'), 1)) by (repeat split; auto; cbn; lia).
  apply (contains_spec _ _ Wp Wq) in Hc. unfold first_ord, last_ord, p_start in Hc; cbn [fst snd] in Hc.
  destruct Hc as [H1 H2].
  assert (Hs : ord (y, m, d) = ord (y', m', d')).
  { destruct (Z.eq_dec (ord (y, m, d)) (ord (y', m', d'))) as [E|E]; [exact E|exfalso].
    assert (Hlt : ord (y, m, d) < ord (y', m', d')) by lia.
    pose proof (ord_pos _ Hp2) as P1. pose proof (ord_pos _ Hq2) as P2.
    destruct u; cbn [end_excl] in H2; try congruence.
    - destruct (add_days_ord (y, m, d) 1 Hp2 ltac:(lia)) as [_ A].
      destruct (add_days_ord (y', m', d') 1 Hq2 ltac:(lia)) as [_ B]. lia.
    - destruct (add_days_ord (y, m, d) (7 * 1) Hp2 ltac:(lia)) as [_ A].
      destruct (add_days_ord (y', m', d') (7 * 1) Hq2 ltac:(lia)) as [_ B]. lia.
    - destruct (add_days_ord (y, m, d) 1 Hp2 ltac:(lia)) as [_ A].
      destruct (add_days_ord (y', m', d') 1 Hq2 ltac:(lia)) as [_ B]. lia.
    - apply Z.leb_le in Hp4, Hq4.
      pose proof (add_months_mono y m d y' m' d' 1 Hp2 Hq2 Hp4 Hq4 ltac:(lia) Hlt). lia.
    - apply Z.leb_le in Hp4, Hq4. unfold add_years in H2.
      pose proof (add_months_mono y m d y' m' d' (12 * 1) Hp2 Hq2 Hp4 Hq4 ltac:(lia) Hlt). lia. }
  apply (ord_inj _ _ Hp2 Hq2) in Hs. congruence.
Qed.

(** a key of an existing variable, in the variable's unit, ordinary *)
Definition key_ordinary (sy : sys) (k : key) : bool :=
  match nth_error (vars sy) (fst k) with
  | Some x => unit_eqb (v_unit x) (p_unit (snd k)) && ordinary (snd k)
  | None => false
  end.

Definition ordinary_keys (sy : sys) (s : st) : bool :=
  forallb (key_ordinary sy) (invalid s) && forallb (fun kv => key_ordinary sy (fst kv)) (cache s).

Lemma ordinary_marks_exact sy s : ordinary_keys sy s = true -> marks_exact s.
Proof.
  unfold ordinary_keys, marks_exact. intros H m k a Hm Hk Hf Hc.
  apply andb_true_iff in H as [H1 H2]. rewrite forallb_forall in H1, H2.
  specialize (H1 m Hm).
  unfold lookup in Hk. destruct (find (fun kv => key_eqb k (fst kv)) (cache s)) as [kv|] eqn:E; [|discriminate].
  apply find_some in E as [Hin He]. apply key_eqb_iff in He.
  specialize (H2 kv Hin). cbn beta in H2. rewrite <- He in H2.
  unfold key_ordinary in H1, H2. rewrite <- Hf in H2.
  destruct (nth_error (vars sy) (fst m)) as [x|]; [|discriminate].
  apply andb_true_iff in H1 as [U1 O1]. apply andb_true_iff in H2 as [U2 O2].
  apply unit_eqb_iff in U1, U2.
  apply ordinary_contains_eq; auto. congruence.
Qed.

Theorem retained_justified_ordinary : forall sy pp f s0 v p,
  no_eternal sy -> stack s0 = [] -> invalid s0 = [] ->
  ordinary_keys sy (before_purge f sy pp s0 v p) = true ->
  let s1 := fst (calc (S f) sy pp s0 v p) in
  forall k a, lookup k (cache s1) = Some a -> lookup k (cache s0) <> Some a ->
  exists W : list (key * val),
    (forall k' a', lookup k' W = Some a' -> k' <> k /\ lookup k' (cache s1) = Some a') /\
    snd (calc (S f) sy pp {| cache := W; stack := []; invalid := [] |} (fst k) (snd k)) = Ok a.
Proof.
  intros sy pp f s0 v p Hne Hst Hinv Ho.
  exact (retained_justified sy pp f s0 v p Hne Hst Hinv (ordinary_marks_exact sy _ Ho)).
Qed.
