(** The two storages have the same regenerated description, and it is the engine's. *)
From Coq Require Import ZArith List Bool.
From Verif Require Import Base Cal Tables Period Engine GuardsTypes GuardsStorage GuardsStorageSem.
Import ListNotations.
Open Scope Z_scope.

(** (a) memory and disk agree *)
Lemma storages_agree : forall e n,
  gen_memory_get_key e n = gen_disk_get_key e n
  /\ gen_memory_put_key e n = gen_disk_put_key e n
  /\ gen_memory_delete e n = gen_disk_delete e n.
Proof. intros [] []; repeat split; reflexivity. Qed.

(** the description, written out *)
Lemma storage_keys_table : forall e n,
  gen_memory_get_key e n = (if e then KEternity else KGiven)
  /\ gen_memory_put_key e n = (if e then KEternity else KGiven)
  /\ gen_memory_delete e n = (if n then DeleteAll else DeleteContained (if e then KEternity else KGiven)).
Proof. intros [] []; repeat split; reflexivity. Qed.

(** get and put use the same key: what is stored for [p] is found for [p] *)
Lemma get_key_is_put_key : forall e n, gen_memory_get_key e n = gen_memory_put_key e n.
Proof. intros [] []; reflexivity. Qed.

(** (b) the engine *)
Lemma norm_is_source_get : forall x p, norm x p = src_get_period x p.
Proof. intros x p. unfold norm, src_get_period, holder_eternal. destruct (unit_eqb (v_unit x) Eternity); reflexivity. Qed.

Lemma norm_is_source_put : forall x p, norm x p = src_put_period x p.
Proof. intros x p. unfold norm, src_put_period, holder_eternal. destruct (unit_eqb (v_unit x) Eternity); reflexivity. Qed.

Lemma delete_one_is_source : forall sy k c, delete_one sy k c = src_delete_one sy k c.
Proof.
  intros sy k c. unfold delete_one, src_delete_one, norm, holder_eternal.
  destruct (nth_error (vars sy) (fst k)) as [x|]; [|reflexivity].
  destruct (unit_eqb (v_unit x) Eternity); reflexivity.
Qed.

Lemma delete_arrays_is_source : forall sy s v p, delete_arrays sy s v p = src_delete_arrays sy s v p.
Proof.
  intros sy s v [q|]; unfold delete_arrays, src_delete_arrays.
  - rewrite delete_one_is_source. reflexivity.
  - reflexivity.
Qed.
