(** C17, part 1: a relational lemma for the generic evaluator (two instances, possibly over
    two rule systems that differ only in the [v_nostore] flags); the evaluation stack is
    restored by every calculation, in every system; the meaning of a rule system does not
    read the [v_nostore] flags, hence storage settings never change the answers. *)
From Coq Require Import ZArith List Bool Arith Lia.
From Verif Require Import Base Cal Tables Period Np Group Param Engine EngineProofs EngineTrace.
Import ListNotations.
Open Scope nat_scope.

(** * Forgetting the store flag *)

Definition var_erase (x : var) : var := var_with_nostore false x.

Definition sys_erase (sy : sys) : sys :=
  {| vars := map var_erase (vars sy); params := params sy; switches := switches sy;
     max_loops := max_loops sy |}.

(** Two rule systems that differ at most in which variables skip the store. *)
Definition same_but_nostore (sy1 sy2 : sys) : Prop := sys_erase sy1 = sys_erase sy2.

Lemma erase_fields x y : var_erase x = var_erase y ->
  v_ent x = v_ent y /\ v_type x = v_type y /\ v_unit x = v_unit y /\ v_end x = v_end y
  /\ v_formulas x = v_formulas y /\ v_default x = v_default y /\ v_neutral x = v_neutral y.
Proof. intro H. unfold var_erase, var_with_nostore in H. inversion H. repeat split; assumption. Qed.

Lemma same_nth sy1 sy2 w : same_but_nostore sy1 sy2 ->
  option_map var_erase (nth_error (vars sy1) w) = option_map var_erase (nth_error (vars sy2) w).
Proof.
  intro H. unfold same_but_nostore, sys_erase in H. inversion H as [[Hv Hp Hs Hm]].
  rewrite <- !nth_error_map. now rewrite Hv.
Qed.

Lemma same_params sy1 sy2 : same_but_nostore sy1 sy2 -> params sy1 = params sy2.
Proof. intro H. now inversion H. Qed.
Lemma same_switches sy1 sy2 : same_but_nostore sy1 sy2 -> switches sy1 = switches sy2.
Proof. intro H. now inversion H. Qed.
Lemma same_max_loops sy1 sy2 : same_but_nostore sy1 sy2 -> max_loops sy1 = max_loops sy2.
Proof. intro H. now inversion H. Qed.
Lemma same_length sy1 sy2 : same_but_nostore sy1 sy2 -> length (vars sy1) = length (vars sy2).
Proof.
  intro H. unfold same_but_nostore, sys_erase in H. inversion H as [[Hv Hp Hs Hm]].
  apply (f_equal (@length var)) in Hv. now rewrite !map_length in Hv.
Qed.

Lemma same_refl sy : same_but_nostore sy sy.
Proof. reflexivity. Qed.
Lemma same_sym sy1 sy2 : same_but_nostore sy1 sy2 -> same_but_nostore sy2 sy1.
Proof. unfold same_but_nostore. congruence. Qed.

(** what the functions of the meaning read of a variable *)
Lemma check_consistency_erase x y p : var_erase x = var_erase y -> check_consistency x p = check_consistency y p.
Proof. intro H. apply erase_fields in H as (_ & _ & Hu & _). unfold check_consistency. now rewrite Hu. Qed.
Lemma norm_erase x y p : var_erase x = var_erase y -> norm x p = norm y p.
Proof. intro H. apply erase_fields in H as (_ & _ & Hu & _). unfold norm. now rewrite Hu. Qed.
Lemma formula_at_erase x y p : var_erase x = var_erase y -> formula_at x p = formula_at y p.
Proof. intro H. apply erase_fields in H as (_ & _ & _ & He & Hf & _). unfold formula_at. now rewrite He, Hf. Qed.
Lemma default_array_erase pp x y : var_erase x = var_erase y -> default_array pp x = default_array pp y.
Proof. intro H. apply erase_fields in H as (He & _ & _ & _ & _ & Hd & _). unfold default_array. now rewrite He, Hd. Qed.
Lemma cast_erase x y a : var_erase x = var_erase y -> cast x a = cast y a.
Proof. intro H. apply erase_fields in H as (_ & Ht & _). unfold cast. now rewrite Ht. Qed.

(** * Two instances of the generic evaluator in related states *)

Section Rel.
  Context {S1 S2 : Type}.
  Variable sy1 sy2 : sys.
  Variable pp : popu.
  Variable rec1 : S1 -> nat -> period -> S1 * res val.
  Variable rec2 : S2 -> nat -> period -> S2 * res val.
  Variable R : S1 -> S2 -> Prop.
  Hypothesis Hsys : same_but_nostore sy1 sy2.
  Hypothesis Hrec : forall s1 s2 w q, R s1 s2 ->
    R (fst (rec1 s1 w q)) (fst (rec2 s2 w q)) /\ snd (rec1 s1 w q) = snd (rec2 s2 w q).

  Lemma sum_calc_rel : forall subs w acc s1 s2, R s1 s2 ->
    R (fst (sum_calc rec1 s1 w subs acc)) (fst (sum_calc rec2 s2 w subs acc)) /\
    snd (sum_calc rec1 s1 w subs acc) = snd (sum_calc rec2 s2 w subs acc).
  Proof.
    induction subs as [|q r IH]; intros w acc s1 s2 Hs; cbn; [auto|].
    destruct (Hrec s1 s2 w q Hs) as [HR Hr].
    destruct (rec1 s1 w q) as [t1 r1]; destruct (rec2 s2 w q) as [t2 r2]; cbn [fst snd] in *. subst r2.
    destruct r1 as [a|e]; cbn [fst snd]; auto.
  Qed.

  Lemma calc_add_rel : forall w x y q s1 s2, v_unit x = v_unit y -> R s1 s2 ->
    R (fst (calc_add rec1 s1 w x q)) (fst (calc_add rec2 s2 w y q)) /\
    snd (calc_add rec1 s1 w x q) = snd (calc_add rec2 s2 w y q).
  Proof.
    intros w x y q s1 s2 Hu Hs. unfold calc_add. rewrite Hu.
    destruct (_ <? _)%Z; cbn [fst snd]; auto.
    destruct (unit_eqb _ _); cbn [fst snd]; auto.
    destruct (negb _); cbn [fst snd]; auto.
    destruct (subperiods _ _); cbn [fst snd]; auto.
    now apply sum_calc_rel.
  Qed.

  Lemma calc_divide_rel : forall w x y q s1 s2, v_unit x = v_unit y -> R s1 s2 ->
    R (fst (calc_divide rec1 s1 w x q)) (fst (calc_divide rec2 s2 w y q)) /\
    snd (calc_divide rec1 s1 w x q) = snd (calc_divide rec2 s2 w y q).
  Proof.
    intros w x y q s1 s2 Hu Hs. unfold calc_divide, divide_period. rewrite Hu.
    destruct (_ || _); cbn [fst snd]; auto.
    destruct (negb (dated_unit (v_unit y))); cbn [fst snd]; auto.
    destruct (_ || _); cbn [fst snd]; auto.
    destruct (match v_unit y with Year => _ | _ => _ end) as [cp|]; cbn [fst snd]; auto.
    destruct (divide_denominator _ _); cbn [fst snd]; auto.
    destruct (Hrec s1 s2 w cp Hs) as [HR Hr].
    destruct (rec1 s1 w cp) as [t1 r1]; destruct (rec2 s2 w cp) as [t2 r2]; cbn [fst snd] in *. subst r2.
    destruct r1; cbn [fst snd]; auto.
  Qed.

  Lemma call_rel : forall c w q o s1 s2, R s1 s2 ->
    R (fst (call rec1 sy1 c s1 w q o)) (fst (call rec2 sy2 c s2 w q o)) /\
    snd (call rec1 sy1 c s1 w q o) = snd (call rec2 sy2 c s2 w q o).
  Proof.
    intros c w q o s1 s2 Hs. unfold call.
    pose proof (same_nth sy1 sy2 w Hsys) as Hn.
    destruct (nth_error (vars sy1) w) as [x|]; destruct (nth_error (vars sy2) w) as [y|];
      cbn [option_map] in Hn; try discriminate; cbn [fst snd]; auto.
    assert (He : var_erase x = var_erase y) by congruence.
    destruct (erase_fields x y He) as (Hent & _ & Hu & _). rewrite Hent.
    destruct (negb _); cbn [fst snd]; auto.
    destruct o; cbn [fst snd]; auto.
    - now apply calc_add_rel.
    - destruct (calc_divide_rel w x y q s1 s2 Hu Hs) as [HR Hr].
      destruct (calc_divide rec1 s1 w x q) as [t1 r1]; destruct (calc_divide rec2 s2 w y q) as [t2 r2].
      cbn [fst snd] in *. subst r2. destruct r1 as [[a d]|]; cbn [fst snd]; auto.
  Qed.

  Lemma eval_rel : forall e c p s1 s2, R s1 s2 ->
    R (fst (eval rec1 sy1 pp c s1 p e)) (fst (eval rec2 sy2 pp c s2 p e)) /\
    snd (eval rec1 sy1 pp c s1 p e) = snd (eval rec2 sy2 pp c s2 p e).
  Proof.
    induction e as [z|w pt o|op a IHa b IHb|a IHa|cn IHc a IHa b IHb|k|g role a IHa|role|role a IHa|f|k];
      intros c p s1 s2 Hs; cbn [eval]; auto.
    - (* EDep *)
      destruct (apply_ptrans pt p); cbn [fst snd]; auto. now apply call_rel.
    - (* EBin *)
      destruct (IHa c p s1 s2 Hs) as [HR1 Hr1].
      destruct (eval rec1 sy1 pp c s1 p a) as [t1 r1]; destruct (eval rec2 sy2 pp c s2 p a) as [t2 r2].
      cbn [fst snd] in *. subst r2. destruct r1 as [x|]; cbn [fst snd]; auto.
      destruct (IHb c p t1 t2 HR1) as [HR2 Hr2].
      destruct (eval rec1 sy1 pp c t1 p b) as [u1 q1]; destruct (eval rec2 sy2 pp c t2 p b) as [u2 q2].
      cbn [fst snd] in *. subst q2. destruct q1; cbn [fst snd]; auto.
    - (* ENot *)
      destruct (IHa c p s1 s2 Hs) as [HR1 Hr1].
      destruct (eval rec1 sy1 pp c s1 p a) as [t1 r1]; destruct (eval rec2 sy2 pp c s2 p a) as [t2 r2].
      cbn [fst snd] in *. subst r2. auto.
    - (* EWhere *)
      destruct (IHc c p s1 s2 Hs) as [HR1 Hr1].
      destruct (eval rec1 sy1 pp c s1 p cn) as [t1 r1]; destruct (eval rec2 sy2 pp c s2 p cn) as [t2 r2].
      cbn [fst snd] in *. subst r2. destruct r1 as [x|]; cbn [fst snd]; auto.
      destruct (IHa c p t1 t2 HR1) as [HR2 Hr2].
      destruct (eval rec1 sy1 pp c t1 p a) as [u1 q1]; destruct (eval rec2 sy2 pp c t2 p a) as [u2 q2].
      cbn [fst snd] in *. subst q2. destruct q1 as [y|]; cbn [fst snd]; auto.
      destruct (IHb c p u1 u2 HR2) as [HR3 Hr3].
      destruct (eval rec1 sy1 pp c u1 p b) as [w1 o1]; destruct (eval rec2 sy2 pp c u2 p b) as [w2 o2].
      cbn [fst snd] in *. subst o2. destruct o1; cbn [fst snd]; auto.
    - (* EParam *)
      rewrite <- (same_params sy1 sy2 Hsys).
      destruct (nth_error (params sy1) k); cbn [fst snd]; auto. destruct (get_at _ _); cbn [fst snd]; auto.
    - (* EAgg *)
      destruct (IHa EPerson p s1 s2 Hs) as [HR1 Hr1].
      destruct (eval rec1 sy1 pp EPerson s1 p a) as [t1 r1]; destruct (eval rec2 sy2 pp EPerson s2 p a) as [t2 r2].
      cbn [fst snd] in *. subst r2. auto.
    - (* EProject *)
      destruct (IHa EGroup p s1 s2 Hs) as [HR1 Hr1].
      destruct (eval rec1 sy1 pp EGroup s1 p a) as [t1 r1]; destruct (eval rec2 sy2 pp EGroup s2 p a) as [t2 r2].
      cbn [fst snd] in *. subst r2. auto.
    - (* ERaise *)
      rewrite <- (same_switches sy1 sy2 Hsys).
      destruct (existsb _ _); cbn [fst snd]; auto.
  Qed.
End Rel.

(** One instance, one invariant: what the nested calculations preserve, the evaluation of
    an expression (and ADD / DIVIDE requests) preserves. *)
Section Pres.
  Context {S : Type}.
  Variable sy : sys.
  Variable pp : popu.
  Variable rec : S -> nat -> period -> S * res val.
  Variable P : S -> Prop.
  Hypothesis Hrec : forall s w q, P s -> P (fst (rec s w q)).

  Let R (a b : S) : Prop := a = b /\ P a.

  Lemma R_rec : forall s1 s2 w q, R s1 s2 ->
    R (fst (rec s1 w q)) (fst (rec s2 w q)) /\ snd (rec s1 w q) = snd (rec s2 w q).
  Proof. intros s1 s2 w q [-> HP]. repeat split; auto. Qed.

  Lemma eval_pres : forall e c p s, P s -> P (fst (eval rec sy pp c s p e)).
  Proof.
    intros e c p s HP.
    exact (proj2 (proj1 (eval_rel sy sy pp rec rec R (same_refl sy) R_rec e c p s s (conj eq_refl HP)))).
  Qed.

  Lemma calc_add_pres : forall w x q s, P s -> P (fst (calc_add rec s w x q)).
  Proof.
    intros w x q s HP.
    exact (proj2 (proj1 (calc_add_rel rec rec R R_rec w x x q s s eq_refl (conj eq_refl HP)))).
  Qed.

  Lemma calc_divide_pres : forall w x q s, P s -> P (fst (calc_divide rec s w x q)).
  Proof.
    intros w x q s HP.
    exact (proj2 (proj1 (calc_divide_rel rec rec R R_rec w x x q s s eq_refl (conj eq_refl HP)))).
  Qed.
End Pres.

(** * The evaluation stack is restored by every calculation: any rule system (cycles,
      spirals, unknown variables, raising formulas), any state, any fuel *)

Lemma stack_purge sy s : stack (purge sy s) = stack s.
Proof. unfold purge. destruct (stack s) eqn:E; cbn [stack]; auto. Qed.

Lemma stack_put_in_cache x v p a s : stack (put_in_cache x v p a s) = stack s.
Proof. unfold put_in_cache. destruct (v_nostore x); reflexivity. Qed.

Lemma calc_body_stack (rec : st -> nat -> period -> st * res val) sy pp s0 v p :
  (forall s w q, stack s = stack s0 -> stack (fst (rec s w q)) = stack s0) ->
  stack (fst (calc_body rec sy pp s0 v p)) = stack s0.
Proof.
  intro Hrec. unfold calc_body.
  destruct (nth_error (vars sy) v) as [x|]; [|reflexivity].
  destruct (check_consistency x p); [|reflexivity].
  destruct (get_array pp x s0 v p).
  { destruct (existsb _ _); reflexivity. }
  destruct (existsb _ _); [reflexivity|].
  destruct (Nat.leb _ _); [reflexivity|].
  destruct (formula_at x p) as [[e|]|]; [| |reflexivity].
  - pose proof (eval_pres sy pp rec (fun s => stack s = stack s0) Hrec e (v_ent x) p s0 eq_refl) as H.
    destruct (eval rec sy pp (v_ent x) s0 p e) as [s1 r]. cbn [fst] in *.
    destruct r; cbn [fst]; [now rewrite stack_put_in_cache|exact H].
  - cbn [fst]. now rewrite stack_put_in_cache.
Qed.

Theorem calc_stack : forall fuel sy pp s v p, stack (fst (calc fuel sy pp s v p)) = stack s.
Proof.
  induction fuel as [|f IH]; intros sy pp s v p; cbn [calc]; [reflexivity|].
  pose proof (calc_body_stack (calc f sy pp) sy pp (push (v, p) s) v p) as H.
  destruct (calc_body (calc f sy pp) sy pp (push (v, p) s) v p) as [s1 r]. cbn [fst] in *.
  rewrite stack_purge. unfold pop; cbn [stack]. rewrite H; [reflexivity|].
  intros s' w q Hs. now rewrite IH.
Qed.

Theorem step_stack : forall fuel sy pp s r, stack (fst (step fuel sy pp s r)) = stack s.
Proof.
  intros fuel sy pp s r. destruct r as [v p|v p|v p|v p a|v p|v p|k on]; cbn [step].
  - pose proof (calc_stack fuel sy pp s v p) as H. now destruct (calc fuel sy pp s v p).
  - destruct (nth_error (vars sy) v) as [x|]; [|reflexivity].
    pose proof (calc_add_pres (calc fuel sy pp) (fun s' => stack s' = stack s)
                  (fun s' w q Hs => eq_trans (calc_stack fuel sy pp s' w q) Hs) v x p s eq_refl) as H.
    now destruct (calc_add (calc fuel sy pp) s v x p).
  - destruct (nth_error (vars sy) v) as [x|]; [|reflexivity].
    pose proof (calc_divide_pres (calc fuel sy pp) (fun s' => stack s' = stack s)
                  (fun s' w q Hs => eq_trans (calc_stack fuel sy pp s' w q) Hs) v x p s eq_refl) as H.
    now destruct (calc_divide (calc fuel sy pp) s v x p).
  - unfold set_input. destruct (nth_error (vars sy) v) as [x|]; [|reflexivity].
    repeat (match goal with |- context [if ?b then _ else _] => destruct b end; try reflexivity).
  - destruct (nth_error (vars sy) v); [|reflexivity]. destruct p; reflexivity.
  - destruct (nth_error (vars sy) v); reflexivity.
  - reflexivity.
Qed.

Theorem run_stack : forall rs fuel sy pp s, stack (fst (run fuel sy pp s rs)) = stack s.
Proof.
  induction rs as [|r rs IH]; intros fuel sy pp s; cbn [run]; [reflexivity|].
  pose proof (step_stack fuel sy pp s r) as H1.
  destruct (step fuel sy pp s r) as [s1 a]. cbn [fst] in H1.
  pose proof (IH fuel (sys_after sy r) pp s1) as H2.
  destruct (run fuel (sys_after sy r) pp s1 rs) as [s2 l]. cbn [fst] in *. congruence.
Qed.

(** every intermediate state of a run of top-level requests has the stack of the start *)
Fixpoint states (fuel : nat) (sy : sys) (pp : popu) (s : st) (rs : list request) : list st :=
  match rs with
  | [] => []
  | r :: rest => let s1 := fst (step fuel sy pp s r) in s1 :: states fuel (sys_after sy r) pp s1 rest
  end.

Theorem states_stack : forall rs fuel sy pp s s', In s' (states fuel sy pp s rs) -> stack s' = stack s.
Proof.
  induction rs as [|r rs IH]; intros fuel sy pp s s' Hin; cbn [states] in Hin; [destruct Hin|].
  destruct Hin as [<-|Hin]; [apply step_stack|].
  rewrite (IH _ _ _ _ _ Hin). apply step_stack.
Qed.

(** * The meaning does not read the store flags *)

Lemma den_same : forall fuel sy1 sy2 pp inp, same_but_nostore sy1 sy2 ->
  forall v p, snd (den fuel sy1 pp inp tt v p) = snd (den fuel sy2 pp inp tt v p).
Proof.
  induction fuel as [|f IH]; intros sy1 sy2 pp inp Hs v p; cbn [den]; [reflexivity|].
  pose proof (same_nth sy1 sy2 v Hs) as Hn.
  destruct (nth_error (vars sy1) v) as [x|]; destruct (nth_error (vars sy2) v) as [y|];
    cbn [option_map] in Hn; try discriminate; [|reflexivity].
  assert (He : var_erase x = var_erase y) by congruence.
  rewrite (check_consistency_erase x y p He).
  destruct (check_consistency y p); [|reflexivity].
  destruct (erase_fields x y He) as (Hent & _ & _ & _ & _ & _ & Hneu). rewrite Hneu.
  rewrite (default_array_erase pp x y He).
  destruct (v_neutral y); [reflexivity|].
  rewrite (norm_erase x y p He).
  destruct (lookup _ inp); [reflexivity|].
  rewrite (formula_at_erase x y p He).
  destruct (formula_at y p) as [[e|]|]; [| reflexivity | reflexivity].
  rewrite !let_pair_snd. rewrite Hent.
  assert (Hr : forall (s1 s2 : unit) w q, True ->
            True /\ snd (den f sy1 pp inp s1 w q) = snd (den f sy2 pp inp s2 w q)).
  { intros [] [] w q _. split; [exact I|now apply IH]. }
  rewrite (proj2 (eval_rel sy1 sy2 pp (den f sy1 pp inp) (den f sy2 pp inp) (fun _ _ => True) Hs Hr
                    e (v_ent y) p tt tt I)).
  destruct (snd (eval (den f sy2 pp inp) sy2 pp (v_ent y) tt p e)) as [arr|]; cbn [rmap]; [|reflexivity].
  now rewrite (cast_erase x y arr He).
Qed.

Lemma sem_same sy1 sy2 pp inp v p : same_but_nostore sy1 sy2 -> sem sy1 pp inp v p = sem sy2 pp inp v p.
Proof.
  intro Hs. unfold sem, sem_rec. rewrite (same_length sy1 sy2 Hs). now apply den_same.
Qed.

Lemma sem_answer_same sy1 sy2 pp inp r : same_but_nostore sy1 sy2 ->
  sem_answer sy1 pp inp r = sem_answer sy2 pp inp r.
Proof.
  intro Hs.
  assert (Hr : forall (s1 s2 : unit) w q, True ->
            True /\ snd (sem_rec sy1 pp inp s1 w q) = snd (sem_rec sy2 pp inp s2 w q)).
  { intros [] [] w q _. split; [exact I|]. unfold sem_rec. rewrite (same_length sy1 sy2 Hs). now apply den_same. }
  destruct r as [v p|v p|v p|v p a|v p|v p|k on]; cbn [sem_answer]; try reflexivity.
  - now rewrite (sem_same sy1 sy2 pp inp v p Hs).
  - pose proof (same_nth sy1 sy2 v Hs) as Hn.
    destruct (nth_error (vars sy1) v) as [x|]; destruct (nth_error (vars sy2) v) as [y|];
      cbn [option_map] in Hn; try discriminate; [|reflexivity].
    assert (He : var_erase x = var_erase y) by congruence.
    destruct (erase_fields x y He) as (_ & _ & Hu & _).
    now rewrite (proj2 (calc_add_rel (sem_rec sy1 pp inp) (sem_rec sy2 pp inp) (fun _ _ => True) Hr
                         v x y p tt tt Hu I)).
  - pose proof (same_nth sy1 sy2 v Hs) as Hn.
    destruct (nth_error (vars sy1) v) as [x|]; destruct (nth_error (vars sy2) v) as [y|];
      cbn [option_map] in Hn; try discriminate; [|reflexivity].
    assert (He : var_erase x = var_erase y) by congruence.
    destruct (erase_fields x y He) as (_ & _ & Hu & _).
    now rewrite (proj2 (calc_divide_rel (sem_rec sy1 pp inp) (sem_rec sy2 pp inp) (fun _ _ => True) Hr
                         v x y p tt tt Hu I)).
Qed.

(** being ranked does not depend on the flags either *)
Lemma var_ok_erase nv n x y : var_erase x = var_erase y -> var_ok nv n x = var_ok nv n y.
Proof. intro H. apply erase_fields in H as (_ & _ & Hu & _ & Hf & _). unfold var_ok. now rewrite Hu, Hf. Qed.

Lemma ranked_from_erase nv : forall l1 l2 n, map var_erase l1 = map var_erase l2 ->
  ranked_from nv n l1 = ranked_from nv n l2.
Proof.
  induction l1 as [|x r IH]; intros [|y r'] n H; try discriminate; [reflexivity|].
  cbn [map] in H.
  assert (Hx : var_erase x = var_erase y) by (exact (f_equal (hd (var_erase x)) H)).
  assert (Hr : map var_erase r = map var_erase r') by (exact (f_equal (@tl var) H)).
  cbn [ranked_from]. now rewrite (var_ok_erase nv n x y Hx), (IH r' (S n) Hr).
Qed.

Lemma ranked_same sy1 sy2 : same_but_nostore sy1 sy2 -> ranked sy1 = ranked sy2.
Proof.
  intro Hs. unfold ranked. rewrite (same_length sy1 sy2 Hs).
  apply ranked_from_erase. unfold same_but_nostore, sys_erase in Hs. now inversion Hs.
Qed.

(** Storage settings never change the answers: two simulations over rule systems that
    differ only in which variables skip the store, started between two requests from the
    same inputs, give the same answers to any sequence of calculation requests. *)
Theorem config_invariance_run : forall sy1 sy2 pp inp, same_but_nostore sy1 sy2 ->
  ranked sy1 = true -> 1 <= max_loops sy1 ->
  forall rs s1 s2, forallb is_calc_request rs = true -> Top sy1 pp inp s1 -> Top sy2 pp inp s2 ->
  snd (run (enough_fuel sy1) sy1 pp s1 rs) = snd (run (enough_fuel sy2) sy2 pp s2 rs).
Proof.
  intros sy1 sy2 pp inp Hs Hr1 Hl1 rs s1 s2 Hrs HT1 HT2.
  assert (Hr2 : ranked sy2 = true) by now rewrite <- (ranked_same sy1 sy2 Hs).
  assert (Hl2 : 1 <= max_loops sy2) by now rewrite <- (same_max_loops sy1 sy2 Hs).
  rewrite (proj1 (run_refines_meaning sy1 pp inp Hr1 Hl1 rs s1 Hrs HT1)).
  rewrite (proj1 (run_refines_meaning sy2 pp inp Hr2 Hl2 rs s2 Hrs HT2)).
  apply map_ext. intro r. now apply sem_answer_same.
Qed.

(** [with_nostore] (what the correspondence check runs for a configuration) only changes the flags *)
Lemma vars_with_nostore_erase : forall l fl, map var_erase (vars_with_nostore fl l) = map var_erase l.
Proof. induction l as [|x r IH]; intros fl; cbn; [reflexivity|]. now rewrite IH. Qed.

Lemma with_nostore_same fl sy : same_but_nostore (with_nostore fl sy) sy.
Proof. unfold same_but_nostore, sys_erase, with_nostore; cbn. now rewrite vars_with_nostore_erase. Qed.
