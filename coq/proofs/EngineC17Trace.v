(** C17, part 2: the traced engine.  Switching the full tracer on changes neither the
    machine state nor any answer (every rule system, every state); every node the tracer
    records for a calculation carries the value that calculation returned and has for
    children exactly the calculations its formula evaluation asked for, in order, with
    the values they returned; after every top-level request the cursor is back to None. *)
From Coq Require Import ZArith List Bool Arith Lia.
From Verif Require Import Base Cal Tables Period Np Group Param Engine EngineProofs EngineTrace EngineC17Proofs.
Import ListNotations.
Open Scope nat_scope.

(** * Simulation._calculate with an extra component: the machine part is Engine.calc_body *)

Section BodyErase.
  Context {T : Type}.
  Variable sy : sys.
  Variable pp : popu.
  Variable recg : st * T -> nat -> period -> (st * T) * res val.
  Variable rec : st -> nat -> period -> st * res val.
  Hypothesis Hrec : forall a w q,
    fst (fst (recg a w q)) = fst (rec (fst a) w q) /\ snd (recg a w q) = snd (rec (fst a) w q).

  Let R (a : st * T) (b : st) : Prop := fst a = b.

  Lemma R_recg : forall a b w q, R a b ->
    R (fst (recg a w q)) (fst (rec b w q)) /\ snd (recg a w q) = snd (rec b w q).
  Proof. intros a b w q <-. apply Hrec. Qed.

  Lemma calc_body_g_erase : forall s0 v p,
    fst (fst (calc_body_g recg sy pp s0 v p)) = fst (calc_body rec sy pp (fst s0) v p)
    /\ snd (calc_body_g recg sy pp s0 v p) = snd (calc_body rec sy pp (fst s0) v p).
  Proof.
    intros s0 v p. unfold calc_body_g, calc_body.
    destruct (nth_error (vars sy) v) as [x|]; [|auto].
    destruct (check_consistency x p); [|auto].
    destruct (get_array pp x (fst s0) v p).
    { destruct (existsb _ _); auto. }
    destruct (existsb _ _); [auto|].
    destruct (Nat.leb _ _); [auto|].
    destruct (formula_at x p) as [[e|]|]; [| auto | auto].
    destruct (eval_rel sy sy pp recg rec R (same_refl sy) R_recg e (v_ent x) p s0 (fst s0) eq_refl) as [H1 H2].
    unfold R in H1.
    destruct (eval recg sy pp (v_ent x) s0 p e) as [s1 r]; destruct (eval rec sy pp (v_ent x) (fst s0) p e) as [s1' r'].
    cbn [fst snd] in *. subst r' s1'. destruct r; cbn [fst snd lift]; auto.
  Qed.

  Lemma calc_add_g_erase : forall s0 v x p,
    fst (fst (calc_add recg s0 v x p)) = fst (calc_add rec (fst s0) v x p)
    /\ snd (calc_add recg s0 v x p) = snd (calc_add rec (fst s0) v x p).
  Proof. intros. exact (calc_add_rel recg rec R R_recg v x x p s0 (fst s0) eq_refl eq_refl). Qed.

  Lemma calc_divide_g_erase : forall s0 v x p,
    fst (fst (calc_divide recg s0 v x p)) = fst (calc_divide rec (fst s0) v x p)
    /\ snd (calc_divide recg s0 v x p) = snd (calc_divide rec (fst s0) v x p).
  Proof. intros. exact (calc_divide_rel recg rec R R_recg v x x p s0 (fst s0) eq_refl eq_refl). Qed.
End BodyErase.

(** * Two extra components in related states *)

Section BodyRel.
  Context {T1 T2 : Type}.
  Variable sy : sys.
  Variable pp : popu.
  Variable rec1 : st * T1 -> nat -> period -> (st * T1) * res val.
  Variable rec2 : st * T2 -> nat -> period -> (st * T2) * res val.
  Variable Q : T1 -> T2 -> Prop.

  Definition RQ (a : st * T1) (b : st * T2) : Prop := fst a = fst b /\ Q (snd a) (snd b).

  Hypothesis Hrec : forall a b w q, RQ a b ->
    RQ (fst (rec1 a w q)) (fst (rec2 b w q)) /\ snd (rec1 a w q) = snd (rec2 b w q).

  Lemma RQ_lift f a b : RQ a b -> RQ (lift f a) (lift f b).
  Proof. intros [H1 H2]. split; cbn [lift fst snd]; [now rewrite H1|exact H2]. Qed.

  Lemma calc_body_g_rel : forall a b v p, RQ a b ->
    RQ (fst (calc_body_g rec1 sy pp a v p)) (fst (calc_body_g rec2 sy pp b v p))
    /\ snd (calc_body_g rec1 sy pp a v p) = snd (calc_body_g rec2 sy pp b v p).
  Proof.
    intros a b v p Hab. pose proof Hab as [Hst _]. unfold calc_body_g. rewrite <- Hst.
    destruct (nth_error (vars sy) v) as [x|]; [|auto].
    destruct (check_consistency x p); [|auto].
    destruct (get_array pp x (fst a) v p).
    { destruct (existsb _ _); cbn [fst snd]; split; auto. now apply RQ_lift. }
    destruct (existsb _ _); [auto|].
    destruct (Nat.leb _ _).
    { cbn [fst snd]; split; auto. now apply RQ_lift. }
    destruct (formula_at x p) as [[e|]|]; [| | auto].
    - destruct (eval_rel sy sy pp rec1 rec2 RQ (same_refl sy) Hrec e (v_ent x) p a b Hab) as [H1 H2].
      destruct (eval rec1 sy pp (v_ent x) a p e) as [s1 r]; destruct (eval rec2 sy pp (v_ent x) b p e) as [s2 r'].
      cbn [fst snd] in *. subst r'. destruct r; cbn [fst snd]; split; auto. now apply RQ_lift.
    - cbn [fst snd]; split; auto. now apply RQ_lift.
  Qed.
End BodyRel.

(** * Nodes that faithfully record a calculation *)

(** [faithful sy pp n]: the node is the record of some calculation [calc f sy pp s v p] of the
    machine (some fuel, some state): its key is (v, p), its value is what that calculation
    returned (None when it failed), its children summarise, in order, exactly the
    calculations that Simulation._calculate asked for ([reads]) -- and are themselves faithful. *)
Inductive faithful (sy : sys) (pp : popu) : tnode -> Prop :=
  | faithful_intro : forall f s v p kids,
      map summary kids = reads f sy pp s v p ->
      Forall (faithful sy pp) kids ->
      faithful sy pp (TNode (v, p) (res_opt (snd (calc f sy pp s v p))) kids).

Lemma add_node_open n t k a kids r :
  add_node n {| trees := t; opened := mk_frame k a kids :: r |}
  = {| trees := t; opened := mk_frame k a (kids ++ [n]) :: r |}.
Proof. reflexivity. Qed.

Lemma tracer_eta tr : {| trees := trees tr; opened := opened tr |} = tr.
Proof. now destruct tr. Qed.

Lemma logged_erase {S} (rec : S -> nat -> period -> S * res val) a w q :
  fst (fst (logged rec a w q)) = fst (rec (fst a) w q) /\ snd (logged rec a w q) = snd (rec (fst a) w q).
Proof. unfold logged. destruct (rec (fst a) w q); auto. Qed.

(** The traced calculation: machine state and result of the plain one, and exactly one node
    added at the cursor, which records this calculation faithfully. *)
Theorem calc_t_spec : forall fuel sy pp s tr v p,
  exists kids,
    calc_t fuel sy pp (s, tr) v p
    = ((fst (calc fuel sy pp s v p),
        add_node (TNode (v, p) (res_opt (snd (calc fuel sy pp s v p))) kids) tr),
       snd (calc fuel sy pp s v p))
    /\ map summary kids = reads fuel sy pp s v p
    /\ Forall (faithful sy pp) kids.
Proof.
  induction fuel as [|f IH]; intros sy pp s tr v p.
  { exists []. cbn [calc_t calc reads fst snd res_opt map]. auto. }
  cbn [calc_t calc reads fst snd].
  set (s0 := push (v, p) s).
  (* the open frame of this calculation with the children attached so far, against the log *)
  pose (Q := fun (t : tracer) (log : list read) =>
               exists kids, t = {| trees := trees tr; opened := mk_frame (v, p) None kids :: opened tr |}
                            /\ map summary kids = log /\ Forall (faithful sy pp) kids).
  assert (Hrec : forall a b w q, RQ Q a b ->
            RQ Q (fst (calc_t f sy pp a w q)) (fst (logged (calc f sy pp) b w q))
            /\ snd (calc_t f sy pp a w q) = snd (logged (calc f sy pp) b w q)).
  { intros [sa ta] [sb lb] w q [Hst (kids & Ht & Hm & Hf)]. cbn [fst snd] in *. subst sb ta.
    destruct (IH sy pp sa {| trees := trees tr; opened := mk_frame (v, p) None kids :: opened tr |} w q)
      as (kids' & Hc & Hm' & Hf').
    rewrite Hc. unfold logged. cbn [fst snd].
    destruct (calc f sy pp sa w q) as [s1 r] eqn:Ec. cbn [fst snd].
    split; [|reflexivity]. split; [reflexivity|]. cbn [snd].
    exists (kids ++ [TNode (w, q) (res_opt r) kids']). rewrite add_node_open. split; [reflexivity|].
    split.
    - rewrite map_app, Hm. reflexivity.
    - apply Forall_app. split; [exact Hf|]. constructor; [|constructor].
      replace r with (snd (calc f sy pp sa w q)) by now rewrite Ec.
      now constructor. }
  assert (H0 : RQ Q (s0, enter (v, p) tr) (s0, [])).
  { split; [reflexivity|]. exists []. cbn. auto. }
  destruct (calc_body_g_rel sy pp (calc_t f sy pp) (logged (calc f sy pp)) Q Hrec _ _ v p H0)
    as [[Hst (kids & Ht & Hm & Hf)] Hres].
  destruct (calc_body_g_erase sy pp (logged (calc f sy pp)) (calc f sy pp)
              (logged_erase (calc f sy pp)) (s0, []) v p) as [E1 E2].
  cbn [fst] in E1, E2.
  exists kids.
  destruct (calc_body_g (calc_t f sy pp) sy pp (s0, enter (v, p) tr) v p) as [[s1 t1] r].
  destruct (calc_body_g (logged (calc f sy pp)) sy pp (s0, []) v p) as [[s2 l2] r2].
  fold s0. destruct (calc_body (calc f sy pp) sy pp s0 v p) as [s3 r3].
  cbn [fst snd] in *. subst r2 s2 r3 s3 t1.
  split; [|split; [exact Hm|exact Hf]].
  f_equal. f_equal.
  destruct r as [a|e]; cbn [res_opt]; unfold exit_, set_value; cbn [opened trees f_key f_value f_children close_frame];
    now rewrite tracer_eta.
Qed.

(** * Switching the tracer on changes nothing else *)

Lemma calc_t_erase fuel sy pp a w q :
  fst (fst (calc_t fuel sy pp a w q)) = fst (calc fuel sy pp (fst a) w q)
  /\ snd (calc_t fuel sy pp a w q) = snd (calc fuel sy pp (fst a) w q).
Proof.
  destruct a as [s tr]. destruct (calc_t_spec fuel sy pp s tr w q) as (kids & -> & _). auto.
Qed.

Theorem step_t_erase : forall fuel sy pp s tr r,
  fst (fst (step_t fuel sy pp (s, tr) r)) = fst (step fuel sy pp s r)
  /\ snd (step_t fuel sy pp (s, tr) r) = snd (step fuel sy pp s r).
Proof.
  intros fuel sy pp s tr r. destruct r as [v p|v p|v p|v p a|v p|v p|k on]; cbn [step_t].
  - cbn [step]. destruct (calc_t_erase fuel sy pp (s, tr) v p) as [H1 H2]. cbn [fst] in *.
    destruct (calc_t fuel sy pp (s, tr) v p) as [s1 a]; destruct (calc fuel sy pp s v p) as [s1' a'].
    cbn [fst snd] in *. now subst.
  - cbn [step]. destruct (nth_error (vars sy) v) as [x|]; [|auto].
    destruct (calc_add_g_erase (calc_t fuel sy pp) (calc fuel sy pp) (calc_t_erase fuel sy pp) (s, tr) v x p)
      as [H1 H2]. cbn [fst] in *.
    destruct (calc_add (calc_t fuel sy pp) (s, tr) v x p) as [s1 a];
      destruct (calc_add (calc fuel sy pp) s v x p) as [s1' a']. cbn [fst snd] in *. now subst.
  - cbn [step]. destruct (nth_error (vars sy) v) as [x|]; [|auto].
    destruct (calc_divide_g_erase (calc_t fuel sy pp) (calc fuel sy pp) (calc_t_erase fuel sy pp) (s, tr) v x p)
      as [H1 H2]. cbn [fst] in *.
    destruct (calc_divide (calc_t fuel sy pp) (s, tr) v x p) as [s1 a];
      destruct (calc_divide (calc fuel sy pp) s v x p) as [s1' a']. cbn [fst snd] in *. now subst.
  - cbn [fst]. destruct (step fuel sy pp s (RSetInput v p a)); auto.
  - cbn [fst]. destruct (step fuel sy pp s (RDelete v p)); auto.
  - cbn [fst]. destruct (step fuel sy pp s (RGet v p)); auto.
  - cbn [fst]. destruct (step fuel sy pp s (RSwitch k on)); auto.
Qed.

Theorem run_t_erase : forall rs fuel sy pp s tr,
  fst (fst (run_t fuel sy pp (s, tr) rs)) = fst (run fuel sy pp s rs)
  /\ snd (run_t fuel sy pp (s, tr) rs) = snd (run fuel sy pp s rs).
Proof.
  induction rs as [|r rs IH]; intros fuel sy pp s tr; cbn [run_t run]; [auto|].
  destruct (step_t_erase fuel sy pp s tr r) as [H1 H2].
  destruct (step_t fuel sy pp (s, tr) r) as [[s1 tr1] a]; destruct (step fuel sy pp s r) as [s1' a'].
  cbn [fst snd] in *. subst s1' a'.
  destruct (IH fuel (sys_after sy r) pp s1 tr1) as [H3 H4].
  destruct (run_t fuel (sys_after sy r) pp (s1, tr1) rs) as [[s2 tr2] l];
    destruct (run fuel (sys_after sy r) pp s1 rs) as [s2' l']. cbn [fst snd] in *. now subst.
Qed.

(** * What a top-level request adds to the trace *)

(** From a closed tracer (no current node), a top-level request leaves the tracer closed and
    appends trees that are faithful records of calculations. *)
Definition extends (sy : sys) (pp : popu) (tr tr' : tracer) : Prop :=
  exists nodes, tr' = {| trees := trees tr ++ nodes; opened := [] |} /\ Forall (faithful sy pp) nodes.

Lemma extends_calc_t fuel sy pp tr : forall a w q,
  extends sy pp tr (snd a) -> extends sy pp tr (snd (fst (calc_t fuel sy pp a w q))).
Proof.
  intros [s t] w q (nodes & Ht & Hf). cbn [snd] in *. subst t.
  destruct (calc_t_spec fuel sy pp s {| trees := trees tr ++ nodes; opened := [] |} w q) as (kids & -> & Hm & Hk).
  cbn [fst snd]. unfold add_node; cbn [opened trees].
  exists (nodes ++ [TNode (w, q) (res_opt (snd (calc fuel sy pp s w q))) kids]).
  split; [now rewrite app_assoc|].
  apply Forall_app. split; [exact Hf|]. constructor; [|constructor]. now constructor.
Qed.

Theorem step_t_extends : forall fuel sy pp s tr r, opened tr = [] ->
  extends sy pp tr (snd (fst (step_t fuel sy pp (s, tr) r))).
Proof.
  intros fuel sy pp s tr r Ho.
  assert (H0 : extends sy pp tr (snd (s, tr))).
  { exists []. cbn [snd]. rewrite app_nil_r. split; [|constructor]. destruct tr; cbn in *; now subst. }
  destruct r as [v p|v p|v p|v p a|v p|v p|k on]; cbn [step_t].
  - pose proof (extends_calc_t fuel sy pp tr (s, tr) v p H0) as H.
    now destruct (calc_t fuel sy pp (s, tr) v p).
  - destruct (nth_error (vars sy) v) as [x|]; [|exact H0].
    pose proof (calc_add_pres (calc_t fuel sy pp) (fun a => extends sy pp tr (snd a))
                  (extends_calc_t fuel sy pp tr) v x p (s, tr) H0) as H.
    now destruct (calc_add (calc_t fuel sy pp) (s, tr) v x p).
  - destruct (nth_error (vars sy) v) as [x|]; [|exact H0].
    pose proof (calc_divide_pres (calc_t fuel sy pp) (fun a => extends sy pp tr (snd a))
                  (extends_calc_t fuel sy pp tr) v x p (s, tr) H0) as H.
    now destruct (calc_divide (calc_t fuel sy pp) (s, tr) v x p).
  - cbn [fst]. destruct (step fuel sy pp s (RSetInput v p a)); exact H0.
  - cbn [fst]. destruct (step fuel sy pp s (RDelete v p)); exact H0.
  - cbn [fst]. destruct (step fuel sy pp s (RGet v p)); exact H0.
  - cbn [fst]. destruct (step fuel sy pp s (RSwitch k on)); exact H0.
Qed.

Corollary step_t_closed : forall fuel sy pp s tr r, opened tr = [] ->
  opened (snd (fst (step_t fuel sy pp (s, tr) r))) = [].
Proof.
  intros fuel sy pp s tr r Ho. destruct (step_t_extends fuel sy pp s tr r Ho) as (nodes & -> & _). reflexivity.
Qed.

(** a calculation request proper: one new tree, for the requested key, with the answer *)
Theorem calc_request_tree : forall fuel sy pp s tr v p, opened tr = [] ->
  exists kids,
    snd (fst (step_t fuel sy pp (s, tr) (RCalc v p)))
    = {| trees := trees tr ++ [TNode (v, p) (res_opt (snd (calc fuel sy pp s v p))) kids]; opened := [] |}
    /\ map summary kids = reads fuel sy pp s v p
    /\ Forall (faithful sy pp) kids.
Proof.
  intros fuel sy pp s tr v p Ho. cbn [step_t].
  destruct (calc_t_spec fuel sy pp s tr v p) as (kids & -> & Hm & Hk). exists kids. cbn [fst snd].
  unfold add_node. rewrite Ho. auto.
Qed.

(** * The flat trace *)

Definition flat_lookup (k : key) (l : list flat_entry) : option (list key * option val) :=
  option_map (fun e => (snd (fst e), snd e)) (find (fun e => key_eqb k (fst (fst e))) l).

Lemma has_key_find k l : has_key k l = match find (fun e => key_eqb k (fst (fst e))) l with Some _ => true | None => false end.
Proof. unfold has_key. induction l as [|e l IH]; cbn; [reflexivity|]. destruct (key_eqb k (fst (fst e))); auto. Qed.

Lemma find_app_l {A} (f : A -> bool) l1 l2 :
  find f (l1 ++ l2) = match find f l1 with Some x => Some x | None => find f l2 end.
Proof. induction l1 as [|x l1 IH]; cbn; [reflexivity|]. destruct (f x); auto. Qed.

Lemma flat_lookup_app k acc e :
  flat_lookup k (acc ++ [e])
  = match flat_lookup k acc with
    | Some x => Some x
    | None => if key_eqb k (fst (fst e)) then Some (snd (fst e), snd e) else None
    end.
Proof.
  unfold flat_lookup. rewrite find_app_l.
  match goal with |- context [find ?f acc] => destruct (find f acc) end; cbn [option_map find]; [reflexivity|].
  destruct (key_eqb k (fst (fst e))); reflexivity.
Qed.

(** The entry of a key is made from the first node with that key in browsing order: its
    children's keys and its value. *)
Theorem flat_trace_first : forall ts k,
  flat_lookup k (flat_trace ts)
  = option_map (fun n => (map n_key (n_children n), n_value n))
               (find (fun n => key_eqb k (n_key n)) (browse ts)).
Proof.
  intros ts k. unfold flat_trace.
  assert (G : forall l acc,
    flat_lookup k (fold_left (fun acc n => if has_key (n_key n) acc then acc
                                           else acc ++ [(n_key n, map n_key (n_children n), n_value n)]) l acc)
    = match flat_lookup k acc with
      | Some e => Some e
      | None => option_map (fun n => (map n_key (n_children n), n_value n))
                           (find (fun n => key_eqb k (n_key n)) l)
      end).
  { induction l as [|n l IH]; intros acc; cbn [fold_left find].
    - destruct (flat_lookup k acc); reflexivity.
    - rewrite IH. clear IH.
      destruct (has_key (n_key n) acc) eqn:Eh.
      + destruct (flat_lookup k acc) eqn:El; [reflexivity|].
        destruct (key_eqb k (n_key n)) eqn:Ek; [|reflexivity].
        apply key_eqb_iff in Ek. subst k. exfalso.
        rewrite has_key_find in Eh. unfold flat_lookup in El.
        match type of Eh with (match ?t with _ => _ end) = _ => destruct t end;
          cbn [option_map] in El; [discriminate El|discriminate Eh].
      + rewrite flat_lookup_app. destruct (flat_lookup k acc); [reflexivity|].
        cbn [fst snd]. destruct (key_eqb k (n_key n)); reflexivity. }
  rewrite G. reflexivity.
Qed.
