(** The str -> index route of [EnumModel]: [argsort] sorts, and [searchsorted] on any
    sorting permutation finds the declaration index of a name. *)
From Coq Require Import String Ascii ZArith List Bool Lia Permutation Sorted Arith.
From Verif Require Import Base EnumModel EnumOrder.
Import ListNotations.

(** ** argsort: the insertion sort of (name, position) pairs *)

Definition ple (a b : string * nat) : Prop := String.ltb (fst b) (fst a) = false.

Lemma insert_perm x l : Permutation (insert x l) (x :: l).
Proof.
  induction l as [|y l IH]; cbn [insert]; [reflexivity|].
  destruct (String.ltb (fst y) (fst x)); [|reflexivity].
  rewrite IH. apply perm_swap.
Qed.

Lemma insert_sorted x l : StronglySorted ple l -> StronglySorted ple (insert x l).
Proof.
  induction 1 as [|y l Hs IH Hy]; cbn [insert].
  - constructor; constructor.
  - destruct (String.ltb (fst y) (fst x)) eqn:E.
    + constructor; [exact IH|].
      rewrite Forall_forall in *. intros z Hz.
      apply (Permutation_in _ (insert_perm x l)) in Hz. destruct Hz as [<-|Hz].
      * unfold ple. apply ltb_asym. exact E.
      * apply Hy. exact Hz.
    + constructor; [constructor; assumption|].
      constructor; [exact E|].
      rewrite Forall_forall in *. intros z Hz. unfold ple in *.
      eapply le_trans; [exact E|]. apply Hy. exact Hz.
Qed.

Lemma sort_pairs_perm l : Permutation (sort_pairs l) l.
Proof.
  induction l as [|x l IH]; cbn; [reflexivity|].
  unfold sort_pairs in IH. rewrite insert_perm. constructor. exact IH.
Qed.

Lemma sort_pairs_sorted l : StronglySorted ple (sort_pairs l).
Proof.
  induction l as [|x l IH]; cbn; [constructor|]. apply insert_sorted. exact IH.
Qed.

Lemma map_snd_combine {A B} (a : list A) : forall (b : list B),
  length a = length b -> map snd (combine a b) = b.
Proof.
  induction a as [|x a IH]; intros [|y b] H; cbn in *; try congruence.
  f_equal. apply IH. congruence.
Qed.

Lemma in_combine_seq {A} (l : list A) : forall k s i,
  In (s, i) (combine l (seq k (length l))) -> (k <= i)%nat /\ nth_error l (i - k) = Some s.
Proof.
  induction l as [|x l IH]; intros k s i H; cbn in H; [contradiction|].
  destruct H as [H|H].
  - inversion H; subst. split; [lia|]. rewrite Nat.sub_diag. reflexivity.
  - apply IH in H. destruct H as [H1 H2]. split; [lia|].
    replace (i - k)%nat with (S (i - S k)) by lia. exact H2.
Qed.

Lemma StronglySorted_nth {A} (R : A -> A -> Prop) l :
  StronglySorted R l -> forall p q a b, (p < q)%nat ->
  nth_error l p = Some a -> nth_error l q = Some b -> R a b.
Proof.
  induction 1 as [|x l Hs IH Hx]; intros p q a b Hpq Hp Hq.
  - destruct p; discriminate.
  - destruct q as [|q]; [lia|]. cbn in Hq. destruct p as [|p].
    + cbn in Hp. inversion Hp; subst. rewrite Forall_forall in Hx. apply Hx.
      eapply nth_error_In; eauto.
    + cbn in Hp. apply (IH p q a b); [lia|exact Hp|exact Hq].
Qed.

Theorem argsort_perm nm : Permutation (argsort nm) (seq 0 (length nm)).
Proof.
  unfold argsort. rewrite sort_pairs_perm. rewrite map_snd_combine; [reflexivity|].
  rewrite seq_length. reflexivity.
Qed.

Theorem argsort_sorts nm : sorts nm (argsort nm).
Proof.
  unfold sorts, argsort. intros p q i j Hpq Hp Hq.
  set (sp := sort_pairs (combine nm (seq 0 (length nm)))) in *.
  rewrite nth_error_map in Hp, Hq.
  destruct (nth_error sp p) as [a|] eqn:Ea; [|discriminate].
  destruct (nth_error sp q) as [b|] eqn:Eb; [|discriminate].
  cbn in Hp, Hq. inversion Hp; inversion Hq; subst.
  assert (Hin : forall c, In c sp -> nth_error nm (snd c) = Some (fst c)).
  { intros [s k] Hc. apply (Permutation_in _ (sort_pairs_perm _)) in Hc.
    apply in_combine_seq in Hc. destruct Hc as [_ Hc]. rewrite Nat.sub_0_r in Hc. exact Hc. }
  exists (fst a), (fst b). repeat split.
  - apply Hin. eapply nth_error_In; eauto.
  - apply Hin. eapply nth_error_In; eauto.
  - exact (StronglySorted_nth ple sp (sort_pairs_sorted _) p q a b Hpq Ea Eb).
Qed.

(** ** searchsorted on a sorting permutation *)

Section Search.
  Variable nm : list string.
  Variable sorter : list nat.
  Hypothesis Hperm : Permutation sorter (seq 0 (length nm)).
  Hypothesis Hsorts : sorts nm sorter.

  (** the name at position [p] of the sorted view: names[sorter[p]] *)
  Definition K (p : nat) (s : string) : Prop :=
    exists i, nth_error sorter p = Some i /\ nth_error nm i = Some s.

  Lemma sorter_range i : In i sorter <-> (i < length nm)%nat.
  Proof.
    split; intro H.
    - apply (Permutation_in _ Hperm) in H. apply in_seq in H. lia.
    - apply (Permutation_in _ (Permutation_sym Hperm)). apply in_seq. lia.
  Qed.

  Lemma sorter_length : length sorter = length nm.
  Proof. rewrite (Permutation_length Hperm). apply seq_length. Qed.

  Lemma K_total p : (p < length sorter)%nat -> exists s, K p s.
  Proof.
    intro H. destruct (nth_error sorter p) as [i|] eqn:E.
    - assert (Hi : (i < length nm)%nat) by (apply sorter_range; eapply nth_error_In; eauto).
      destruct (nth_error nm i) as [s|] eqn:E'.
      + exists s, i. auto.
      + apply nth_error_None in E'. lia.
    - apply nth_error_None in E. lia.
  Qed.

  Lemma K_fun p s t : K p s -> K p t -> s = t.
  Proof. intros [i [H1 H2]] [j [H3 H4]]. congruence. Qed.

  Lemma K_sorted p q s t : (p < q)%nat -> K p s -> K q t -> String.ltb t s = false.
  Proof.
    intros Hpq [i [H1 H2]] [j [H3 H4]].
    destruct (Hsorts p q i j Hpq H1 H3) as [s' [t' [A [B C]]]]. congruence.
  Qed.

  Lemma K_le p q s t : (p <= q)%nat -> K p s -> K q t -> String.ltb t s = false.
  Proof.
    intros Hpq Hs Ht. destruct (Nat.eq_dec p q) as [->|N].
    - rewrite (K_fun _ _ _ Hs Ht). apply ltb_irrefl.
    - apply (K_sorted p q s t); [lia|exact Hs|exact Ht].
  Qed.

  Lemma key_at_K p s : K p s -> key_at nm sorter p = Ok s.
  Proof. intros [i [H1 H2]]. unfold key_at. rewrite H1, H2. reflexivity. Qed.

  Lemma div2_lt n : (0 < n)%nat -> (Nat.div2 n < n)%nat.
  Proof. apply Nat.lt_div2. Qed.

  (** numpy's loop returns the insertion point: everything before it is < key,
      everything from it on is >= key. *)
  Lemma bsearch_spec key : forall fuel lo hi,
    (lo <= hi <= length sorter)%nat -> (hi - lo <= fuel)%nat ->
    (forall p s, (p < lo)%nat -> K p s -> String.ltb s key = true) ->
    (forall p s, (hi <= p)%nat -> K p s -> String.ltb s key = false) ->
    exists r, bsearch fuel nm sorter key lo hi = Ok r /\ (r <= length sorter)%nat /\
      (forall p s, (p < r)%nat -> K p s -> String.ltb s key = true) /\
      (forall p s, (r <= p)%nat -> K p s -> String.ltb s key = false).
  Proof.
    induction fuel as [|f IH]; intros lo hi Hb Hf Hlo Hhi.
    - assert (lo = hi) by lia. subst. cbn [bsearch]. rewrite Nat.leb_refl.
      exists hi. repeat split; auto; lia.
    - cbn [bsearch]. destruct (Nat.leb hi lo) eqn:E.
      + apply Nat.leb_le in E. assert (lo = hi) by lia. subst.
        exists hi. repeat split; auto; lia.
      + apply Nat.leb_gt in E.
        pose proof (div2_lt (hi - lo) ltac:(lia)) as Hd.
        set (mid := (lo + Nat.div2 (hi - lo))%nat) in *.
        assert (Hm : (lo <= mid < hi)%nat) by (unfold mid; lia).
        destruct (K_total mid ltac:(lia)) as [s Hs].
        rewrite (key_at_K _ _ Hs).
        destruct (String.ltb s key) eqn:Es.
        * apply IH; try lia; [|exact Hhi].
          intros p t Hp Ht. destruct (Nat.eq_dec p mid) as [->|N].
          -- rewrite (K_fun _ _ _ Ht Hs). exact Es.
          -- eapply le_lt_trans; [|exact Es]. eapply K_sorted; [|exact Ht|exact Hs]. lia.
        * apply IH; try lia; [exact Hlo|].
          intros p t Hp Ht. eapply le_trans; [exact Es|]. eapply K_le; [|exact Hs|exact Ht]. lia.
  Qed.

  Theorem searchsorted_spec key :
    exists r, searchsorted nm sorter key = Ok r /\ (r <= length sorter)%nat /\
      (forall p s, (p < r)%nat -> K p s -> String.ltb s key = true) /\
      (forall p s, (r <= p)%nat -> K p s -> String.ltb s key = false).
  Proof.
    unfold searchsorted. apply bsearch_spec; try lia.
    intros p s Hp [i [H _]]. assert (nth_error sorter p <> None) by congruence.
    apply nth_error_Some in H0. lia.
  Qed.

  (** a member is found at its declaration index *)
  Theorem lookup_member i s :
    NoDup nm -> nth_error nm i = Some s -> lookup nm sorter s = Ok (Z.of_nat i).
  Proof.
    intros Hnd Hi. unfold lookup.
    destruct (searchsorted_spec s) as [r [-> [Hr [Hbefore Hafter]]]]. cbn [bind].
    assert (Hil : (i < length nm)%nat) by (apply nth_error_Some; congruence).
    destruct (In_nth_error _ _ (proj2 (sorter_range i) Hil)) as [p0 Hp0].
    assert (K0 : K p0 s) by (exists i; auto).
    assert (Hp0l : (p0 < length sorter)%nat) by (apply nth_error_Some; congruence).
    assert (Hrp : (r <= p0)%nat).
    { destruct (le_lt_dec r p0); [assumption|].
      pose proof (Hbefore p0 s l K0) as H. rewrite ltb_irrefl in H. discriminate. }
    destruct (K_total r ltac:(lia)) as [t Kr]. pose proof Kr as [j [Hj1 Hj2]].
    rewrite Hj1. do 2 f_equal.
    assert (t = s).
    { apply le_antisym.
      - eapply K_le; [exact Hrp|exact Kr|exact K0].
      - apply (Hafter r t); [lia|exact Kr]. }
    subst t.
    apply (proj1 (NoDup_nth_error nm) Hnd); [|congruence].
    apply nth_error_Some. congruence.
  Qed.

  (** a non-member is never mistaken for a member: the position returned is past the
      end, or holds a strictly greater name *)
  Theorem lookup_non_member s :
    ~ In s nm ->
    exists r, searchsorted nm sorter s = Ok r /\
      (r = length sorter \/
       exists j t, nth_error sorter r = Some j /\ nth_error nm j = Some t /\ String.ltb s t = true).
  Proof.
    intros Hn. destruct (searchsorted_spec s) as [r [Hs [Hr [_ Hafter]]]].
    exists r. split; [exact Hs|].
    destruct (Nat.eq_dec r (length sorter)) as [->|N]; [left; reflexivity|right].
    destruct (K_total r ltac:(lia)) as [t Kr]. pose proof Kr as [j [Hj1 Hj2]].
    exists j, t. repeat split; auto.
    pose proof (Hafter r t (le_n _) Kr) as H.
    destruct (ltb_total s t) as [H'|[H'|H']]; [exact H'| |congruence].
    subst t. exfalso. apply Hn. eapply nth_error_In; eauto.
  Qed.

  (** [lookup] never runs out of fuel and never leaves the index range *)
  Lemma lookup_range s z : lookup nm sorter s = Ok z -> (0 <= z < Z.of_nat (length nm))%Z.
  Proof.
    unfold lookup. destruct (searchsorted_spec s) as [r [-> _]]. cbn [bind].
    destruct (nth_error sorter r) as [i|] eqn:E; [|discriminate].
    intro H. inversion H; subst.
    assert ((i < length nm)%nat) by (apply sorter_range; eapply nth_error_In; eauto). lia.
  Qed.

  Lemma lookup_err s k : lookup nm sorter s = Err k -> k = EIndex.
  Proof.
    unfold lookup. destruct (searchsorted_spec s) as [r [-> _]]. cbn [bind].
    destruct (nth_error sorter r); congruence.
  Qed.
End Search.
