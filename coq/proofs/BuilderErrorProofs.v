(** Proofs about the situation-builder model, continued: while an entity-shaped document is READ
    (persons, then the group kinds), the only refusal is the situation error - apart from the
    model's marker [EUnmodelled] for inputs outside the modelled language.  Hence a document
    with an ill-formed item that is detected while reading, at any place, gives the situation
    error (or the marker). *)
From Coq Require Import ZArith QArith List Bool String Lia Permutation.
From Verif Require Import Base Cal Tables Period Builder BuilderSpec BuilderProofs BuilderGroupProofs
  BuilderValueProofs BuilderRejectProofs BuilderOwnProofs.
Import ListNotations.
Open Scope Z_scope.
Open Scope res_scope.

Definition read_err (k : err) : Prop := k = ESituation \/ k = EUnmodelled.

Lemma cint32_err z k : cint32 z = Err k -> k = EUnmodelled.
Proof. unfold cint32. destruct (in_int32 z); [discriminate|]. intros H; inversion H; reflexivity. Qed.

Lemma cint16_err z k : cint16 z = Err k -> k = EUnmodelled.
Proof. unfold cint16. destruct (in_int16 z); [discriminate|]. intros H; inversion H; reflexivity. Qed.

Lemma check_set_value_err x v j k :
  check_set_value x v j = Err k -> k = EValue \/ k = EUnmodelled.
Proof.
  unfold check_set_value.
  destruct (v_type v), j; intros H;
    try discriminate;
    try (inversion H; subst; auto; fail);
    try (apply cint32_err in H; auto; fail);
    try (apply cint16_err in H; auto; fail).
  - destruct (evalx x s); [apply cint32_err in H; auto|inversion H; auto].
  - destruct (evalx x s); [discriminate|inversion H; auto].
  - destruct (index_of s (v_enum v)); [discriminate|inversion H; auto].
  - destruct (date_of_text x s); [discriminate|inversion H; auto].
Qed.

Lemma add_variable_value_err x st e v idx t value k p0 n :
  parse_key (tok x t) = Ok p0 ->
  (idx < n)%nat -> get_count st (e_plural e) = n -> len_is (b_buffer st) (v_name v) n ->
  add_variable_value x st e v idx t value = Err k -> read_err k.
Proof.
  intros Hp Hi Hc Hl H. destruct (json_eq_null value) as [->|Hn]; [cbn in H; discriminate|].
  assert (bind (canon_key (tok x t)) (fun p =>
            let b := buf_touch (b_buffer st) (v_name v) in
            let array := match buf_get b (v_name v) p with
                         | Some a => a
                         | None => default_array v (get_count st (e_plural e)) end in
            match check_set_value x v value with
            | Ok c => if Nat.ltb idx (List.length array)
                      then Ok (set_buffer st (buf_put b (v_name v) p (list_set idx c array)))
                      else Err EIndex
            | Err EValue => Err ESituation
            | Err k => Err k
            end) = Err k) as H'.
  { unfold add_variable_value in H. destruct value; try contradiction; exact H. }
  clear H. unfold canon_key in H'. rewrite Hp in H'. cbn [bind] in H'.
  destruct (canon p0) as [p|kc] eqn:C; cbn [bind] in H'.
  - cbv zeta in H'. rewrite buf_get_touch in H'.
    destruct (check_set_value x v value) as [c|kv] eqn:V.
    + assert (List.length (match buf_get (b_buffer st) (v_name v) p with
                           | Some a => a | None => default_array v (get_count st (e_plural e)) end) = n) as Ln.
      { destruct (buf_get (b_buffer st) (v_name v) p) eqn:G; [eapply Hl; eassumption|].
        unfold default_array. rewrite repeat_length. assumption. }
      rewrite Ln in H'. destruct (Nat.ltb idx n) eqn:L; [cbv beta iota in H'; discriminate H'|apply Nat.ltb_ge in L; lia].
    + apply check_set_value_err in V. destruct V as [->| ->]; inversion H'; subst; [left|right]; reflexivity.
  - apply canon_err in C. inversion H'; subst. right. reflexivity.
Qed.

Lemma add_dated_err x e v idx l n k : forall st,
  (idx < n)%nat -> get_count st (e_plural e) = n -> len_is (b_buffer st) (v_name v) n ->
  add_dated x st e v idx l = Err k -> read_err k.
Proof.
  induction l as [|[t value] l IH]; intros st Hi Hc Hl H; cbn [add_dated] in H; [discriminate|].
  destruct (parse_key (tok x t)) as [p0|] eqn:Pk; [|inversion H; left; reflexivity].
  destruct (add_variable_value x st e v idx t value) as [st1|k1] eqn:A; cbn [bind] in H.
  - eapply IH; [eassumption| | |eassumption].
    + unfold get_count. rewrite (get_ids_frame st st1) by (eapply add_variable_value_frame; eassumption).
      assumption.
    + eapply add_variable_value_len; [eassumption|intros _; assumption|assumption].
  - assert (k1 = k) by congruence. subst k1.
    exact (add_variable_value_err x st e v idx t value k p0 n Pk Hi Hc Hl A).
Qed.

(* all the arrays of the variables of entity [e] have one cell per instance *)
Definition arrays_ok (s : sys) (e : entity) (st : bstate) : Prop :=
  forall vn v, find_var vn (s_vars s) = Some v -> v_entity v = e_key e ->
    len_is (b_buffer st) vn (get_count st (e_plural e)).

Lemma init_arrays_ok x s e id fields : forall st st',
  init_variable_values x s st e fields id = Ok st' -> arrays_ok s e st -> arrays_ok s e st'.
Proof.
  intros st st' H A vn v Fv Ev. unfold get_count.
  rewrite (get_ids_frame st st') by (eapply init_variable_values_frame; eassumption).
  eapply init_len; [eassumption|reflexivity|]. apply (A vn v Fv Ev).
Qed.

Lemma init_err x s e id fields k : forall st,
  index_of id (get_ids st (e_plural e)) <> None -> arrays_ok s e st ->
  init_variable_values x s st e fields id = Err k -> read_err k.
Proof.
  induction fields as [|[vn vals] fields IH]; intros st Hid A H; cbn [init_variable_values] in H;
    [discriminate|].
  destruct (find_var vn (s_vars s)) as [v|] eqn:Fv; [|inversion H; left; reflexivity].
  destruct (String.eqb (v_entity v) (e_key e)) eqn:Ee; cbn [negb] in H; [|inversion H; left; reflexivity].
  apply String.eqb_eq in Ee.
  destruct (index_of id (get_ids st (e_plural e))) as [idx|] eqn:Ei; [|contradiction].
  destruct vals; try (inversion H; left; reflexivity).
  destruct (add_dated x st e v idx l) as [st1|k1] eqn:D; cbn [bind] in H.
  - eapply IH; [| |eassumption].
    + rewrite (get_ids_frame st st1) by (eapply add_dated_frame; eassumption). rewrite Ei. discriminate.
    + intros vn' v' Fv' Ev'. unfold get_count.
      rewrite (get_ids_frame st st1) by (eapply add_dated_frame; eassumption).
      eapply add_dated_len; [eassumption|intros _; reflexivity|apply (A vn' v' Fv' Ev')].
  - assert (k1 = k) by congruence; subst k1. eapply add_dated_err; [| | |eassumption].
    + apply index_of_lt in Ei. exact Ei.
    + reflexivity.
    + rewrite (find_var_name _ _ _ Fv). apply (A vn v Fv Ee).
Qed.

Lemma index_of_in l p : In p l -> index_of p l <> None.
Proof. intros I. destruct (index_of_some l p I) as (k & ->). discriminate. Qed.

Lemma add_person_instances_err x s l k : forall st,
  (forall pid j, In (pid, j) l -> In pid (get_ids st (e_plural (s_person s)))) ->
  arrays_ok s (s_person s) st ->
  add_person_instances x s st l = Err k -> read_err k.
Proof.
  induction l as [|[pid j] l IH]; intros st Hin A H; cbn [add_person_instances] in H; [discriminate|].
  destruct j; try (inversion H; left; reflexivity).
  destruct (init_variable_values x s st (s_person s) l0 pid) as [st1|k1] eqn:I; cbn [bind] in H.
  - eapply IH; [| |eassumption].
    + intros p j Ip. rewrite (get_ids_frame st st1) by (eapply init_variable_values_frame; eassumption).
      eapply Hin. right. eassumption.
    + eapply init_arrays_ok; eassumption.
  - assert (k1 = k) by congruence; subst k1. eapply init_err; [|eassumption|eassumption].
    apply index_of_in. eapply Hin. left. reflexivity.
Qed.

Lemma add_group_instances_err x s e pids eids l k : forall st todo mr,
  (forall gid j, In (gid, j) l -> In gid eids) -> get_ids st (e_plural e) = eids ->
  arrays_ok s e st ->
  add_group_instances x s e pids eids l st todo mr = Err k -> read_err k.
Proof.
  induction l as [|[gid j] l IH]; intros st todo mr Hin Hids A H; cbn [add_group_instances] in H;
    [discriminate|].
  destruct j; try (inversion H; left; reflexivity).
  destruct (allocate_roles pids todo (roles_json e l0)) as [todo1|k1] eqn:AR; cbn [bind] in H.
  2:{ assert (k1 = k) by congruence; subst k1. apply allocate_roles_err in AR. left. assumption. }
  destruct (index_of gid eids) as [gi|] eqn:Eg.
  2:{ exfalso. eapply index_of_in; [|exact Eg]. eapply Hin. left. reflexivity. }
  destruct (assign_roles pids (Z.of_nat gi) (roles_json e l0) mr) as [mr1|k1] eqn:AS; cbn [bind] in H.
  2:{ assert (k1 = k) by congruence; subst k1. apply assign_roles_err in AS. left. assumption. }
  destruct (init_variable_values x s st e (without_roles e l0) gid) as [st1|k1] eqn:I; cbn [bind] in H.
  - eapply IH; [| | |eassumption].
    + intros g j Ig. eapply Hin. right. eassumption.
    + rewrite (get_ids_frame st st1) by (eapply init_variable_values_frame; eassumption). assumption.
    + eapply init_arrays_ok; eassumption.
  - assert (k1 = k) by congruence; subst k1. eapply init_err; [|eassumption|eassumption].
    rewrite Hids, Eg. discriminate.
Qed.

Lemma add_group_entity_err x s st pids e j k :
  b_ax_ids st = [] ->
  (forall vn v, find_var vn (s_vars s) = Some v -> v_entity v = e_key e -> aget vn (b_buffer st) = None) ->
  add_group_entity x s st pids e j = Err k -> read_err k.
Proof.
  intros Hax Hnone H. unfold add_group_entity in H. destruct j; try (inversion H; left; reflexivity).
  set (st0 := set_ids st (e_plural e) (map fst l)) in *.
  assert (get_ids st0 (e_plural e) = map fst l) as Ids.
  { unfold get_ids, ids_of, st0. cbn [set_ids b_ax_ids b_ids]. rewrite Hax. cbn [aget].
    rewrite aget_aset_same. reflexivity. }
  destruct (add_group_instances x s e pids (map fst l) l st0 pids _) as [[[st1 todo] mr]|k1] eqn:G;
    cbn [bind] in H.
  - destruct todo; discriminate.
  - assert (k1 = k) by congruence; subst k1. eapply add_group_instances_err; [| | |exact G].
    + intros gid j I. apply in_map_iff. exists (gid, j). split; [reflexivity|assumption].
    + assumption.
    + intros vn v Fv Ev p arr Gp. unfold buf_get, st0 in Gp. cbn [set_ids b_buffer] in Gp.
      rewrite (Hnone vn v Fv Ev) in Gp. discriminate.
Qed.

Lemma add_groups_err x s pids params ax gs k : forall st,
  NoDup (map e_key gs) ->
  b_ax_ids st = [] ->
  (forall g vn v, In g gs -> find_var vn (s_vars s) = Some v -> v_entity v = e_key g ->
                  aget vn (b_buffer st) = None) ->
  add_groups x s st pids params ax gs = Err k -> read_err k.
Proof.
  induction gs as [|g gs IH]; intros st ND Hax Hnone H; cbn [add_groups] in H; [discriminate|].
  cbn [map] in ND. inversion ND as [|? ? Nin ND']; subst.
  destruct (match aget (e_plural g) params with
            | Some JNull | None => if ax then Err ESituation else Ok (add_default_group_entity st pids g)
            | Some j => add_group_entity x s st pids g j end) as [st1|k1] eqn:S; cbn [bind] in H.
  - eapply IH; [assumption| | |eassumption].
    + assert (frame_but (e_plural g) st st1) as F.
      { destruct (aget (e_plural g) params) as [j|].
        - destruct j; try (eapply add_group_entity_frame; eassumption);
            destruct ax; try discriminate; inversion S; subst; apply add_default_group_entity_frame.
        - destruct ax; try discriminate; inversion S; subst; apply add_default_group_entity_frame. }
      destruct F as (_ & F & _). congruence.
    + intros g' vn v Ig' Fv Ev.
      assert (v_entity v <> e_key g) as Ne.
      { rewrite Ev. intros E. apply Nin. rewrite <- E. apply in_map. assumption. }
      assert (aget vn (b_buffer st1) = aget vn (b_buffer st)) as ->.
      { destruct (aget (e_plural g) params) as [j|].
        - destruct j; try (eapply (add_group_entity_other x s vn v Fv); eassumption);
            destruct ax; try discriminate; inversion S; subst; reflexivity.
        - destruct ax; try discriminate; inversion S; subst; reflexivity. }
      eapply Hnone; [right; eassumption|eassumption|eassumption].
  - assert (k1 = k) by congruence; subst k1.
    destruct (aget (e_plural g) params) as [j|].
    + destruct j; try (eapply add_group_entity_err; [exact Hax| |exact S];
                       intros vn v Fv Ev; eapply Hnone; [left; reflexivity|eassumption|eassumption]);
        destruct ax; try discriminate; inversion S; left; reflexivity.
    + destruct ax; try discriminate; inversion S; left; reflexivity.
Qed.

(** * Reading a document: success, or the situation error (or the marker) *)

Section Reading.
  Variables (x : ext) (s : sys) (doc : list (string * json)).
  Hypothesis Wf : wf_sys s.
  Hypothesis Hr : e_roles (s_person s) = [].
  Hypothesis Hax : aget "axes"%string doc = None.

  Let pp := e_plural (s_person s).
  Let params := aremove "axes" doc.

  (* the document was read: persons then groups *)
  Definition was_read (persons : list (string * json)) (st1 st2 : bstate) : Prop :=
    aget pp params = Some (JObj persons) /\
    existsb (fun kv : string * json => negb (mem_str (fst kv) (plurals s))) params = false /\
    add_person_instances x s (set_ids b_empty pp (map fst persons)) persons = Ok st1 /\
    add_groups x s st1 (get_ids st1 pp) params false (s_groups s) = Ok st2.

  Lemma read_or_refused :
    (exists k, build_from_entities x s doc = Err k /\ read_err k) \/
    (exists persons st1 st2, was_read persons st1 st2 /\
       build_from_entities x s doc = mapM (finalize_population s st2) (entities s)).
  Proof.
    unfold build_from_entities. fold params pp. rewrite Hax.
    destruct (existsb _ params) eqn:Ex; [left; eexists; split; [reflexivity|left; reflexivity]|].
    destruct (aget pp params) as [j|] eqn:Ap; [|left; eexists; split; [reflexivity|left; reflexivity]].
    destruct j; try (left; eexists; split; [reflexivity|left; reflexivity]).
    destruct l as [|i0 rest]; [left; eexists; split; [reflexivity|left; reflexivity]|].
    unfold add_person_entity. fold pp.
    set (persons := i0 :: rest) in *. set (st0 := set_ids b_empty pp (map fst persons)).
    assert (get_ids st0 pp = map fst persons) as Ids0.
    { unfold get_ids, ids_of, st0. cbn. rewrite String.eqb_refl. reflexivity. }
    destruct (add_person_instances x s st0 persons) as [st1|k1] eqn:H1; cbn [bind].
    2:{ left. eexists. split; [reflexivity|]. eapply add_person_instances_err; [| |exact H1].
        - intros pid j I. fold pp. rewrite Ids0. apply in_map_iff. exists (pid, j). split; [reflexivity|assumption].
        - intros vn v Fv Ev p arr G. unfold buf_get, st0 in G. cbn in G. discriminate. }
    destruct (add_groups x s st1 (get_ids st1 pp) params false (s_groups s)) as [st2|k2] eqn:H2; cbn [bind].
    2:{ left. eexists. split; [reflexivity|]. eapply add_groups_err; [| | |exact H2].
        - destruct Wf as (_ & NDs & _). unfold singulars, entities in NDs. cbn [map] in NDs.
          inversion NDs; assumption.
        - apply add_person_instances_frame in H1. destruct H1 as (_ & _ & _ & X & _). rewrite X. reflexivity.
        - intros g vn v Ig Fv Ev.
          assert (v_entity v <> e_key (s_person s)) as Ne.
          { rewrite Ev. destruct Wf as (_ & NDs & _). unfold singulars, entities in NDs. cbn [map] in NDs.
            inversion NDs; subst. intros E. apply H3. rewrite <- E. apply in_map. assumption. }
          rewrite (add_person_instances_other x s vn v Fv _ _ _ Ne H1). reflexivity. }
    right. exists persons, st1, st2. split; [|reflexivity]. repeat split; assumption.
  Qed.

  (* once read, every declaration was accepted *)
  Lemma read_declaration_accepted persons st1 st2 e l id fields vn vals :
    was_read persons st1 st2 ->
    In e (entities s) -> instances_of doc e = Some l -> In (id, JObj fields) l ->
    In (vn, vals) fields -> ~ In vn (map role_name (e_roles e)) ->
    field_fine x s e (b_buffer st2) (vn, vals).
  Proof.
    intros (Ap & _ & H1 & H2) Ie Hi Iid If Nr.
    pose proof (instances_params s doc Wf _ _ Ie Hi) as Pe.
    destruct (add_groups_inv _ _ _ _ _ _ _ _ H2) as (K2 & G2).
    destruct Ie as [<-|Ig].
    - fold pp params in Pe. rewrite Ap in Pe. inversion Pe; subst persons.
      destruct (add_person_instances_inv _ _ _ _ _ Hr H1) as (_ & F1).
      destruct (F1 _ Iid) as (fields' & E & F). cbn [snd] in E. inversion E; subst fields'.
      eapply field_fine_keeps; [exact K2|]. apply F.
      unfold without_roles. rewrite Hr. cbn [fold_left]. assumption.
    - destruct (G2 e l Ig Pe) as (F & _). destruct (F _ Iid) as (fields' & E & Fi & _).
      cbn [snd] in E. inversion E; subst fields'.
      apply Fi. apply without_roles_In; assumption.
  Qed.

  Lemma read_contradiction persons st1 st2 :
    was_read persons st1 st2 -> ill_formed_read x s doc -> False.
  Proof.
    intros W [k Ik Nax Npl
             |e l id fields vn vals Ie Hi Iid If Nr Nv
             |e l id vn t value v Ie Hi (fields & dated & Iid & If & It) Nr Fv Hn Hc
             |e l id vn t value k Ie Hi (fields & dated & Iid & If & It) Nr Hp
             |e l gid r i pid persons' Ie Hi (fields & Iid & Ir & Hnth) Hpers Np
             |e l a b i a' b' i' pid Ie Hi M M' Nd
             |e l gid fields r mx Ie Hi Iid Ir Hmx Hlen].
    - destruct W as (_ & Ex & _).
      assert (existsb (fun kv : string * json => negb (mem_str (fst kv) (plurals s))) params = true) as T;
        [|congruence].
      apply existsb_exists. pose proof (aremove_keys "axes"%string k doc Ik Nax) as H.
      apply in_map_iff in H. destruct H as (kv & E & H). exists kv. split; [assumption|].
      rewrite E. apply negb_true_iff, mem_str_false. assumption.
    - destruct (read_declaration_accepted _ _ _ e l id fields vn vals W Ie Hi Iid If Nr)
        as (v & dated & Fv & Ev & _).
      cbn [fst] in Fv. eapply Nv; eassumption.
    - destruct (read_declaration_accepted _ _ _ e l id fields vn (JObj dated) W Ie Hi Iid If Nr)
        as (v' & dated' & Fv' & Ev & Ed & Fe).
      cbn [fst snd] in Fv', Ed. inversion Ed; subst dated'. rewrite Fv in Fv'. inversion Fv'; subst v'.
      destruct (Fe _ It) as (_ & B). destruct (B Hn) as (p & c & _ & C & _). cbn [snd] in C. congruence.
    - destruct (read_declaration_accepted _ _ _ e l id fields vn (JObj dated) W Ie Hi Iid If Nr)
        as (v' & dated' & Fv' & Ev & Ed & Fe).
      cbn [snd] in Ed. inversion Ed; subst dated'.
      destruct (Fe _ It) as ((p0 & A) & _). cbn [fst] in A. congruence.
    - destruct W as (Ap & _ & H1 & H2).
      pose proof (instances_params s doc Wf _ _ (or_introl eq_refl) Hpers) as Pp. fold pp params in Pp.
      rewrite Ap in Pp. inversion Pp; subst persons'.
      assert (get_ids st1 pp = map fst persons) as Ids.
      { apply add_person_instances_frame in H1. rewrite (get_ids_frame _ _ _ H1).
        unfold get_ids, ids_of. cbn. rewrite String.eqb_refl. reflexivity. }
      destruct (add_groups_inv _ _ _ _ _ _ _ _ H2) as (_ & G2).
      destruct (G2 e l Ie (instances_params s doc Wf _ _ (or_intror Ie) Hi)) as (F & _).
      destruct (F _ Iid) as (fields' & E & _ & Known & _). cbn [snd] in E. inversion E; subst fields'.
      apply Np. rewrite <- Ids. eapply Known; [exact Ir|]. eapply nth_error_In; eassumption.
    - destruct W as (_ & _ & _ & H2).
      destruct (add_groups_inv _ _ _ _ _ _ _ _ H2) as (_ & G2).
      destruct (G2 e l Ie (instances_params s doc Wf _ _ (or_intror Ie) Hi)) as (_ & U).
      apply Nd. eapply U; eassumption.
    - destruct W as (_ & _ & _ & H2).
      destruct (add_groups_inv _ _ _ _ _ _ _ _ H2) as (_ & G2).
      destruct (G2 e l Ie (instances_params s doc Wf _ _ (or_intror Ie) Hi)) as (F & _).
      destruct (F _ Iid) as (fields' & E & _ & _ & Max). cbn [snd] in E. inversion E; subst fields'.
      specialize (Max r mx Ir Hmx). lia.
  Qed.

  (** a document (without axes) with an ill-formed item detected while reading, at ANY place:
      the situation error, or the marker when something read before it is outside the
      modelled language *)
  Theorem ill_formed_read_situation :
    ill_formed_read x s doc ->
    build_from_entities x s doc = Err ESituation \/ build_from_entities x s doc = Err EUnmodelled.
  Proof.
    intros Hi. destruct read_or_refused as [(k & E & [->| ->])|(persons & st1 & st2 & W & _)].
    - left. assumption.
    - right. assumption.
    - exfalso. eapply read_contradiction; eassumption.
  Qed.
End Reading.
