(** C02, sentence 2: every value that is still readable when a top-level request has
    returned is one that a fresh simulation, given some of the other readable values,
    computes ([retained_justified]).

    Invariant [J] carried through the run of one top-level request: every cache entry is
    an entry of the initial cache, or is marked for deletion, or is justified: a fresh
    simulation whose cache is a set of currently stored, currently unmarked other entries
    returns it.  The witness set for the entry stored by a frame is the unmarked part of
    the cache when the frame started; it stays stored and unmarked because entries are not
    overwritten and marks only fall on keys without an entry (EngineC02SpiralProofs.v),
    and the frame's value is recomputed from it by EngineC02Sim.v. *)
From Coq Require Import ZArith List Bool Arith Lia.
From Verif Require Import Base Cal Tables Period Np Group Param Engine EngineProofs
  EngineC02Gen EngineC02SpiralProofs EngineC02Sim.
Import ListNotations.
Open Scope nat_scope.

Lemma Inv1_calc sy pp f s0 s w q : leafy sy -> stack s0 <> [] ->
  Inv1 sy s0 s -> Inv1 sy s0 (fst (calc f sy pp s w q)).
Proof.
  intros Hlf Hs0 (I1 & I2 & I3).
  assert (Hs : stack s <> []) by now rewrite I1.
  destruct (calc_T sy pp Hlf f s w q I2 Hs) as [J1 J2].
  split; [now rewrite calc_stack'|]. split; [exact J1|]. eapply Tr_trans; eauto.
Qed.

(** what a fresh simulation computes for an eternal leaf that has no entry *)
Lemma fresh_eternal_leaf sy pp N v x : leafy sy -> nth_error (vars sy) v = Some x ->
  unit_eqb (v_unit x) Eternity = true -> v_neutral x = false ->
  snd (calc (S N) sy pp {| cache := []; stack := []; invalid := [] |} v eternity_period)
  = Ok (default_array pp x).
Proof.
  intros Hlf Ex Eu Hn. destruct (Hlf v x Ex Eu) as [Hnf HL].
  cbn [calc]. unfold calc_body. rewrite Ex. unfold check_consistency. rewrite Eu.
  unfold get_array. rewrite Hn. cbn [push cache stack tl]. unfold lookup at 1. cbn [find option_map].
  unfold prev_periods. cbn [filter map existsb length].
  destruct (Nat.leb_spec (max_loops sy) 0) as [HL0|_]; [lia|].
  unfold formula_at. rewrite Hnf. reflexivity.
Qed.

Section Justify.
  Variable sy : sys.
  Variable pp : popu.
  Hypothesis Hlf : leafy sy.
  Variable c0 : list (key * val).
  Variable N : nat.

  Definition submap_unmarked (S c : list (key * val)) (inv : list key) (k : key) : Prop :=
    forall k' a', lookup k' S = Some a' -> k' <> k /\ lookup k' c = Some a' /\ ~ In k' inv.

  Definition Just (s : st) (k : key) (a : val) : Prop :=
    exists S, submap_unmarked S (cache s) (invalid s) k /\
      snd (calc N sy pp {| cache := S; stack := []; invalid := [] |} (fst k) (snd k)) = Ok a.

  Definition Jd (s : st) (k : key) (a : val) : Prop :=
    lookup k c0 = Some a \/ (In k (invalid s) /\ nth_error (vars sy) (fst k) <> None) \/ Just s k a.

  Definition J (s : st) : Prop := forall k a, lookup k (cache s) = Some a -> Jd s k a.

  Lemma Just_Tr s s' k a : Tr s s' -> Just s k a -> Just s' k a.
  Proof.
    intros [T1 T2] (S & HS & Hc). exists S. split; auto.
    intros k' a' Hk'. destruct (HS k' a' Hk') as (A & B & C). repeat split; auto.
    intro Hin. destruct (T2 k' Hin) as [X|X]; [auto|congruence].
  Qed.

  Lemma J_step s s' : J s -> Tr s s' -> incl (invalid s) (invalid s') ->
    (forall k a, lookup k (cache s') = Some a -> lookup k (cache s) = None -> Jd s' k a) -> J s'.
  Proof.
    intros HJ HT Hi Hnew k a Hk.
    destruct (lookup k (cache s)) as [a0|] eqn:E; [|now apply Hnew].
    pose proof (proj1 HT k a0 E) as E'. assert (a0 = a) by congruence. subst a0.
    destruct (HJ k a E) as [H|[[H1 H2]|H]].
    - now left.
    - right. left. split; auto.
    - right. right. eapply Just_Tr; eauto.
  Qed.

  Lemma body_J f s v p : S f <= N ->
    (forall s w q, Qs sy s -> stack s <> [] -> J s -> J (fst (calc f sy pp s w q))) ->
    Qs sy s -> J s -> J (fst (calc_body (calc f sy pp) sy pp (push (v, p) s) v p)).
  Proof.
    intros HfN IH (HQ1 & HQ2 & HQ3) HJ.
    set (s0 := push (v, p) s).
    assert (Hs0 : stack s0 <> []) by discriminate.
    assert (Hrec1 : forall s1 w q, Inv1 sy s0 s1 -> Inv1 sy s0 (fst (calc f sy pp s1 w q))).
    { intros. now apply Inv1_calc. }
    pose proof (body_T sy pp Hlf (calc f sy pp) s0 v p (stack s) eq_refl HQ1 HQ2 HQ3 Hrec1) as HT.
    cbn zeta in HT.
    pose proof (body_calc_frame sy pp f s0 v p Hs0) as [_ Hincl].
    destruct (calc_body (calc f sy pp) sy pp s0 v p) as [s' r] eqn:Hb0. cbn [fst] in *.
    destruct HT as (HT1 & HT2 & HT2b & HT3).
    assert (HJ0 : J s0) by exact HJ.
    assert (Hsame : cache s' = cache s0 -> J s').
    { intro E. apply (J_step s0 s'); auto. intros k a H1 H2. rewrite E in H1. congruence. }
    pose proof Hb0 as Hb. unfold calc_body in Hb.
    destruct (nth_error (vars sy) v) as [x|] eqn:Ex; [|apply Hsame; injection Hb as <- _; reflexivity].
    destruct (check_consistency x p) as [u|]; [|apply Hsame; injection Hb as <- _; reflexivity].
    destruct (get_array pp x s0 v p) as [b|] eqn:Eg.
    { destruct (existsb _ _); apply Hsame; injection Hb as <- _; reflexivity. }
    destruct (existsb (period_eqb p) _) eqn:Ecy; [apply Hsame; injection Hb as <- _; reflexivity|].
    destruct (Nat.leb _ _); [apply Hsame; injection Hb as <- _; reflexivity|].
    unfold get_array in Eg. destruct (v_neutral x) eqn:Enx; [discriminate|].
    change (cache s0) with (cache s) in Eg.
    destruct (unit_eqb (v_unit x) Eternity) eqn:Eu.
    { (* an eternal leaf stores the default; a fresh simulation computes the default *)
      destruct (Hlf v x Ex Eu) as [Hnf HL].
      assert (Ef : formula_at x p = Ok None) by (unfold formula_at; now rewrite Hnf).
      rewrite Ef in Hb. injection Hb as <- <-.
      apply (J_step s0); auto.
      intros k a Hk Hn. rewrite lookup_put_in_cache in Hk.
      destruct (v_nostore x); [congruence|].
      destruct (key_eqb k (v, norm x p)) eqn:E; [|congruence].
      apply key_eqb_iff in E. subst k. injection Hk as <-.
      right. right. exists []. split; [intros k' a' Hk'; discriminate|].
      unfold norm. rewrite Eu. cbn [fst snd].
      destruct N as [|N']; [lia|]. now apply fresh_eternal_leaf. }
    rewrite (norm_dated x p Eu) in Eg.
    assert (HI0 : Inv1 sy s0 s0).
    { split; [reflexivity|]. split; [|apply Tr_refl]. split; [|split; [|exact HQ3]].
      - intros k [<-|Hk]; [exact Eg|now apply HQ1].
      - intros k y [<-|Hk] Hy; [cbn [fst] in Hy; congruence|eauto]. }
    assert (Hput : forall s1 b, Inv1 sy s0 s1 -> J s1 -> s' = put_in_cache x v p b s1 -> r = Ok b -> J s').
    { intros s1 b (I1 & (I2 & I2b & I2c) & I3) HJ1 -> ->.
      destruct (v_nostore x) eqn:Ens. { unfold put_in_cache; rewrite Ens. exact HJ1. }
      assert (Hkf : lookup (v, p) (cache s1) = None) by (apply I2; rewrite I1; now left).
      apply (J_step s1).
      - exact HJ1.
      - split.
        + intros k c Hk. rewrite lookup_put_in_cache, Ens, (norm_dated x p Eu).
          destruct (key_eqb k (v, p)) eqn:E; auto. apply key_eqb_iff in E. subst k. congruence.
        + intros k Hk. rewrite invalid_put_in_cache in Hk. auto.
      - rewrite invalid_put_in_cache. apply incl_refl.
      - intros k a Hk Hn. rewrite lookup_put_in_cache, Ens, (norm_dated x p Eu) in Hk.
        destruct (key_eqb k (v, p)) eqn:E; [|congruence]. apply key_eqb_iff in E. subst k.
        injection Hk as <-. right.
        destruct (existsb (key_eqb (v, p)) (invalid s1)) eqn:Em.
        + left. rewrite invalid_put_in_cache. split; [now apply existsb_key_in|]. cbn [fst]. congruence.
        + right. exists (unmarked (invalid s) (cache s)). split.
          * intros k' a' Hk'. rewrite lookup_unmarked in Hk'.
            destruct (existsb (key_eqb k') (invalid s)) eqn:E'; [discriminate|].
            apply existsb_key_notin in E'. split; [intro; subst k'; congruence|]. split.
            -- exact (proj1 HT3 k' a' Hk').
            -- intro Hin. destruct (proj2 HT3 k' Hin) as [X|X]; [now apply E'|].
               change (cache s0) with (cache s) in X. congruence.
          * cbn [fst snd].
            assert (Hgood : ~ In (v, p) (invalid (put_in_cache x v p b s1))).
            { rewrite invalid_put_in_cache. now apply existsb_key_notin. }
            pose proof (justify_frame_gen sy pp f s v p _ b HQ3 Hb0 Hgood) as Hj.
            destruct (calc (S f) sy pp {| cache := unmarked (invalid s) (cache s); stack := []; invalid := [] |} v p)
              as [t' r'] eqn:Ec.
            cbn [snd] in Hj. subst r'.
            replace N with (S f + (N - S f)) by lia.
            now rewrite (calc_fuel_ok sy pp (S f) (N - S f) _ _ _ _ _ Ec). }
    assert (HrecJ : forall s1 w q, Inv1 sy s0 s1 /\ J s1 ->
              Inv1 sy s0 (fst (calc f sy pp s1 w q)) /\ J (fst (calc f sy pp s1 w q))).
    { intros s1 w q [HI1 HJ1]. split; [now apply Hrec1|].
      destruct HI1 as (I1 & I2 & I3). apply IH; auto. now rewrite I1. }
    destruct (formula_at x p) as [[e|]|]; [| |apply Hsame; injection Hb as <- _; reflexivity].
    - pose proof (eval_pres sy pp (calc f sy pp) (fun s1 => Inv1 sy s0 s1 /\ J s1) HrecJ e (v_ent x) p s0
                    (conj HI0 HJ0)) as He.
      destruct (eval (calc f sy pp) sy pp (v_ent x) s0 p e) as [s1 r1]. cbn [fst] in He.
      destruct He as [HeI HeJ]. destruct r1 as [b|er].
      + apply (Hput s1 (cast x b) HeI HeJ); congruence.
      + assert (s' = s1) by congruence. subst s'. exact HeJ.
    - apply (Hput s0 (default_array pp x) HI0 HJ0); congruence.
  Qed.

  Lemma calc_J : forall f, f <= N -> forall s v p, Qs sy s -> stack s <> [] -> J s ->
    J (fst (calc f sy pp s v p)).
  Proof.
    induction f as [|f IH]; intros HfN s v p HQ Hs HJ; cbn [calc]; [exact HJ|].
    pose proof (body_J f s v p HfN (IH ltac:(lia)) HQ HJ) as Hb.
    pose proof (body_calc_frame sy pp f (push (v, p) s) v p ltac:(discriminate)) as [Hst _].
    destruct (calc_body (calc f sy pp) sy pp (push (v, p) s) v p) as [s1 r]. cbn [fst] in *.
    rewrite purge_nonempty; [exact Hb|].
    unfold pop; cbn [stack]. rewrite Hst. exact Hs.
  Qed.
End Justify.

(** * The purge *)

Lemma contains_refl p : contains p p = true.
Proof.
  assert (R : forall d, date_leb d d = true).
  { intros [[y m] d]. unfold date_leb. rewrite !Z.eqb_refl, Z.leb_refl. cbn. now rewrite !orb_true_r. }
  unfold contains. now rewrite !R.
Qed.

Lemma lookup_delete_one sy m c k :
  lookup k (delete_one sy m c) =
  match nth_error (vars sy) (fst m) with
  | None => lookup k c
  | Some x => if Nat.eqb (fst k) (fst m) && contains (norm x (snd m)) (snd k) then None else lookup k c
  end.
Proof.
  unfold delete_one. destruct (nth_error (vars sy) (fst m)) as [x|]; [|reflexivity].
  rewrite (lookup_filter_key (fun k => negb (Nat.eqb (fst k) (fst m) && contains (norm x (snd m)) (snd k)))).
  now destruct (_ && _).
Qed.

(** what survives the purge was there before and is not marked *)
Lemma purge_fold_sound sy k a : forall inv c, dated_keys sy inv ->
  lookup k (fold_left (fun c m => delete_one sy m c) inv c) = Some a ->
  lookup k c = Some a /\ (In k inv -> nth_error (vars sy) (fst k) = None).
Proof.
  induction inv as [|m inv IH]; intros c Hd H; cbn [fold_left] in H.
  - split; [exact H|intros []].
  - assert (Hd' : dated_keys sy inv) by (intros k' y Hk'; apply Hd; now right).
    destruct (IH _ Hd' H) as [H1 H2]. rewrite lookup_delete_one in H1.
    destruct (nth_error (vars sy) (fst m)) as [x|] eqn:Ex.
    + destruct (Nat.eqb (fst k) (fst m) && contains (norm x (snd m)) (snd k)) eqn:E; [discriminate|].
      split; [exact H1|]. intros [->|Hin]; [|auto].
      rewrite Nat.eqb_refl, (norm_dated x _ (Hd _ x (or_introl eq_refl) Ex)), contains_refl in E. discriminate.
    + split; [exact H1|]. intros [->|Hin]; auto.
Qed.

(** A mark removes the entries of its variable whose period it contains.  [marks_exact]:
    in this state a mark contains the period of no other stored key of its variable. *)
Definition marks_exact (s : st) : Prop :=
  forall m k a, In m (invalid s) -> lookup k (cache s) = Some a ->
    fst m = fst k -> contains (snd m) (snd k) = true -> snd m = snd k.

Lemma purge_fold_complete sy k a : forall inv c, dated_keys sy inv ->
  (forall m, In m inv -> fst m = fst k -> contains (snd m) (snd k) = true -> snd m = snd k) ->
  ~ In k inv -> lookup k c = Some a ->
  lookup k (fold_left (fun c m => delete_one sy m c) inv c) = Some a.
Proof.
  induction inv as [|m inv IH]; intros c Hd Hex Hnin H; cbn [fold_left]; [exact H|].
  apply IH.
  - intros k' y Hk'. apply Hd. now right.
  - intros m' Hm'. apply Hex. now right.
  - intro Hin. apply Hnin. now right.
  - rewrite lookup_delete_one. destruct (nth_error (vars sy) (fst m)) as [x|] eqn:Ex; [|exact H].
    destruct (Nat.eqb (fst k) (fst m) && contains (norm x (snd m)) (snd k)) eqn:E; [|exact H].
    exfalso. apply andb_true_iff in E as [E1 E2]. apply Nat.eqb_eq in E1.
    rewrite (norm_dated x _ (Hd _ x (or_introl eq_refl) Ex)) in E2.
    apply Hnin. left. destruct m as [w q], k as [w' q']. cbn [fst snd] in *.
    f_equal; [congruence|]. apply (Hex (w, q)); cbn [fst snd]; [now left|congruence|exact E2].
Qed.

(** * The state of a top-level request just before the purge *)

Definition before_purge (f : nat) (sy : sys) (pp : popu) (s : st) (v : nat) (p : period) : st :=
  pop (fst (calc_body (calc f sy pp) sy pp (push (v, p) s) v p)).

Lemma calc_before_purge f sy pp s v p :
  fst (calc (S f) sy pp s v p) = purge sy (before_purge f sy pp s v p).
Proof.
  cbn [calc]. unfold before_purge.
  now destruct (calc_body (calc f sy pp) sy pp (push (v, p) s) v p).
Qed.

(** * Sentence 2 *)

Lemma before_purge_stack sy pp f s0 v p : stack (before_purge f sy pp s0 v p) = stack s0.
Proof.
  unfold before_purge, pop; cbn [stack].
  pose proof (body_calc_frame sy pp f (push (v, p) s0) v p ltac:(discriminate)) as [X _].
  now rewrite X.
Qed.

Lemma before_purge_dated sy pp f s0 v p : leafy sy -> stack s0 = [] -> invalid s0 = [] ->
  dated_keys sy (invalid (before_purge f sy pp s0 v p)).
Proof.
  intros Hlf Hst Hinv. unfold before_purge, pop; cbn [invalid].
  assert (Hrec1 : forall s1 w q, Inv1 sy (push (v, p) s0) s1 ->
            Inv1 sy (push (v, p) s0) (fst (calc f sy pp s1 w q))).
  { intros. apply Inv1_calc; auto. discriminate. }
  refine (proj1 (proj2 (proj2 (body_T sy pp Hlf (calc f sy pp) (push (v, p) s0) v p (stack s0) eq_refl _ _ _ Hrec1)))).
  - intros k Hk. rewrite Hst in Hk. destruct Hk.
  - intros k y Hk. rewrite Hst in Hk. destruct Hk.
  - intros k y Hk. cbn [push invalid] in Hk. rewrite Hinv in Hk. destruct Hk.
Qed.

(** Unconditional form: the witness consists of entries that are stored and unmarked just
    before the purge.  Eternal variables, if any, are leaves. *)
Theorem retained_justified_pre_gen : forall sy pp f s0 v p,
  leafy sy -> stack s0 = [] -> invalid s0 = [] ->
  let se := before_purge f sy pp s0 v p in
  let s1 := fst (calc (S f) sy pp s0 v p) in
  forall k a, lookup k (cache s1) = Some a -> lookup k (cache s0) <> Some a ->
  exists W : list (key * val),
    (forall k' a', lookup k' W = Some a' ->
       k' <> k /\ lookup k' (cache se) = Some a' /\ ~ In k' (invalid se)) /\
    snd (calc (S f) sy pp {| cache := W; stack := []; invalid := [] |} (fst k) (snd k)) = Ok a.
Proof.
  intros sy pp f s0 v p Hlf Hst Hinv se s1 k a Hk Hold. subst s1.
  rewrite calc_before_purge in Hk. fold se in Hk.
  assert (HJ0 : J sy pp (cache s0) (S f) s0) by (intros k' a' H'; now left).
  assert (HQ0 : Qs sy s0).
  { split; [|split]; intros k'; rewrite ?Hst, ?Hinv; intros; contradiction. }
  assert (HJe : J sy pp (cache s0) (S f) se).
  { refine (body_J sy pp Hlf (cache s0) (S f) f s0 v p (le_n _) _ HQ0 HJ0).
    intros s w q. apply calc_J; auto. }
  assert (Hse : stack se = []) by (unfold se; now rewrite before_purge_stack).
  pose proof (before_purge_dated sy pp f s0 v p Hlf Hst Hinv) as Hde. fold se in Hde.
  unfold purge in Hk. rewrite Hse in Hk. cbn [cache] in Hk.
  destruct (purge_fold_sound sy k a _ _ Hde Hk) as [Hk1 Hk2].
  destruct (HJe k a Hk1) as [H|[[H1 H2]|(W & HS & Hc)]].
  - contradiction.
  - exfalso. now apply H2, Hk2.
  - exists W. split; [exact HS|exact Hc].
Qed.

Theorem retained_justified_pre : forall sy pp f s0 v p,
  no_eternal sy -> stack s0 = [] -> invalid s0 = [] ->
  let se := before_purge f sy pp s0 v p in
  let s1 := fst (calc (S f) sy pp s0 v p) in
  forall k a, lookup k (cache s1) = Some a -> lookup k (cache s0) <> Some a ->
  exists W : list (key * val),
    (forall k' a', lookup k' W = Some a' ->
       k' <> k /\ lookup k' (cache se) = Some a' /\ ~ In k' (invalid se)) /\
    snd (calc (S f) sy pp {| cache := W; stack := []; invalid := [] |} (fst k) (snd k)) = Ok a.
Proof. intros sy pp f s0 v p Hne. apply retained_justified_pre_gen. now apply no_eternal_leafy. Qed.

Lemma purge_keeps_unmarked sy s k a : dated_keys sy (invalid s) -> stack s = [] -> marks_exact s ->
  lookup k (cache s) = Some a -> ~ In k (invalid s) -> lookup k (cache (purge sy s)) = Some a.
Proof.
  intros Hd Hst Hex Hk Hn. unfold purge. rewrite Hst. cbn [cache].
  apply purge_fold_complete; auto. intros m Hm. exact (Hex m k a Hm Hk).
Qed.

(** With [marks_exact] on the state before the purge, the witness is a set of values
    that are still readable after the request. *)
Theorem retained_justified_gen : forall sy pp f s0 v p,
  leafy sy -> stack s0 = [] -> invalid s0 = [] ->
  marks_exact (before_purge f sy pp s0 v p) ->
  let s1 := fst (calc (S f) sy pp s0 v p) in
  forall k a, lookup k (cache s1) = Some a -> lookup k (cache s0) <> Some a ->
  exists W : list (key * val),
    (forall k' a', lookup k' W = Some a' -> k' <> k /\ lookup k' (cache s1) = Some a') /\
    snd (calc (S f) sy pp {| cache := W; stack := []; invalid := [] |} (fst k) (snd k)) = Ok a.
Proof.
  intros sy pp f s0 v p Hlf Hst Hinv Hex s1 k a Hk Hold.
  destruct (retained_justified_pre_gen sy pp f s0 v p Hlf Hst Hinv k a Hk Hold) as (W & HS & Hc).
  exists W. split; [|exact Hc].
  intros k' a' Hk'. destruct (HS k' a' Hk') as (A & B & C). split; [exact A|].
  subst s1. rewrite calc_before_purge.
  apply purge_keeps_unmarked; auto; [now apply before_purge_dated|now rewrite before_purge_stack].
Qed.

Theorem retained_justified : forall sy pp f s0 v p,
  no_eternal sy -> stack s0 = [] -> invalid s0 = [] ->
  marks_exact (before_purge f sy pp s0 v p) ->
  let s1 := fst (calc (S f) sy pp s0 v p) in
  forall k a, lookup k (cache s1) = Some a -> lookup k (cache s0) <> Some a ->
  exists W : list (key * val),
    (forall k' a', lookup k' W = Some a' -> k' <> k /\ lookup k' (cache s1) = Some a') /\
    snd (calc (S f) sy pp {| cache := W; stack := []; invalid := [] |} (fst k) (snd k)) = Ok a.
Proof. intros sy pp f s0 v p Hne. apply retained_justified_gen. now apply no_eternal_leafy. Qed.

(** A decision procedure for [marks_exact] (used by the examples). *)
Definition marks_exact_b (s : st) : bool :=
  forallb (fun m => forallb (fun kv =>
             negb (Nat.eqb (fst m) (fst (fst kv)) && contains (snd m) (snd (fst kv)))
             || period_eqb (snd m) (snd (fst kv))) (cache s)) (invalid s).

Lemma marks_exact_b_sound s : marks_exact_b s = true -> marks_exact s.
Proof.
  unfold marks_exact_b, marks_exact. intros H m k a Hm Hk Hf Hc.
  rewrite forallb_forall in H. specialize (H m Hm). rewrite forallb_forall in H.
  unfold lookup in Hk. destruct (find (fun kv => key_eqb k (fst kv)) (cache s)) as [kv|] eqn:E; [|discriminate].
  apply find_some in E as [Hin He]. apply key_eqb_iff in He. subst k.
  specialize (H kv Hin). cbn beta in H.
  apply orb_true_iff in H as [H|H]; [|now apply period_eqb_iff].
  exfalso. apply negb_true_iff, andb_false_iff in H as [H|H].
  - rewrite Hf, Nat.eqb_refl in H. discriminate.
  - exact (eq_true_false_abs _ Hc H).
Qed.
