(** Proofs about the parameter model (model/Param.v) for property C06. *)
From Coq Require Import ZArith List Bool Lia ZifyBool String.
From Verif Require Import Base Cal Period Param.
Import ListNotations.
Open Scope Z_scope.

(** ** get_at and the two scans of update *)

Lemma get_at_app_skip {V} (a b : hist V) d :
  (forall k v, In (k, v) a -> d < k) -> get_at (a ++ b) d = get_at b d.
Proof.
  induction a as [|[k v] a IH]; simpl; intros H; [reflexivity|].
  destruct (k <=? d) eqn:E.
  - specialize (H k v (or_introl eq_refl)). lia.
  - apply IH. intros k' v' Hin. apply (H k' v'). now right.
Qed.

Lemma take_ge_all {V} b (h : hist V) k v : In (k, v) (take_ge b h) -> b <= k.
Proof.
  induction h as [|[k' v'] h IH]; simpl; [tauto|].
  destruct (b <=? k') eqn:E; simpl; [|tauto].
  intros [H|H]; [inversion H; subst; lia|auto].
Qed.

Lemma take_drop_ge {V} b (h : hist V) : take_ge b h ++ drop_ge b h = h.
Proof.
  induction h as [|[k v] h IH]; simpl; [reflexivity|].
  destruct (b <=? k); simpl; [now rewrite IH|reflexivity].
Qed.

Lemma get_at_drop_ge {V} b (h : hist V) d : d < b -> get_at (drop_ge b h) d = get_at h d.
Proof.
  intros Hd. induction h as [|[k v] h IH]; simpl; [reflexivity|].
  destruct (b <=? k) eqn:E; simpl.
  - destruct (k <=? d) eqn:E2; [lia|exact IH].
  - reflexivity.
Qed.

Lemma drop_ge_head_lt {V} b (h : hist V) k v r : drop_ge b h = (k, v) :: r -> k < b.
Proof.
  induction h as [|[k' v'] h IH]; simpl; [discriminate|].
  destruct (b <=? k') eqn:E; [exact IH|].
  intros H; inversion H; subst; lia.
Qed.

(** the value in force from [b] on, read off the two halves of the split at [b] *)
Lemma last_date_spec {V} (h : hist V) :
  match last_date h with
  | None => h = []
  | Some k => exists h' v, h = h' ++ [(k, v)]
  end.
Proof.
  unfold last_date. destruct (rev h) as [|[k v] r] eqn:E.
  - apply (f_equal (@rev _)) in E. now rewrite rev_involutive in E.
  - exists (rev r), v. apply (f_equal (@rev _)) in E. rewrite rev_involutive in E. exact E.
Qed.

Lemma get_at_reopen {V} b (h : hist V) d : b <= d ->
  get_at (take_ge b h ++ reopen b (take_ge b h) (drop_ge b h)) d = get_at h d.
Proof.
  intros Hd.
  assert (Hrest : get_at (drop_ge b h) d = match drop_ge b h with (_, ov) :: _ => ov | [] => None end).
  { destruct (drop_ge b h) as [|[k0 ov] r] eqn:E; simpl; [reflexivity|].
    apply drop_ge_head_lt in E. destruct (k0 <=? d) eqn:E2; [reflexivity|lia]. }
  assert (Hgen : forall a, get_at (a ++ match drop_ge b h with (_, ov) :: _ => [(b, ov)] | [] => [(b, None)] end) d
                           = get_at (a ++ drop_ge b h) d).
  { induction a as [|[k v] a IH]; simpl.
    - rewrite Hrest. destruct (drop_ge b h) as [|[k0 ov] r]; simpl;
        destruct (b <=? d) eqn:E; try reflexivity; lia.
    - now rewrite IH. }
  unfold reopen. pose proof (last_date_spec (take_ge b h)) as HL.
  destruct (last_date (take_ge b h)) as [k|].
  - destruct (k =? b) eqn:E.
    + destruct HL as (h' & v & HL). rewrite app_nil_r.
      rewrite <- (take_drop_ge b h) at 2. rewrite HL. rewrite <- !app_assoc. simpl.
      (* the entry dated b answers every d >= b, so what follows it is never reached *)
      clear HL. induction h' as [|[k' v'] h' IH]; simpl.
      * destruct (k <=? d) eqn:E2; [reflexivity|lia].
      * now rewrite IH.
    + rewrite Hgen. now rewrite take_drop_ge.
  - rewrite Hgen. now rewrite take_drop_ge.
Qed.

Lemma reopen_dates {V} b (f r : hist V) k v : In (k, v) (reopen b f r) -> k = b.
Proof.
  unfold reopen. destruct (last_date f) as [k0|].
  - destruct (k0 =? b); simpl; [tauto|].
    destruct r as [|[? ?] ?]; simpl; intros [H|[]]; now inversion H.
  - destruct r as [|[? ?] ?]; simpl; intros [H|[]]; now inversion H.
Qed.

Lemma get_at_app_answered {V} (a c : hist V) d :
  (exists k v, In (k, v) a /\ k <= d) -> get_at (a ++ c) d = get_at a d.
Proof.
  induction a as [|[k0 v0] a IH]; intros (k & v & Hin & Hk); simpl in *; [tauto|].
  destruct (k0 <=? d) eqn:E; [reflexivity|].
  apply IH. destruct Hin as [Hin|Hin]; [inversion Hin; subst; lia|eauto].
Qed.

(** after the split at [b], some entry of  future ++ reopened  is dated exactly [b]
    or the kept part is non-empty ... in any case an entry <= d exists for d >= b *)
Lemma reopen_answers {V} b (f r : hist V) d : b <= d ->
  exists k v, In (k, v) (f ++ reopen b f r) /\ k <= d.
Proof.
  intros Hd. unfold reopen. pose proof (last_date_spec f) as HL.
  assert (Hre : exists k v, In (k, v) (f ++ match r with (_, ov) :: _ => [(b, ov)] | [] => [(b, None)] end) /\ k <= d).
  { destruct r as [|[k0 ov] r'].
    - exists b, None. split; [apply in_or_app; right; now left|lia].
    - exists b, ov. split; [apply in_or_app; right; now left|lia]. }
  destruct (last_date f) as [k|]; [|exact Hre].
  destruct (k =? b) eqn:E; [|exact Hre].
  destruct HL as (h' & v & HL). exists k, v. rewrite app_nil_r. rewrite HL.
  split; [apply in_or_app; right; now left|lia].
Qed.

(** ** update_spec: no hypothesis on the history, none on the bounds *)

Lemma update_range_closed_spec {V} (h : hist V) s e v d :
  get_at (update_range h s (Some e) v) d
  = if (s <=? d) && (d <=? e) then v else get_at h d.
Proof.
  unfold update_range.
  set (b := e + 1). set (fut := take_ge b h). set (rest := drop_ge b h).
  destruct (b <=? d) eqn:Eb.
  - (* after the span *)
    replace ((s <=? d) && (d <=? e)) with false by lia.
    rewrite app_assoc. rewrite get_at_app_answered by (apply reopen_answers; lia).
    apply get_at_reopen. lia.
  - (* inside or before the span: the kept future entries and the re-opened one are later *)
    rewrite app_assoc. rewrite get_at_app_skip.
    2:{ intros k v' Hin. apply in_app_or in Hin. destruct Hin as [Hin|Hin].
        - apply take_ge_all in Hin. lia.
        - apply reopen_dates in Hin. lia. }
    simpl. destruct (s <=? d) eqn:Es.
    + assert (Hde : (d <=? e) = true) by (unfold b in Eb; lia). now rewrite Hde.
    + simpl. rewrite get_at_drop_ge by lia. unfold rest. now rewrite get_at_drop_ge by lia.
Qed.

Lemma update_range_open_spec {V} (h : hist V) s v d :
  get_at (update_range h s None v) d = if s <=? d then v else get_at h d.
Proof.
  unfold update_range. simpl. destruct (s <=? d) eqn:E; [reflexivity|].
  apply get_at_drop_ge. lia.
Qed.

(** ** Strictly decreasing lists: all-pairs form *)

Fixpoint sdec {A} (l : list (Z * A)) : Prop :=
  match l with
  | [] => True
  | x :: t => (forall y, In y t -> fst y < fst x) /\ sdec t
  end.

Lemma decreasing_sdec {V} (h : hist V) : decreasing h <-> sdec h.
Proof.
  induction h as [|[k v] t IH]; simpl; [tauto|].
  split.
  - intros [H1 H2]. apply IH in H2. split; [|exact H2].
    destruct t as [|[k' v'] t']; simpl in *; [tauto|].
    intros y [Hy|Hy]; [subst; simpl; lia|].
    destruct H2 as [H2 _]. specialize (H2 y Hy). simpl in *. lia.
  - intros [H1 H2]. split; [|now apply IH].
    destruct t as [|[k' v'] t']; [exact I|]. apply (H1 (k', v')). now left.
Qed.

Lemma sdec_app {A} (a c : list (Z * A)) :
  sdec a -> sdec c -> (forall x y, In x a -> In y c -> fst y < fst x) -> sdec (a ++ c).
Proof.
  induction a as [|x a IH]; simpl; intros Ha Hc H; [exact Hc|].
  destruct Ha as [Ha1 Ha2]. split.
  - intros y Hy. apply in_app_or in Hy. destruct Hy; [auto|]. apply H; auto.
  - apply IH; auto.
Qed.

Lemma sdec_app_inv {A} (a c : list (Z * A)) :
  sdec (a ++ c) -> sdec a /\ sdec c /\ (forall x y, In x a -> In y c -> fst y < fst x).
Proof.
  induction a as [|x a IH]; simpl; intros H.
  - repeat split; auto. intros ? ? [].
  - destruct H as [H1 H2]. destruct (IH H2) as (Ia & Ic & Iac). repeat split; auto.
    + intros y Hy. apply H1. apply in_or_app. now left.
    + intros x' y [Hx|Hx] Hy; [subst; apply H1; apply in_or_app; now right|auto].
Qed.

(** ** get_at_latest *)

Definition latest_entry {V} (h : hist V) (d k : Z) (v : option V) : Prop :=
  In (k, v) h /\ k <= d /\ forall k' v', In (k', v') h -> k' <= d -> k' <= k.

Lemma get_at_latest_lemma {V} (h : hist V) (d : Z) : decreasing h ->
  ((exists k v, latest_entry h d k v) \/ (forall k v, In (k, v) h -> d < k))
  /\ (forall k v, latest_entry h d k v -> get_at h d = v)
  /\ ((forall k v, In (k, v) h -> d < k) -> get_at h d = None).
Proof.
  intros Hdec. apply decreasing_sdec in Hdec.
  induction h as [|[k0 v0] t IH]; simpl.
  - split; [right; intros ? ? []|]. split; [intros k v (H & _); destruct H|reflexivity].
  - destruct Hdec as [H1 H2]. specialize (IH H2). destruct IH as (IHa & IHb & IHc).
    destruct (k0 <=? d) eqn:E.
    + split; [|split].
      * left. exists k0, v0. split; [now left|]. split; [lia|].
        intros k' v' [Hin|Hin] _; [inversion Hin; lia|]. specialize (H1 _ Hin). simpl in H1. lia.
      * intros k v (Hin & Hk & Hmax). destruct Hin as [Hin|Hin]; [now inversion Hin|].
        specialize (H1 _ Hin). simpl in H1.
        specialize (Hmax k0 v0 (or_introl eq_refl)). lia.
      * intros H. specialize (H k0 v0 (or_introl eq_refl)). lia.
    + split; [|split].
      * destruct IHa as [(k & v & Hin & Hk & Hmax)|Hnone].
        -- left. exists k, v. split; [now right|]. split; [exact Hk|].
           intros k' v' [Hin'|Hin'] Hk'; [inversion Hin'; lia|eauto].
        -- right. intros k v [Hin|Hin]; [inversion Hin; lia|eauto].
      * intros k v (Hin & Hk & Hmax). apply (IHb k). destruct Hin as [Hin|Hin]; [inversion Hin; lia|].
        split; [exact Hin|]. split; [exact Hk|]. intros k' v' Hin' Hk'. apply (Hmax k' v'); [now right|exact Hk'].
      * intros H. apply IHc. intros k v Hin. apply (H k v). now right.
Qed.

(** ** update_sorted *)

Lemma take_ge_sdec {V} b (h : hist V) : sdec h -> sdec (take_ge b h).
Proof.
  induction h as [|[k v] t IH]; simpl; [tauto|]. intros [H1 H2].
  destruct (b <=? k); simpl; [|exact I]. split; [|auto].
  intros y Hy. apply H1. rewrite <- (take_drop_ge b t). apply in_or_app. now left.
Qed.

Lemma drop_ge_incl {V} b (h : hist V) x : In x (drop_ge b h) -> In x h.
Proof.
  intros H. rewrite <- (take_drop_ge b h). apply in_or_app. now right.
Qed.

Lemma drop_ge_sdec {V} b (h : hist V) : sdec h -> sdec (drop_ge b h).
Proof.
  induction h as [|[k v] t IH]; simpl; [tauto|]. intros [H1 H2].
  destruct (b <=? k); simpl; auto.
Qed.

Lemma drop_ge_all_lt {V} b (h : hist V) : sdec h -> forall x, In x (drop_ge b h) -> fst x < b.
Proof.
  induction h as [|[k v] t IH]; simpl; [tauto|]. intros [H1 H2] x.
  destruct (b <=? k) eqn:E; [auto|].
  intros [Hx|Hx]; [subst; simpl; lia|]. specialize (H1 x Hx). simpl in H1. lia.
Qed.

Lemma last_date_min {V} (h : hist V) k : sdec h -> last_date h = Some k ->
  forall x, In x h -> k <= fst x.
Proof.
  intros Hs HL x Hx. pose proof (last_date_spec h) as H. rewrite HL in H.
  destruct H as (h' & v & H). subst h. apply sdec_app_inv in Hs. destruct Hs as (_ & _ & Hs).
  apply in_app_or in Hx. destruct Hx as [Hx|[Hx|[]]].
  - specialize (Hs x (k, v) Hx (or_introl eq_refl)). simpl in Hs. lia.
  - subst. simpl. lia.
Qed.

Lemma update_range_sorted {V} (h : hist V) s e v :
  decreasing h -> (match e with Some e => s <= e | None => True end) ->
  decreasing (update_range h s e v).
Proof.
  intros Hdec Hse. apply decreasing_sdec. apply decreasing_sdec in Hdec.
  unfold update_range. destruct e as [e|].
  - set (b := e + 1). set (fut := take_ge b h). set (rest := drop_ge b h).
    assert (Hfut : sdec fut) by now apply take_ge_sdec.
    assert (Hrest : sdec rest) by now apply drop_ge_sdec.
    assert (Hrest_lt : forall x, In x rest -> fst x < b) by now apply drop_ge_all_lt.
    assert (Hfut_ge : forall x, In x fut -> b <= fst x).
    { intros [k v'] Hx. apply take_ge_all in Hx. exact Hx. }
    assert (Htail : sdec ((s, v) :: drop_ge s rest)).
    { simpl. split; [|now apply drop_ge_sdec]. intros y Hy. simpl. now apply (drop_ge_all_lt s rest). }
    apply sdec_app; [exact Hfut| |].
    + apply sdec_app; [|exact Htail|].
      * unfold reopen. destruct (last_date fut); [destruct (_ =? _)|]; simpl; auto;
          destruct rest as [|[? ?] ?]; simpl; auto; (split; [intros ? []|exact I]).
      * intros [kx vx] y Hx Hy. apply reopen_dates in Hx. subst kx. simpl.
        destruct Hy as [Hy|Hy]; [subst y; simpl; unfold b; lia|].
        pose proof (drop_ge_all_lt s rest Hrest y Hy). unfold b. lia.
    + intros x y Hx Hy. apply in_app_or in Hy. destruct Hy as [Hy|Hy].
      * (* a kept entry is strictly later than the re-opened one *)
        destruct y as [ky vy]. pose proof (reopen_dates _ _ _ _ _ Hy) as Hky. subst ky. simpl.
        unfold reopen in Hy. destruct (last_date fut) as [k|] eqn:HL.
        -- destruct (k =? b) eqn:E; [destruct Hy|].
           pose proof (last_date_min fut k Hfut HL x Hx).
           pose proof (last_date_spec fut) as HS. rewrite HL in HS. destruct HS as (h' & v' & HS).
           assert (b <= k). { apply (Hfut_ge (k, v')). rewrite HS. apply in_or_app. right. now left. }
           lia.
        -- pose proof (last_date_spec fut) as HS. rewrite HL in HS. rewrite HS in Hx. destruct Hx.
      * specialize (Hfut_ge x Hx).
        destruct Hy as [Hy|Hy]; [subst y; simpl; unfold b in *; lia|].
        pose proof (drop_ge_all_lt s rest Hrest y Hy). unfold b in *. lia.
  - simpl. split; [|now apply drop_ge_sdec]. intros y Hy. simpl. now apply (drop_ge_all_lt s h).
Qed.

(** ** updates_spec: any list of updates, against the abstract function of dates *)

Definition in_span (s : Z) (e : option Z) (d : Z) : bool :=
  (s <=? d) && match e with Some e => d <=? e | None => true end.

(** what one update does to the function  date -> value *)
Definition override {V} (f : Z -> option V) (u : upd V) : Z -> option V :=
  fun d => let '(s, e, v) := u in if in_span s e d then v else f d.

Definition well_formed {V} (u : upd V) : Prop :=
  match u with (s, Some e, _) => s <= e | (_, None, _) => True end.

Lemma update_range_spec {V} (h : hist V) s e v d :
  get_at (update_range h s e v) d = if in_span s e d then v else get_at h d.
Proof.
  unfold in_span. destruct e as [e|].
  - apply update_range_closed_spec.
  - rewrite update_range_open_spec. now rewrite andb_true_r.
Qed.

Lemma fold_override_ext {V} (us : list (upd V)) (f g : Z -> option V) :
  (forall d, f d = g d) -> forall d, fold_left override us f d = fold_left override us g d.
Proof.
  revert f g. induction us as [|[[s e] v] us IH]; simpl; intros f g H d; [apply H|].
  apply IH. intros d'. unfold override. now rewrite H.
Qed.

Lemma apply_updates_spec {V} (us : list (upd V)) (h : hist V) :
  forall d, get_at (apply_updates h us) d = fold_left override us (get_at h) d.
Proof.
  unfold apply_updates. revert h. induction us as [|[[s e] v] us IH]; simpl; intros h d; [reflexivity|].
  rewrite IH. apply fold_override_ext. intros d'. unfold override. apply update_range_spec.
Qed.

Lemma apply_updates_sorted {V} (us : list (upd V)) (h : hist V) :
  decreasing h -> Forall well_formed us -> decreasing (apply_updates h us).
Proof.
  unfold apply_updates. revert h. induction us as [|[[s e] v] us IH]; simpl; intros h Hd Hw; [exact Hd|].
  inversion Hw; subst. apply IH; [|assumption].
  apply update_range_sorted; [exact Hd|]. destruct e; simpl in *; auto.
Qed.

(** ** get_at_latest in the three forms quoted by props/C06.v *)

Lemma get_at_latest_exists {V} (h : hist V) (d : Z) : decreasing h ->
  (exists k v, In (k, v) h /\ k <= d
      /\ (forall k' v', In (k', v') h -> k' <= d -> k' <= k)
      /\ get_at h d = v)
  \/ ((forall k v, In (k, v) h -> d < k) /\ get_at h d = None).
Proof.
  intros Hdec. destruct (get_at_latest_lemma h d Hdec) as (Ha & Hb & Hc).
  destruct Ha as [(k & v & HL)|Hnone].
  - left. exists k, v. pose proof (Hb k v HL) as Hg. destruct HL as (H1 & H2 & H3). auto.
  - right. split; [exact Hnone|auto].
Qed.

Lemma get_at_latest_any {V} (h : hist V) (d k : Z) (v : option V) : decreasing h ->
  In (k, v) h -> k <= d -> (forall k' v', In (k', v') h -> k' <= d -> k' <= k) ->
  get_at h d = v.
Proof.
  intros Hdec H1 H2 H3. destruct (get_at_latest_lemma h d Hdec) as (_ & Hb & _).
  apply (Hb k v). unfold latest_entry. auto.
Qed.

(** holds for any list, sorted or not *)
Lemma get_at_before_first {V} (h : hist V) (d : Z) :
  (forall k v, In (k, v) h -> d < k) -> get_at h d = None.
Proof.
  induction h as [|[k v] t IH]; simpl; intros H; [reflexivity|].
  destruct (k <=? d) eqn:E.
  - specialize (H k v (or_introl eq_refl)). lia.
  - apply IH. intros k' v' Hin. apply (H k' v'). now right.
Qed.

(** the answer, when defined, is the value of an entry on or before the date *)
Lemma get_at_some_entry {V} (h : hist V) (d : Z) (x : V) :
  get_at h d = Some x -> exists k, In (k, Some x) h /\ k <= d.
Proof.
  induction h as [|[k v] t IH]; simpl; [discriminate|].
  destruct (k <=? d) eqn:E.
  - intros ->. exists k. split; [now left|lia].
  - intros H. destruct (IH H) as (k' & Hin & Hk). exists k'. split; [now right|exact Hk].
Qed.

(** ** The argument handling of update: which span a call denotes *)

(** the span (start, optional inclusive stop) of a call, or the refusal *)
Definition call_span (p : option period) (start stop : option Z) : res (Z * option Z) :=
  match p with
  | Some p =>
      match start, stop with
      | None, None =>
          match p_unit p with
          | Eternity => Err EValue
          | _ => Ok (ord (p_start p), Some (ord (Period.stop p)))
          end
      | _, _ => Err EType
      end
  | None =>
      match start with
      | None => Err EValue
      | Some s => Ok (s, stop)
      end
  end.

Lemma update_call {V} (h : hist V) p start stop v :
  update h p start stop v
  = match call_span p start stop with
    | Ok (s, e) => Ok (update_range h s e v)
    | Err x => Err x
    end.
Proof.
  unfold update, call_span. destruct p as [p|].
  - destruct start, stop; try reflexivity. destruct (p_unit p); reflexivity.
  - destruct start; reflexivity.
Qed.

Lemma update_period_spec {V} (h : hist V) (p : period) (v : option V) :
  p_unit p <> Eternity ->
  exists h', update h (Some p) None None v = Ok h'
    /\ forall d, get_at h' d
         = if (ord (p_start p) <=? d) && (d <=? ord (Period.stop p)) then v else get_at h d.
Proof.
  intros Hu. unfold update. destruct (p_unit p) eqn:E; try congruence;
    (eexists; split; [reflexivity|]; intros d; apply update_range_closed_spec).
Qed.

Lemma update_start_stop_spec {V} (h : hist V) (s e : Z) (v : option V) :
  exists h', update h None (Some s) (Some e) v = Ok h'
    /\ forall d, get_at h' d = if (s <=? d) && (d <=? e) then v else get_at h d.
Proof.
  eexists; split; [reflexivity|]. intros d. apply update_range_closed_spec.
Qed.

Lemma update_start_only_spec {V} (h : hist V) (s : Z) (v : option V) :
  exists h', update h None (Some s) None v = Ok h'
    /\ forall d, get_at h' d = if s <=? d then v else get_at h d.
Proof.
  eexists; split; [reflexivity|]. intros d. apply update_range_open_spec.
Qed.

Lemma update_refused {V} (h : hist V) (v : option V) :
  (forall p start stop, start <> None \/ stop <> None ->
     update h (Some p) start stop v = Err EType)
  /\ (forall stop, update h None None stop v = Err EValue)
  /\ (forall p, p_unit p = Eternity -> update h (Some p) None None v = Err EValue).
Proof.
  repeat split.
  - intros p start stop [H|H]; unfold update; destruct start, stop; try reflexivity; congruence.
  - intros p Hp. unfold update. now rewrite Hp.
Qed.

Lemma update_sorted_call {V} (h h' : hist V) p start stop v s e :
  decreasing h -> call_span p start stop = Ok (s, e) ->
  match e with Some e => s <= e | None => True end ->
  update h p start stop v = Ok h' -> decreasing h'.
Proof.
  intros Hd Hc Hw. rewrite update_call, Hc. intros H; inversion H; subst.
  now apply update_range_sorted.
Qed.

(** ** Any sequence of calls of update (a refused call leaves the history as it was) *)

Definition ucall (V : Type) := (option period * option Z * option Z * option V)%type.

Definition apply_call {V} (h : hist V) (c : ucall V) : hist V :=
  let '(p, s, e, v) := c in
  match update h p s e v with Ok h' => h' | Err _ => h end.

Definition override_call {V} (f : Z -> option V) (c : ucall V) : Z -> option V :=
  let '(p, s, e, v) := c in
  match call_span p s e with
  | Ok (a, b) => fun d => if in_span a b d then v else f d
  | Err _ => f
  end.

Lemma fold_override_call_ext {V} (cs : list (ucall V)) (f g : Z -> option V) :
  (forall d, f d = g d) ->
  forall d, fold_left override_call cs f d = fold_left override_call cs g d.
Proof.
  revert f g. induction cs as [|[[[p s] e] v] cs IH]; simpl; intros f g H d; [apply H|].
  apply IH. intros d'. destruct (call_span p s e) as [[a b]|]; [|apply H].
  now rewrite H.
Qed.

Lemma apply_calls_spec {V} (cs : list (ucall V)) (h : hist V) :
  forall d, get_at (fold_left apply_call cs h) d = fold_left override_call cs (get_at h) d.
Proof.
  revert h. induction cs as [|[[[p s] e] v] cs IH]; simpl; intros h d; [reflexivity|].
  rewrite IH. apply fold_override_call_ext. intros d'.
  rewrite update_call. destruct (call_span p s e) as [[a b]|]; [|reflexivity].
  apply update_range_spec.
Qed.

Definition call_well_formed {V} (c : ucall V) : Prop :=
  let '(p, s, e, _) := c in
  match call_span p s e with
  | Ok (a, Some b) => a <= b
  | _ => True
  end.

Lemma apply_calls_sorted {V} (cs : list (ucall V)) (h : hist V) :
  decreasing h -> Forall call_well_formed cs -> decreasing (fold_left apply_call cs h).
Proof.
  revert h. induction cs as [|[[[p s] e] v] cs IH]; simpl; intros h Hd Hw; [exact Hd|].
  inversion Hw as [|? ? Hc Hw']; subst. apply IH; [|exact Hw'].
  rewrite update_call. simpl in Hc. destruct (call_span p s e) as [[a b]|]; [|exact Hd].
  apply update_range_sorted; [exact Hd|]. destruct b; auto.
Qed.

(** ** The two sequence statements with the abstract side written out (props/C06.v) *)

Lemma fold_fun_ext {A V} (F G : (Z -> option V) -> A -> Z -> option V) :
  (forall f g u, (forall d, f d = g d) -> forall d, F f u d = G g u d) ->
  forall us f g, (forall d, f d = g d) -> forall d, fold_left F us f d = fold_left G us g d.
Proof.
  intros HFG. induction us as [|u us IH]; simpl; intros f g H d; [apply H|].
  apply IH. intros d'. now apply HFG.
Qed.

Lemma apply_updates_spec_explicit {V} (us : list (Z * option Z * option V)) (h : hist V) (d : Z) :
  get_at (apply_updates h us) d
  = fold_left (fun (f : Z -> option V) (u : Z * option Z * option V) =>
                 let '(s, e, v) := u in
                 fun d => if (s <=? d) && match e with Some e => d <=? e | None => true end
                          then v else f d)
              us (get_at h) d.
Proof.
  rewrite apply_updates_spec. apply fold_fun_ext; [|reflexivity].
  intros f g [[s e] v] H d'. unfold override, in_span. now rewrite H.
Qed.

Lemma apply_calls_spec_explicit {V}
    (cs : list (option period * option Z * option Z * option V)) (h : hist V) (d : Z) :
  get_at (fold_left (fun h c => let '(p, s, e, v) := c in
                       match update h p s e v with Ok h' => h' | Err _ => h end) cs h) d
  = fold_left (fun (f : Z -> option V) c =>
                 let '(p, s, e, v) := c in
                 match call_span p s e with
                 | Ok (a, b) =>
                     fun d => if (a <=? d) && match b with Some b => d <=? b | None => true end
                              then v else f d
                 | Err _ => f
                 end) cs (get_at h) d.
Proof.
  change (fold_left _ cs h) with (fold_left apply_call cs h).
  rewrite apply_calls_spec. apply fold_fun_ext; [|reflexivity].
  intros f g [[[p s] e] v] H d'. unfold override_call, in_span.
  destruct (call_span p s e) as [[a b]|]; [now rewrite H|apply H].
Qed.

(** ** A value of a type that is not allowed: the call is always refused *)

Lemma update_checked_ill_typed {V} (h : hist V) p start stop :
  update_checked h p start stop UIllTyped
  = match call_span p start stop with
    | Ok _ => Err EOther
    | Err x => Err x
    end.
Proof.
  unfold update_checked. rewrite update_call.
  destruct (call_span p start stop) as [[s e]|x]; reflexivity.
Qed.

Lemma update_checked_spec {V} (h : hist V) p start stop :
  (forall v, update_checked h p start stop (UVal v) = update h p start stop v)
  /\ (exists x, update_checked h p start stop (@UIllTyped V) = Err x).
Proof.
  split; [reflexivity|]. rewrite update_checked_ill_typed.
  destruct (call_span p start stop) as [[s e]|x]; eauto.
Qed.
