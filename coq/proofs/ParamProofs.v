(** Proofs about the parameter model (model/Param.v) for property C06. *)
From Coq Require Import ZArith List Bool Lia ZifyBool String.
From Verif Require Import Base Cal Period Param.
Import ListNotations.
Open Scope Z_scope.

(** ** get_at and the two scans of update *)

Lemma get_at_app_skip {V} (a b : hist V) d :
  (forall k v, In (k, v) a -> d < k) -> get_at (a ++ b) d = get_at b d.
Proof.
  induction a as [|[k v] a IH]; simpl; intros H; [reflexivity|].
  destruct (k <=? d) eqn:E.
  - specialize (H k v (or_introl eq_refl)). lia.
  - apply IH. intros k' v' Hin. apply (H k' v'). now right.
Qed.

Lemma take_ge_all {V} b (h : hist V) k v : In (k, v) (take_ge b h) -> b <= k.
Proof.
  induction h as [|[k' v'] h IH]; simpl; [tauto|].
  destruct (b <=? k') eqn:E; simpl; [|tauto].
  intros [H|H]; [inversion H; subst; lia|auto].
Qed.

Lemma take_drop_ge {V} b (h : hist V) : take_ge b h ++ drop_ge b h = h.
Proof.
  induction h as [|[k v] h IH]; simpl; [reflexivity|].
  destruct (b <=? k); simpl; [now rewrite IH|reflexivity].
Qed.

Lemma get_at_drop_ge {V} b (h : hist V) d : d < b -> get_at (drop_ge b h) d = get_at h d.
Proof.
  intros Hd. induction h as [|[k v] h IH]; simpl; [reflexivity|].
  destruct (b <=? k) eqn:E; simpl.
  - destruct (k <=? d) eqn:E2; [lia|exact IH].
  - reflexivity.
Qed.

Lemma drop_ge_head_lt {V} b (h : hist V) k v r : drop_ge b h = (k, v) :: r -> k < b.
Proof.
  induction h as [|[k' v'] h IH]; simpl; [discriminate|].
  destruct (b <=? k') eqn:E; [exact IH|].
  intros H; inversion H; subst; lia.
Qed.

(** the value in force from [b] on, read off the two halves of the split at [b] *)
Lemma last_date_spec {V} (h : hist V) :
  match last_date h with
  | None => h = []
  | Some k => exists h' v, h = h' ++ [(k, v)]
  end.
Proof.
  unfold last_date. destruct (rev h) as [|[k v] r] eqn:E.
  - apply (f_equal (@rev _)) in E. now rewrite rev_involutive in E.
  - exists (rev r), v. apply (f_equal (@rev _)) in E. rewrite rev_involutive in E. exact E.
Qed.

Lemma get_at_reopen {V} b (h : hist V) d : b <= d ->
  get_at (take_ge b h ++ reopen b (take_ge b h) (drop_ge b h)) d = get_at h d.
Proof.
  intros Hd.
  assert (Hrest : get_at (drop_ge b h) d = match drop_ge b h with (_, ov) :: _ => ov | [] => None end).
  { destruct (drop_ge b h) as [|[k0 ov] r] eqn:E; simpl; [reflexivity|].
    apply drop_ge_head_lt in E. destruct (k0 <=? d) eqn:E2; [reflexivity|lia]. }
  assert (Hgen : forall a, get_at (a ++ match drop_ge b h with (_, ov) :: _ => [(b, ov)] | [] => [(b, None)] end) d
                           = get_at (a ++ drop_ge b h) d).
  { induction a as [|[k v] a IH]; simpl.
    - rewrite Hrest. destruct (drop_ge b h) as [|[k0 ov] r]; simpl;
        destruct (b <=? d) eqn:E; try reflexivity; lia.
    - now rewrite IH. }
  unfold reopen. pose proof (last_date_spec (take_ge b h)) as HL.
  destruct (last_date (take_ge b h)) as [k|].
  - destruct (k =? b) eqn:E.
    + destruct HL as (h' & v & HL). rewrite app_nil_r.
      rewrite <- (take_drop_ge b h) at 2. rewrite HL. rewrite <- !app_assoc. simpl.
      (* the entry dated b answers every d >= b, so what follows it is never reached *)
      clear HL. induction h' as [|[k' v'] h' IH]; simpl.
      * destruct (k <=? d) eqn:E2; [reflexivity|lia].
      * now rewrite IH.
    + rewrite Hgen. now rewrite take_drop_ge.
  - rewrite Hgen. now rewrite take_drop_ge.
Qed.

Lemma reopen_dates {V} b (f r : hist V) k v : In (k, v) (reopen b f r) -> k = b.
Proof.
  unfold reopen. destruct (last_date f) as [k0|].
  - destruct (k0 =? b); simpl; [tauto|].
    destruct r as [|[? ?] ?]; simpl; intros [H|[]]; now inversion H.
  - destruct r as [|[? ?] ?]; simpl; intros [H|[]]; now inversion H.
Qed.

Lemma get_at_app_answered {V} (a c : hist V) d :
  (exists k v, In (k, v) a /\ k <= d) -> get_at (a ++ c) d = get_at a d.
Proof.
  induction a as [|[k0 v0] a IH]; intros (k & v & Hin & Hk); simpl in *; [tauto|].
  destruct (k0 <=? d) eqn:E; [reflexivity|].
  apply IH. destruct Hin as [Hin|Hin]; [inversion Hin; subst; lia|eauto].
Qed.

(** after the split at [b], some entry of  future ++ reopened  is dated exactly [b]
    or the kept part is non-empty ... in any case an entry <= d exists for d >= b *)
Lemma reopen_answers {V} b (f r : hist V) d : b <= d ->
  exists k v, In (k, v) (f ++ reopen b f r) /\ k <= d.
Proof.
  intros Hd. unfold reopen. pose proof (last_date_spec f) as HL.
  assert (Hre : exists k v, In (k, v) (f ++ match r with (_, ov) :: _ => [(b, ov)] | [] => [(b, None)] end) /\ k <= d).
  { destruct r as [|[k0 ov] r'].
    - exists b, None. split; [apply in_or_app; right; now left|lia].
    - exists b, ov. split; [apply in_or_app; right; now left|lia]. }
  destruct (last_date f) as [k|]; [|exact Hre].
  destruct (k =? b) eqn:E; [|exact Hre].
  destruct HL as (h' & v & HL). exists k, v. rewrite app_nil_r. rewrite HL.
  split; [apply in_or_app; right; now left|lia].
Qed.

(** ** update_spec: no hypothesis on the history, none on the bounds *)

Lemma update_range_closed_spec {V} (h : hist V) s e v d :
  get_at (update_range h s (Some e) v) d
  = if (s <=? d) && (d <=? e) then v else get_at h d.
Proof.
  unfold update_range.
  set (b := e + 1). set (fut := take_ge b h). set (rest := drop_ge b h).
  destruct (b <=? d) eqn:Eb.
  - (* after the span *)
    replace ((s <=? d) && (d <=? e)) with false by lia.
    rewrite app_assoc. rewrite get_at_app_answered by (apply reopen_answers; lia).
    apply get_at_reopen. lia.
  - (* inside or before the span: the kept future entries and the re-opened one are later *)
    rewrite app_assoc. rewrite get_at_app_skip.
    2:{ intros k v' Hin. apply in_app_or in Hin. destruct Hin as [Hin|Hin].
        - apply take_ge_all in Hin. lia.
        - apply reopen_dates in Hin. lia. }
    simpl. destruct (s <=? d) eqn:Es.
    + assert (Hde : (d <=? e) = true) by (unfold b in Eb; lia). now rewrite Hde.
    + simpl. rewrite get_at_drop_ge by lia. unfold rest. now rewrite get_at_drop_ge by lia.
Qed.

Lemma update_range_open_spec {V} (h : hist V) s v d :
  get_at (update_range h s None v) d = if s <=? d then v else get_at h d.
Proof.
  unfold update_range. simpl. destruct (s <=? d) eqn:E; [reflexivity|].
  apply get_at_drop_ge. lia.
Qed.
