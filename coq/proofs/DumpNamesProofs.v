(** C19 with the real file names: the round-trip hypothesis of proofs/DumpProofs.v is
    discharged by C05's theorem (proofs/PeriodStrProofs.v: period_roundtrip_lemma). *)
From Coq Require Import ZArith List Bool String Lia.
From Verif Require Import Base Cal Tables Period PeriodStr PeriodStrSpec PeriodStrProofs
                          Group Engine EngineProofs Dump DumpNames DumpProofs.
Import ListNotations.
Open Scope Z_scope.

(** What a holder can keep and a file name can carry: a period in the domain of C05's
    round trip (the eternity period, or a real date with a four-digit year and a start
    aligned to the unit) of size one - so twelve months, which print as one year, cannot
    occur. *)
Definition storable_real (p : period) : Prop :=
  claimed p /\ (p_size p = 1 \/ p = eternity_period).

Lemma real_roundtrip p : storable_real p -> parse_period (show_real p) = Ok p.
Proof.
  intros [Hc Hs]. destruct (period_roundtrip_lemma p Hc) as [s [q [E1 [E2 [_ [_ [_ [_ Hq]]]]]]]].
  unfold show_real. rewrite E1, E2.
  assert (Hif : unit_eqb (p_unit p) Month && (p_size p =? 12) = false).
  { destruct Hs as [Hs| ->]; [|reflexivity]. rewrite Hs. apply andb_false_r. }
  rewrite Hif in Hq. now subst q.
Qed.

Theorem restore_dump_identity_real :
  forall sy og u, dumpable storable_real sy og u ->
  exists f u', dump_simulation show_real sy og u [] = Ok f
    /\ restore_simulation parse_period sy og f = Ok u'
    /\ (forall k, lookup k (cache (u_st u')) = lookup k (cache (u_st u)))
    /\ stack (u_st u') = [] /\ invalid (u_st u') = []
    /\ same_structure og u u'
    /\ pop_of og u' = pop_of og u.
Proof. exact (restore_dump_identity_proof show_real parse_period storable_real real_roundtrip). Qed.

Theorem dump_restore_run_real :
  forall sy og u, dumpable storable_real sy og u -> stack (u_st u) = [] -> invalid (u_st u) = [] ->
  exists f u', dump_simulation show_real sy og u [] = Ok f
    /\ restore_simulation parse_period sy og f = Ok u'
    /\ forall fuel rs,
         snd (Engine.run fuel sy (pop_of og u') (u_st u') rs)
         = snd (Engine.run fuel sy (pop_of og u) (u_st u) rs).
Proof. exact (dump_restore_run_proof show_real parse_period storable_real real_roundtrip). Qed.

Theorem file_name_injective_real : forall p q, storable_real p -> storable_real q ->
  file_name show_real p = file_name show_real q -> p = q.
Proof. exact (file_name_injective show_real parse_period storable_real real_roundtrip). Qed.

(** Storability is a property of the stored periods only. *)
Lemma dumpable_change_storable (S1 S2 : period -> Prop) sy og u :
  dumpable S1 sy og u ->
  (forall k a, lookup k (cache (u_st u)) = Some a -> S2 (snd k)) ->
  dumpable S2 sy og u.
Proof.
  intros [Hk [Hp Hg]] HS. split; [|split; assumption].
  intros k a Hl. destruct (Hk k a Hl) as [x [E1 [E2 [E3 [E4 _]]]]].
  exists x. repeat split; auto. eapply HS; eauto.
Qed.
