(** Termination of the lazy evaluator, for EVERY rule system (spirals, cycles, unknown
    variables, raising formulas): the fuel of [calc] is never exhausted.

    The argument.  A formula of variable [v] is evaluated (the only place where nested
    calculations start) only when fewer than [max_loops] EARLIER frames of [v] are on the
    evaluation stack; so nested calculations always start from a stack on which every
    variable of the system has at most [max_loops] frames and no unknown variable has any
    ([Good]).  Such a stack has at most [max_loops * |vars|] frames (pigeonhole).  Every
    nested calculation is one frame deeper and every calculation restores the stack
    (EngineC17Proofs.calc_stack), hence fuel [max_loops * |vars| + 1 - depth] is enough at
    depth [depth]: [min_fuel sy = S (max_loops sy * length (vars sy))] at top level.
    [enough_fuel sy = S ((max_loops sy + 2) * length (vars sy))] is larger. *)
From Coq Require Import ZArith List Bool Arith Lia.
From Verif Require Import Base Cal Tables Period Np Group Param Engine EngineProofs EngineC17Proofs
  EngineFuelProofsNF.
Import ListNotations.
Open Scope nat_scope.

Definition min_fuel (sy : sys) : nat := S (max_loops sy * length (vars sy)).

Lemma min_fuel_le_enough sy : min_fuel sy <= enough_fuel sy.
Proof. unfold min_fuel, enough_fuel. nia. Qed.

(** * Two instances of the generic evaluator that agree on the states satisfying [P] *)

Section Agree.
  Context {S : Type}.
  Variable sy : sys.
  Variable pp : popu.
  Variable rec1 rec2 : S -> nat -> period -> S * res val.
  Variable P : S -> Prop.
  Hypothesis Hrec : forall s w q, P s ->
    rec1 s w q = rec2 s w q /\ P (fst (rec2 s w q)) /\ NF (snd (rec2 s w q)).

  Lemma NF_err_inv {A} (e : err) : NF (@Err A e) -> forall B, NF (@Err B e).
  Proof. intros H B E. apply H. now inversion E. Qed.

  Lemma sum_calc_agree : forall subs w acc s, P s ->
    sum_calc rec1 s w subs acc = sum_calc rec2 s w subs acc
    /\ P (fst (sum_calc rec2 s w subs acc)) /\ NF (snd (sum_calc rec2 s w subs acc)).
  Proof.
    induction subs as [|q r IH]; intros w acc s Hs; cbn [sum_calc].
    - repeat split; auto. apply NF_ok.
    - destruct (Hrec s w q Hs) as (E & HP & HN). rewrite E.
      destruct (rec2 s w q) as [s1 r1]. cbn [fst snd] in *.
      destruct r1 as [a|e]; cbn [fst snd]; auto.
  Qed.

  Lemma calc_add_agree : forall w x q s, P s ->
    calc_add rec1 s w x q = calc_add rec2 s w x q
    /\ P (fst (calc_add rec2 s w x q)) /\ NF (snd (calc_add rec2 s w x q)).
  Proof.
    intros w x q s Hs. unfold calc_add.
    assert (HV : NF (@Err val EValue)) by (apply NF_err; discriminate).
    destruct (_ <? _)%Z; cbn [fst snd]; auto.
    destruct (unit_eqb _ _); cbn [fst snd]; auto.
    destruct (negb _); cbn [fst snd]; auto.
    pose proof (NF_subperiods q (v_unit x)) as Hsp.
    destruct (subperiods _ _); cbn [fst snd].
    - now apply sum_calc_agree.
    - repeat split; auto. eapply NF_err_inv; eauto.
  Qed.

  Lemma calc_divide_agree : forall w x q s, P s ->
    calc_divide rec1 s w x q = calc_divide rec2 s w x q
    /\ P (fst (calc_divide rec2 s w x q)) /\ NF (snd (calc_divide rec2 s w x q)).
  Proof.
    intros w x q s Hs. unfold calc_divide.
    assert (HV : NF (@Err (val * Z) EValue)) by (apply NF_err; discriminate).
    destruct (_ || _); cbn [fst snd]; auto.
    destruct (negb (dated_unit (v_unit x))); cbn [fst snd]; auto.
    destruct (_ || _); cbn [fst snd]; auto.
    pose proof (NF_divide_period x q) as Hdp.
    destruct (divide_period _ _) as [cp|]; cbn [fst snd].
    2:{ repeat split; auto. eapply NF_err_inv; eauto. }
    pose proof (NF_divide_denominator q cp) as Hdd.
    destruct (divide_denominator _ _); cbn [fst snd].
    2:{ repeat split; auto. eapply NF_err_inv; eauto. }
    destruct (Hrec s w cp Hs) as (E & HP & HN). rewrite E.
    destruct (rec2 s w cp) as [s1 r1]. cbn [fst snd] in *.
    destruct r1; cbn [fst snd]; repeat split; auto.
    - apply NF_ok.
    - eapply NF_err_inv; eauto.
  Qed.

  Lemma call_agree : forall c w q o s, P s ->
    call rec1 sy c s w q o = call rec2 sy c s w q o
    /\ P (fst (call rec2 sy c s w q o)) /\ NF (snd (call rec2 sy c s w q o)).
  Proof.
    intros c w q o s Hs. unfold call.
    assert (HV : NF (@Err val EValue)) by (apply NF_err; discriminate).
    assert (HF : NF (@Err val ENotFound)) by (apply NF_err; discriminate).
    destruct (nth_error (vars sy) w) as [x|] eqn:Ex; cbn [fst snd]; auto.
    destruct (negb _); cbn [fst snd]; auto.
    destruct o; cbn [fst snd]; auto.
    - now apply calc_add_agree.
    - destruct (calc_divide_agree w x q s Hs) as (E & HP & HN). rewrite E.
      destruct (calc_divide rec2 s w x q) as [s1 r1]. cbn [fst snd] in *.
      destruct r1 as [[a d]|]; cbn [fst snd]; repeat split; auto.
      + apply NF_ok.
      + eapply NF_err_inv; eauto.
  Qed.

  Lemma eval_agree : forall e c s p, P s ->
    eval rec1 sy pp c s p e = eval rec2 sy pp c s p e
    /\ P (fst (eval rec2 sy pp c s p e)) /\ NF (snd (eval rec2 sy pp c s p e)).
  Proof.
    induction e as [z|w pt o|op a IHa b IHb|a IHa|cn IHc a IHa b IHb|k|g role a IHa|role|role a IHa|f|k];
      intros c s p Hs; cbn [eval].
    - repeat split; auto. apply NF_ok.
    - (* EDep *)
      pose proof (NF_apply_ptrans pt p) as Hpt.
      destruct (apply_ptrans pt p); cbn [fst snd].
      + now apply call_agree.
      + repeat split; auto. eapply NF_err_inv; eauto.
    - (* EBin *)
      destruct (IHa c s p Hs) as (E1 & HP1 & HN1). rewrite E1.
      destruct (eval rec2 sy pp c s p a) as [s1 r1]. cbn [fst snd] in *.
      destruct r1 as [x|]; cbn [fst snd]; auto.
      destruct (IHb c s1 p HP1) as (E2 & HP2 & HN2). rewrite E2.
      destruct (eval rec2 sy pp c s1 p b) as [s2 r2]. cbn [fst snd] in *.
      destruct r2; cbn [fst snd]; repeat split; auto. apply NF_ok.
    - (* ENot *)
      destruct (IHa c s p Hs) as (E1 & HP1 & HN1). rewrite E1.
      destruct (eval rec2 sy pp c s p a) as [s1 r1]. cbn [fst snd] in *.
      repeat split; auto. now apply NF_rmap.
    - (* EWhere *)
      destruct (IHc c s p Hs) as (E1 & HP1 & HN1). rewrite E1.
      destruct (eval rec2 sy pp c s p cn) as [s1 r1]. cbn [fst snd] in *.
      destruct r1 as [x|]; cbn [fst snd]; auto.
      destruct (IHa c s1 p HP1) as (E2 & HP2 & HN2). rewrite E2.
      destruct (eval rec2 sy pp c s1 p a) as [s2 r2]. cbn [fst snd] in *.
      destruct r2 as [y|]; cbn [fst snd]; auto.
      destruct (IHb c s2 p HP2) as (E3 & HP3 & HN3). rewrite E3.
      destruct (eval rec2 sy pp c s2 p b) as [s3 r3]. cbn [fst snd] in *.
      destruct r3; cbn [fst snd]; repeat split; auto. apply NF_ok.
    - (* EParam *)
      assert (HF : NF (@Err val ENotFound)) by (apply NF_err; discriminate).
      destruct (nth_error (params sy) k); cbn [fst snd]; auto.
      destruct (get_at _ _); cbn [fst snd]; auto. repeat split; auto. apply NF_ok.
    - (* EAgg *)
      destruct (IHa EPerson s p Hs) as (E1 & HP1 & HN1). rewrite E1.
      destruct (eval rec2 sy pp EPerson s p a) as [s1 r1]. cbn [fst snd] in *.
      repeat split; auto. apply NF_bind; auto. intro x. apply NF_agg.
    - (* ENb *)
      repeat split; auto. apply NF_nb_persons.
    - (* EProject *)
      destruct (IHa EGroup s p Hs) as (E1 & HP1 & HN1). rewrite E1.
      destruct (eval rec2 sy pp EGroup s p a) as [s1 r1]. cbn [fst snd] in *.
      repeat split; auto. apply NF_bind; auto. intro x. apply NF_project.
    - (* EField *)
      repeat split; auto. apply NF_ok.
    - (* ERaise *)
      destruct (existsb _ _); cbn [fst snd]; repeat split; auto; [apply NF_err; discriminate|apply NF_ok].
  Qed.
End Agree.

(** * Stacks that nested calculations start from *)

Definition count_var (w : nat) (stk : list key) : nat := length (prev_periods w stk).

Lemma count_var_cons w k stk :
  count_var w (k :: stk) = (if Nat.eqb (fst k) w then 1 else 0) + count_var w stk.
Proof. unfold count_var, prev_periods. cbn [filter]. destruct (Nat.eqb (fst k) w); reflexivity. Qed.

(** Only variables of the system (index below [n]), each at most [L] times. *)
Definition Good (n L : nat) (stk : list key) : Prop :=
  (forall k, In k stk -> fst k < n) /\ (forall w, count_var w stk <= L).

Lemma Good_nil n L : Good n L [].
Proof. split; [intros k []|intro w; cbn; lia]. Qed.

Lemma Good_push n L v p stk : Good n L stk -> v < n -> count_var v stk < L -> Good n L ((v, p) :: stk).
Proof.
  intros [H1 H2] Hv Hc. split.
  - intros k [<-|Hk]; auto.
  - intro w. rewrite count_var_cons. cbn [fst].
    destruct (Nat.eqb_spec v w) as [<-|_]; [lia|]. apply H2.
Qed.

Lemma filter_filter_length {A} (f g : A -> bool) l :
  length (filter f (filter g l)) <= length (filter f l).
Proof.
  induction l as [|x l IH]; cbn [filter]; [auto|].
  destruct (g x); cbn [filter]; destruct (f x); cbn [length]; lia.
Qed.

(** Pigeonhole: a good stack has at most [L * n] frames. *)
Lemma Good_length : forall n L stk, Good n L stk -> length stk <= L * n.
Proof.
  induction n as [|n IH]; intros L stk [H1 H2].
  - destruct stk as [|k r]; [cbn; lia|]. specialize (H1 k (or_introl eq_refl)). lia.
  - pose (rest := filter (fun k : key => negb (Nat.eqb (fst k) n)) stk).
    assert (Hlen : length stk = count_var n stk + length rest).
    { unfold count_var, prev_periods, rest. rewrite map_length.
      clear. induction stk as [|k r IHr]; cbn [filter]; [reflexivity|].
      destruct (Nat.eqb (fst k) n); cbn [negb length]; lia. }
    assert (Hrest : Good n L rest).
    { split.
      - intros k Hk. unfold rest in Hk. apply filter_In in Hk as [Hk Hne].
        specialize (H1 k Hk). apply negb_true_iff, Nat.eqb_neq in Hne. lia.
      - intro w. specialize (H2 w). unfold rest, count_var, prev_periods in *.
        rewrite map_length in *. eapply Nat.le_trans; [apply filter_filter_length|exact H2]. }
    specialize (IH L rest Hrest). specialize (H2 n). nia.
Qed.

(** * The main induction *)

Lemma NF_snd_pair {A B} (a : A) (r : res B) : NF r -> NF (snd (a, r)).
Proof. auto. Qed.

Section Fuel.
  Variable sy : sys.
  Variable pp : popu.
  Let n := length (vars sy).
  Let L := max_loops sy.

  (** Same frame, two instances of [rec] that agree on the states with this stack. *)
  Lemma calc_body_agree (rec1 rec2 : st -> nat -> period -> st * res val) s0 v p :
    (forall x, nth_error (vars sy) v = Some x ->
       count_var v (tl (stack s0)) < L ->
       forall s w q, stack s = stack s0 ->
         rec1 s w q = rec2 s w q /\ stack (fst (rec2 s w q)) = stack s0 /\ NF (snd (rec2 s w q))) ->
    calc_body rec1 sy pp s0 v p = calc_body rec2 sy pp s0 v p
    /\ NF (snd (calc_body rec2 sy pp s0 v p)).
  Proof.
    intro Hrec. unfold calc_body.
    destruct (nth_error (vars sy) v) as [x|] eqn:Ex; [|split; [reflexivity|apply NF_err; discriminate]].
    pose proof (NF_check_consistency x p) as Hcc.
    destruct (check_consistency x p) as [u|e]; [|split; [reflexivity|]; cbn [snd]; eapply NF_err_inv; eauto].
    destruct (get_array pp x s0 v p); [split; [reflexivity|apply NF_ok]|].
    destruct (existsb _ _); [split; [reflexivity|apply NF_err; discriminate]|].
    destruct (Nat.leb_spec (max_loops sy) (length (prev_periods v (tl (stack s0))))) as [Hl|Hl];
      [split; [reflexivity|apply NF_ok]|].
    pose proof (NF_formula_at x p) as Hfa.
    destruct (formula_at x p) as [[e|]|er];
      [|split; [reflexivity|apply NF_ok]|split; [reflexivity|]; cbn [snd]; eapply NF_err_inv; eauto].
    destruct (eval_agree sy pp rec1 rec2 (fun s => stack s = stack s0) (Hrec x eq_refl Hl)
                e (v_ent x) s0 p eq_refl) as (E & _ & HN).
    rewrite E. destruct (eval rec2 sy pp (v_ent x) s0 p e) as [s1 r]. cbn [snd] in HN.
    split; [reflexivity|]. destruct r; cbn [snd]; [apply NF_ok|]. eapply NF_err_inv; eauto.
  Qed.

  Theorem calc_fuel_gen : forall f s v p,
    Good n L (stack s) -> L * n < f + length (stack s) ->
    (forall f', f <= f' -> calc f' sy pp s v p = calc f sy pp s v p)
    /\ NF (snd (calc f sy pp s v p)).
  Proof.
    induction f as [|g IH]; intros s v p HG Hf.
    - pose proof (Good_length n L _ HG). lia.
    - assert (Hb : forall g', g <= g' ->
                calc_body (calc g' sy pp) sy pp (push (v, p) s) v p
                = calc_body (calc g sy pp) sy pp (push (v, p) s) v p
                /\ NF (snd (calc_body (calc g sy pp) sy pp (push (v, p) s) v p))).
      { intros g' Hg'. apply calc_body_agree.
        intros x Ex Hc s' w q Hs'. cbn [push stack tl] in Hc, Hs'.
        assert (HG' : Good n L (stack s')).
        { rewrite Hs'. apply Good_push; auto. unfold n. apply nth_error_Some. congruence. }
        assert (Hf' : L * n < g + length (stack s')) by (rewrite Hs'; cbn [length]; lia).
        destruct (IH s' w q HG' Hf') as [I1 I2].
        split; [now apply I1|]. split; [|exact I2].
        rewrite calc_stack. exact Hs'. }
      split.
      + intros f' Hf'. destruct f' as [|g']; [lia|]. cbn [calc].
        destruct (Hb g' ltac:(lia)) as [E _]. now rewrite E.
      + cbn [calc]. destruct (Hb g (le_n g)) as [_ HN].
        destruct (calc_body (calc g sy pp) sy pp (push (v, p) s) v p) as [s1 r]. exact HN.
  Qed.

  (** From a state between two requests (empty stack): fuel never runs out and the fuel
      beyond [min_fuel] is never looked at. *)
  Theorem calc_min_fuel : forall s v p, stack s = [] ->
    (forall f, min_fuel sy <= f -> calc f sy pp s v p = calc (min_fuel sy) sy pp s v p)
    /\ snd (calc (min_fuel sy) sy pp s v p) <> Err EFuel.
  Proof.
    intros s v p Hs. apply calc_fuel_gen.
    - rewrite Hs. apply Good_nil.
    - rewrite Hs. unfold min_fuel. fold n L. cbn [length]. lia.
  Qed.

  Theorem calc_fuel_irrelevant : forall f s v p, stack s = [] -> enough_fuel sy <= f ->
    calc f sy pp s v p = calc (enough_fuel sy) sy pp s v p.
  Proof.
    intros f s v p Hs Hf. destruct (calc_min_fuel s v p Hs) as [H _].
    pose proof (min_fuel_le_enough sy).
    rewrite (H f ltac:(lia)), (H (enough_fuel sy) ltac:(lia)). reflexivity.
  Qed.

  Theorem calc_enough_fuel : forall s v p, stack s = [] ->
    snd (calc (enough_fuel sy) sy pp s v p) <> Err EFuel.
  Proof.
    intros s v p Hs. destruct (calc_min_fuel s v p Hs) as [H HN].
    now rewrite (H (enough_fuel sy) (min_fuel_le_enough sy)).
  Qed.

  (** * Top-level requests *)

  Definition no_fuel_answer (a : answer) : Prop := a <> AErr EFuel.

  Lemma calc_top_agree f : min_fuel sy <= f -> forall s w q, stack s = [] ->
    calc f sy pp s w q = calc (min_fuel sy) sy pp s w q
    /\ stack (fst (calc (min_fuel sy) sy pp s w q)) = []
    /\ NF (snd (calc (min_fuel sy) sy pp s w q)).
  Proof.
    intros Hf s w q Hs. destruct (calc_min_fuel s w q Hs) as [H HN].
    split; [now apply H|]. split; [|exact HN]. now rewrite calc_stack.
  Qed.

  Theorem step_min_fuel : forall f s r, stack s = [] -> min_fuel sy <= f ->
    step f sy pp s r = step (min_fuel sy) sy pp s r
    /\ no_fuel_answer (snd (step (min_fuel sy) sy pp s r)).
  Proof.
    intros f s r Hs Hf. unfold no_fuel_answer.
    destruct r as [v p|v p|v p|v p a|v p|v p|k on]; cbn [step].
    - destruct (calc_top_agree f Hf s v p Hs) as (E & _ & HN). rewrite E.
      destruct (calc (min_fuel sy) sy pp s v p) as [s1 a]. cbn [snd] in *.
      split; [reflexivity|]. destruct a; cbn [of_res]; [discriminate|].
      intro H. apply HN. now inversion H.
    - destruct (nth_error (vars sy) v) as [x|]; [|split; [reflexivity|discriminate]].
      destruct (calc_add_agree (calc f sy pp) (calc (min_fuel sy) sy pp) (fun s => stack s = [])
                  (calc_top_agree f Hf) v x p s Hs) as (E & _ & HN). rewrite E.
      destruct (calc_add (calc (min_fuel sy) sy pp) s v x p) as [s1 a]. cbn [snd] in *.
      split; [reflexivity|]. destruct a; cbn [of_res]; [discriminate|].
      intro H. apply HN. now inversion H.
    - destruct (nth_error (vars sy) v) as [x|]; [|split; [reflexivity|discriminate]].
      destruct (calc_divide_agree (calc f sy pp) (calc (min_fuel sy) sy pp) (fun s => stack s = [])
                  (calc_top_agree f Hf) v x p s Hs) as (E & _ & HN). rewrite E.
      destruct (calc_divide (calc (min_fuel sy) sy pp) s v x p) as [s1 a]. cbn [snd] in *.
      split; [reflexivity|]. destruct a as [[a d]|]; [discriminate|].
      intro H. apply HN. now inversion H.
    - split; [reflexivity|]. unfold set_input.
      destruct (nth_error (vars sy) v) as [x|]; [|discriminate].
      repeat (match goal with |- context [if ?b then _ else _] => destruct b end; try discriminate).
    - split; [reflexivity|]. destruct (nth_error (vars sy) v); discriminate.
    - split; [reflexivity|]. destruct (nth_error (vars sy) v) as [x|]; [|discriminate].
      destruct (get_array pp x s v p); discriminate.
    - split; [reflexivity|discriminate].
  Qed.
End Fuel.

Lemma min_fuel_sys_after sy r : min_fuel (sys_after sy r) = min_fuel sy.
Proof. destruct r; reflexivity. Qed.

Lemma enough_fuel_sys_after sy r : enough_fuel (sys_after sy r) = enough_fuel sy.
Proof. destruct r; reflexivity. Qed.

Theorem run_min_fuel : forall rs f sy pp s, stack s = [] -> min_fuel sy <= f ->
  run f sy pp s rs = run (min_fuel sy) sy pp s rs
  /\ Forall no_fuel_answer (snd (run (min_fuel sy) sy pp s rs)).
Proof.
  induction rs as [|r rs IH]; intros f sy pp s Hs Hf; cbn [run]; [split; [reflexivity|constructor]|].
  destruct (step_min_fuel sy pp f s r Hs Hf) as [E HN]. rewrite E.
  pose proof (step_stack (min_fuel sy) sy pp s r) as Hst.
  destruct (step (min_fuel sy) sy pp s r) as [s1 a]. cbn [fst snd] in *.
  assert (Hs1 : stack s1 = []) by congruence.
  destruct (IH f (sys_after sy r) pp s1 Hs1 ltac:(now rewrite min_fuel_sys_after)) as [E1 HN1].
  destruct (IH (min_fuel sy) (sys_after sy r) pp s1 Hs1 ltac:(now rewrite min_fuel_sys_after)) as [E2 _].
  rewrite E1, E2.
  destruct (run (min_fuel (sys_after sy r)) (sys_after sy r) pp s1 rs) as [s2 l]. cbn [snd] in *.
  split; [reflexivity|]. constructor; auto.
Qed.

(** ... in terms of [enough_fuel], the fuel every top-level request and the correspondence
    check use *)

Theorem step_fuel_irrelevant : forall sy pp f s r, stack s = [] -> enough_fuel sy <= f ->
  step f sy pp s r = step (enough_fuel sy) sy pp s r.
Proof.
  intros sy pp f s r Hs Hf. pose proof (min_fuel_le_enough sy).
  destruct (step_min_fuel sy pp f s r Hs ltac:(lia)) as [E1 _].
  destruct (step_min_fuel sy pp (enough_fuel sy) s r Hs ltac:(lia)) as [E2 _]. congruence.
Qed.

Theorem step_enough_fuel : forall sy pp s r, stack s = [] ->
  snd (step (enough_fuel sy) sy pp s r) <> AErr EFuel.
Proof.
  intros sy pp s r Hs.
  destruct (step_min_fuel sy pp (enough_fuel sy) s r Hs (min_fuel_le_enough sy)) as [E HN].
  rewrite E. exact HN.
Qed.

Theorem run_fuel_irrelevant : forall sy pp f s rs, stack s = [] -> enough_fuel sy <= f ->
  run f sy pp s rs = run (enough_fuel sy) sy pp s rs.
Proof.
  intros sy pp f s rs Hs Hf. pose proof (min_fuel_le_enough sy).
  destruct (run_min_fuel rs f sy pp s Hs ltac:(lia)) as [E1 _].
  destruct (run_min_fuel rs (enough_fuel sy) sy pp s Hs ltac:(lia)) as [E2 _]. congruence.
Qed.

Theorem run_enough_fuel : forall sy pp s rs, stack s = [] ->
  ~ In (AErr EFuel) (snd (run (enough_fuel sy) sy pp s rs)).
Proof.
  intros sy pp s rs Hs Hin.
  destruct (run_min_fuel rs (enough_fuel sy) sy pp s Hs (min_fuel_le_enough sy)) as [E HN].
  rewrite E in Hin. rewrite Forall_forall in HN. exact (HN _ Hin eq_refl).
Qed.
