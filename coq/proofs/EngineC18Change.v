(** C18 - removing the cause of a failure by changing the rule system under a live
    simulation: the class of a variable is replaced / updated, or a variable that was
    unknown is added (harness/c18.py requests "replace" and "addvar"; Corr_C18.CSeq carries
    the machine state from one rule system to the next).

    The fact behind both: a state whose cache holds only meanings of [sy] holds only
    meanings of [sy'] as soon as, at every (variable, period) where the two systems do not
    run the same formula, the variable had NO value under [sy] - a computation that
    succeeded cannot have read a computation that failed. *)
From Coq Require Import ZArith List Bool Arith Lia.
From Verif Require Import Base Cal Tables Period Np Group Param Engine EngineProofs EngineC18Proofs.
Import ListNotations.
Open Scope nat_scope.

(** * Changed rule systems *)

(** the attributes of a variable other than its dated formulas and its end date *)
Definition same_fields (x x' : var) : Prop :=
  v_ent x' = v_ent x /\ v_type x' = v_type x /\ v_unit x' = v_unit x
  /\ v_default x' = v_default x /\ v_neutral x' = v_neutral x.

Fixpoint replace_nth {A} (n : nat) (l : list A) (y : A) : list A :=
  match l, n with
  | [], _ => []
  | _ :: r, O => y :: r
  | h :: r, S m => h :: replace_nth m r y
  end.

(** TaxBenefitSystem.replace_variable / update_variable: variable number [v] becomes [x'] *)
Definition replace_var (sy : sys) (v : nat) (x' : var) : sys :=
  {| vars := replace_nth v (vars sy) x'; params := params sy; switches := switches sy;
     max_loops := max_loops sy |}.

(** TaxBenefitSystem.add_variable: a new last variable, number [length (vars sy)] *)
Definition add_var (sy : sys) (x : var) : sys :=
  {| vars := vars sy ++ [x]; params := params sy; switches := switches sy; max_loops := max_loops sy |}.

Lemma replace_nth_same {A} : forall (l : list A) n y x, nth_error l n = Some x ->
  nth_error (replace_nth n l y) n = Some y.
Proof. induction l as [|h r IH]; intros [|n] y x H; try discriminate; cbn in *; eauto. Qed.

Lemma replace_nth_other {A} : forall (l : list A) n m y, m <> n ->
  nth_error (replace_nth n l y) m = nth_error l m.
Proof.
  induction l as [|h r IH]; intros [|n] [|m] y H; cbn; auto; try congruence.
Qed.

(** * A successful evaluation under [sy1] is the same under [sy2] *)

Lemma calc_add_unit {S} (rec : S -> nat -> period -> S * res val) s w x x' q :
  v_unit x' = v_unit x -> calc_add rec s w x' q = calc_add rec s w x q.
Proof. intro H. unfold calc_add. now rewrite H. Qed.

Lemma calc_divide_unit {S} (rec : S -> nat -> period -> S * res val) s w x x' q :
  v_unit x' = v_unit x -> calc_divide rec s w x' q = calc_divide rec s w x q.
Proof. intro H. unfold calc_divide, divide_period. now rewrite H. Qed.

Section Transfer2.
  Variable sy1 sy2 : sys.
  Variable pp : popu.
  Variable rec1 rec2 : unit -> nat -> period -> unit * res val.
  Hypothesis Hsig : forall w x, nth_error (vars sy1) w = Some x ->
    exists x', nth_error (vars sy2) w = Some x' /\ v_ent x' = v_ent x /\ v_unit x' = v_unit x.
  Hypothesis Hparams : params sy2 = params sy1.
  Hypothesis Hsw : forall k, existsb (Nat.eqb k) (switches sy2) = true ->
                             existsb (Nat.eqb k) (switches sy1) = true.
  Hypothesis Hrec : forall w q a, snd (rec1 tt w q) = Ok a -> snd (rec2 tt w q) = Ok a.

  Lemma call_ok2 : forall c w q o a,
    snd (call rec1 sy1 c tt w q o) = Ok a -> snd (call rec2 sy2 c tt w q o) = Ok a.
  Proof.
    intros c w q o a. unfold call.
    destruct (nth_error (vars sy1) w) as [x|] eqn:Ex; [|discriminate].
    destruct (Hsig w x Ex) as (x' & Ex' & He & Hu). rewrite Ex', He.
    destruct (negb _); [discriminate|].
    destruct o; try discriminate.
    - apply Hrec.
    - rewrite (calc_add_unit rec2 tt w x x' q Hu). now apply calc_add_ok.
    - rewrite (calc_divide_unit rec2 tt w x x' q Hu).
      destruct (calc_divide rec1 tt w x q) as [[] r1] eqn:E1. destruct r1 as [[b d]|]; [|discriminate].
      pose proof (calc_divide_ok rec1 rec2 Hrec w x q (b, d)) as H1. rewrite E1 in H1. specialize (H1 eq_refl).
      destruct (calc_divide rec2 tt w x q) as [[] r2]. cbn [snd] in H1. subst r2. auto.
  Qed.

  Lemma eval_ok2 : forall e c p a,
    snd (eval rec1 sy1 pp c tt p e) = Ok a -> snd (eval rec2 sy2 pp c tt p e) = Ok a.
  Proof.
    induction e as [z|w pt o|op a IHa b IHb|a IHa|cn IHc a IHa b IHb|k|g role a IHa|role|role a IHa|f|k];
      intros c p res H; cbn [eval] in *; auto.
    - destruct (apply_ptrans pt p); [|discriminate]. now apply call_ok2.
    - destruct (eval rec1 sy1 pp c tt p a) as [[] r1] eqn:E1. destruct r1 as [x|]; [|discriminate].
      pose proof (IHa c p x) as H1. rewrite E1 in H1. specialize (H1 eq_refl).
      destruct (eval rec2 sy2 pp c tt p a) as [[] r1']. cbn [snd] in H1. subst r1'.
      destruct (eval rec1 sy1 pp c tt p b) as [[] r2] eqn:E2. destruct r2 as [y|]; [|discriminate].
      pose proof (IHb c p y) as H2. rewrite E2 in H2. specialize (H2 eq_refl).
      destruct (eval rec2 sy2 pp c tt p b) as [[] r2']. cbn [snd] in H2. subst r2'. exact H.
    - destruct (eval rec1 sy1 pp c tt p a) as [[] r1] eqn:E1. destruct r1 as [x|]; [|discriminate].
      pose proof (IHa c p x) as H1. rewrite E1 in H1. specialize (H1 eq_refl).
      destruct (eval rec2 sy2 pp c tt p a) as [[] r1']. cbn [snd] in H1. subst r1'. exact H.
    - destruct (eval rec1 sy1 pp c tt p cn) as [[] r1] eqn:E1. destruct r1 as [x|]; [|discriminate].
      pose proof (IHc c p x) as H1. rewrite E1 in H1. specialize (H1 eq_refl).
      destruct (eval rec2 sy2 pp c tt p cn) as [[] r1']. cbn [snd] in H1. subst r1'.
      destruct (eval rec1 sy1 pp c tt p a) as [[] r2] eqn:E2. destruct r2 as [y|]; [|discriminate].
      pose proof (IHa c p y) as H2. rewrite E2 in H2. specialize (H2 eq_refl).
      destruct (eval rec2 sy2 pp c tt p a) as [[] r2']. cbn [snd] in H2. subst r2'.
      destruct (eval rec1 sy1 pp c tt p b) as [[] r3] eqn:E3. destruct r3 as [z|]; [|discriminate].
      pose proof (IHb c p z) as H3. rewrite E3 in H3. specialize (H3 eq_refl).
      destruct (eval rec2 sy2 pp c tt p b) as [[] r3']. cbn [snd] in H3. subst r3'. exact H.
    - rewrite Hparams. exact H.
    - destruct (eval rec1 sy1 pp EPerson tt p a) as [[] r1] eqn:E1. destruct r1 as [x|]; [|discriminate].
      pose proof (IHa EPerson p x) as H1. rewrite E1 in H1. specialize (H1 eq_refl).
      destruct (eval rec2 sy2 pp EPerson tt p a) as [[] r1']. cbn [snd] in H1. subst r1'. exact H.
    - destruct (eval rec1 sy1 pp EGroup tt p a) as [[] r1] eqn:E1. destruct r1 as [x|]; [|discriminate].
      pose proof (IHa EGroup p x) as H1. rewrite E1 in H1. specialize (H1 eq_refl).
      destruct (eval rec2 sy2 pp EGroup tt p a) as [[] r1']. cbn [snd] in H1. subst r1'. exact H.
    - destruct (existsb (Nat.eqb k) (switches sy1)) eqn:E1; [discriminate|].
      destruct (existsb (Nat.eqb k) (switches sy2)) eqn:E2; [|exact H].
      apply Hsw in E2. congruence.
  Qed.
End Transfer2.

(** a variable without a value at the specification fuel has none at any fuel *)
Lemma never_ok_all_fuel : forall sy pp inp, ranked sy = true -> 1 <= max_loops sy ->
  forall v p, v < length (vars sy) -> (forall a, sem sy pp inp v p <> Ok a) ->
  forall f b, snd (den f sy pp inp tt v p) <> Ok b.
Proof.
  intros sy pp inp Hr Hl v p Hv Hno f b H.
  pose proof (den_more_fuel sy pp inp f v p b H (S (length (vars sy)))) as H1.
  rewrite (den_fuel sy pp inp Hr Hl v _ (S (length (vars sy))) p) in H1; [|lia|lia].
  exact (Hno b H1).
Qed.

Section Change.
  Variable sy sy' : sys.
  Variable pp : popu.
  Variable inp : inputs.
  Hypothesis Hranked : ranked sy = true.
  Hypothesis Hloops : 1 <= max_loops sy.
  Hypothesis Hparams : params sy' = params sy.
  Hypothesis Hsw : forall k, existsb (Nat.eqb k) (switches sy') = true ->
                             existsb (Nat.eqb k) (switches sy) = true.

  (** every variable of [sy] is still there with the same attributes, and at every period
      it either runs the same formula or had no value under [sy] *)
  Hypothesis Hvars : forall w x, nth_error (vars sy) w = Some x ->
    exists x', nth_error (vars sy') w = Some x' /\ same_fields x x'
               /\ forall p, formula_at x' p = formula_at x p \/ (forall a, sem sy pp inp w p <> Ok a).

  Lemma den_change_ok : forall f w q a,
    snd (den f sy pp inp tt w q) = Ok a -> snd (den f sy' pp inp tt w q) = Ok a.
  Proof.
    induction f as [|f IH]; intros w q a H; [discriminate|].
    destruct (nth_error (vars sy) w) as [x|] eqn:Ex.
    2:{ cbn [den] in H. rewrite Ex in H. discriminate. }
    destruct (Hvars w x Ex) as (x' & Ex' & (F1 & F2 & F3 & F4 & F5) & Hf).
    destruct (Hf q) as [Hsame|Hno].
    - cbn [den] in *. rewrite Ex in H. rewrite Ex'.
      unfold check_consistency, norm, default_array, cast in *. rewrite F1, F2, F3, F4, F5, Hsame.
      destruct (if unit_eqb (v_unit x) Eternity then Ok tt else _) ; [|discriminate].
      destruct (v_neutral x); auto.
      destruct (lookup _ inp); auto.
      destruct (formula_at x q) as [[e|]|]; auto.
      rewrite let_pair_snd in *.
      destruct (snd (eval (den f sy pp inp) sy pp (v_ent x) tt q e)) as [b|] eqn:E1; [|discriminate].
      assert (Hsig : forall w0 x0, nth_error (vars sy) w0 = Some x0 ->
                exists x0', nth_error (vars sy') w0 = Some x0' /\ v_ent x0' = v_ent x0 /\ v_unit x0' = v_unit x0).
      { intros w0 x0 E0. destruct (Hvars w0 x0 E0) as (x0' & E0' & (G1 & _ & G3 & _) & _). eauto. }
      rewrite (eval_ok2 sy sy' pp (den f sy pp inp) (den f sy' pp inp) Hsig Hparams Hsw IH e (v_ent x) q b E1).
      exact H.
    - exfalso. assert (Hw : w < length (vars sy)) by (apply nth_error_Some; congruence).
      exact (never_ok_all_fuel sy pp inp Hranked Hloops w q Hw Hno (S f) a H).
  Qed.

  (** The state between two requests of a simulation under [sy] is such a state under [sy'],
      provided nothing is cached for a variable that [sy] did not know. *)
  Theorem Top_change : forall s,
    (forall w x', nth_error (vars sy') w = Some x' -> nth_error (vars sy) w = None ->
                  forall q, lookup (w, q) (cache s) = None) ->
    Top sy pp inp s -> Top sy' pp inp s.
  Proof.
    intros s Hnew [(I1 & I2 & I3) Hs]. split; [|exact Hs]. repeat split; auto.
    intros w x' q a Ex' Hn' Hl p Hq Hc.
    destruct (nth_error (vars sy) w) as [x|] eqn:Ex.
    - destruct (Hvars w x Ex) as (x0 & E0 & (F1 & F2 & F3 & F4 & F5) & _).
      rewrite Ex' in E0. inversion E0; subst x0.
      assert (Hn : v_neutral x = false) by congruence.
      assert (Hq0 : norm x p = q) by (unfold norm in *; now rewrite <- F3).
      assert (Hc0 : check_consistency x p = Ok tt) by (unfold check_consistency in *; now rewrite <- F3).
      specialize (I1 w x q a Ex Hn Hl p Hq0 Hc0). unfold D in *. now apply den_change_ok.
    - rewrite (Hnew w x' Ex' Ex q) in Hl. discriminate.
  Qed.
End Change.

(** * The class of a variable is replaced *)

Theorem variable_replaced : forall sy pp inp, ranked sy = true -> 1 <= max_loops sy ->
  forall v x x' s,
  nth_error (vars sy) v = Some x -> same_fields x x' ->
  ranked (replace_var sy v x') = true ->
  (forall p, formula_at x' p = formula_at x p \/ (forall a, sem sy pp inp v p <> Ok a)) ->
  Top sy pp inp s ->
  Top (replace_var sy v x') pp inp s
  /\ forall rs, forallb is_calc_request rs = true ->
     snd (run (enough_fuel (replace_var sy v x')) (replace_var sy v x') pp s rs)
       = map (sem_answer (replace_var sy v x') pp inp) rs.
Proof.
  intros sy pp inp Hr Hl v x x' s Ex Hf Hr' Hform HT.
  assert (HT' : Top (replace_var sy v x') pp inp s).
  { apply (Top_change sy (replace_var sy v x') pp inp Hr Hl eq_refl (fun k H => H)); [| |exact HT].
    - intros w y Ey. cbn [replace_var vars]. destruct (Nat.eq_dec w v) as [->|Hne].
      + rewrite Ex in Ey. inversion Ey; subst y.
        exists x'. rewrite (replace_nth_same _ v x' x Ex). auto.
      + exists y. rewrite (replace_nth_other _ v w x' Hne). repeat split; auto.
    - intros w y Ey En. cbn [replace_var vars] in Ey. exfalso.
      destruct (Nat.eq_dec w v) as [->|Hne]; [congruence|].
      rewrite (replace_nth_other _ v w x' Hne) in Ey. congruence. }
  split; [exact HT'|]. intros rs Hrs.
  exact (proj1 (run_refines_meaning (replace_var sy v x') pp inp Hr' Hl rs s Hrs HT')).
Qed.

(** * A variable that was unknown is added *)

Theorem variable_added_top : forall sy pp inp, ranked sy = true -> 1 <= max_loops sy ->
  forall x s,
  (forall q, lookup (length (vars sy), q) (cache s) = None) ->
  Top sy pp inp s -> Top (add_var sy x) pp inp s.
Proof.
  intros sy pp inp Hr Hl x s Hnone HT.
  apply (Top_change sy (add_var sy x) pp inp Hr Hl eq_refl (fun k H => H)); [| |exact HT].
  - intros w y Ey. exists y. cbn [add_var vars]. rewrite nth_error_app1; [|apply nth_error_Some; congruence].
    repeat split; auto.
  - intros w y Ey En q. cbn [add_var vars] in Ey. apply nth_error_None in En.
    destruct (Nat.eq_dec w (length (vars sy))) as [->|Hne]; [apply Hnone|].
    exfalso. rewrite nth_error_app2 in Ey; [|exact En].
    destruct (w - length (vars sy)) as [|d] eqn:Ed; [lia|]. cbn in Ey. destruct d; discriminate.
Qed.

Theorem variable_added : forall sy pp inp, ranked sy = true -> 1 <= max_loops sy ->
  forall x s,
  (forall q, lookup (length (vars sy), q) (cache s) = None) ->
  Top sy pp inp s ->
  Top (add_var sy x) pp inp s
  /\ (ranked (add_var sy x) = true ->
      forall rs, forallb is_calc_request rs = true ->
      snd (run (enough_fuel (add_var sy x)) (add_var sy x) pp s rs) = map (sem_answer (add_var sy x) pp inp) rs).
Proof.
  intros sy pp inp Hr Hl x s Hnone HT.
  pose proof (variable_added_top sy pp inp Hr Hl x s Hnone HT) as HT'.
  split; [exact HT'|]. intros Hr' rs Hrs.
  exact (proj1 (run_refines_meaning (add_var sy x) pp inp Hr' Hl rs s Hrs HT')).
Qed.

(** A new simulation never holds an entry for a variable the system does not know, and no
    request creates one: the hypothesis of [variable_added] on the cache holds for every
    state reached from inputs given for known variables only. *)
Theorem unknown_variable_never_cached : forall sy pp inp, ranked sy = true -> 1 <= max_loops sy ->
  forall s r w q, Top sy pp inp s -> is_calc_request r = true ->
  nth_error (vars sy) w = None -> lookup (w, q) (cache s) = None ->
  lookup (w, q) (cache (fst (step (enough_fuel sy) sy pp s r))) = None.
Proof.
  intros sy pp inp Hr Hl s r w q HT Hc Hw Hnone.
  assert (Hi : invalid s = []) by (destruct HT as [(_ & _ & ?) _]; auto).
  destruct (step_refines_meaning sy pp inp Hr Hl s r Hc HT) as [_ [(J1 & J2 & J3) _]].
  destruct (lookup (w, q) (cache (fst (step (enough_fuel sy) sy pp s r)))) as [a|] eqn:E; auto.
  (* an entry for an unknown variable could only come from the inputs or from before *)
  exfalso.
  assert (Hsame : same_from (length (vars sy)) s (fst (step (enough_fuel sy) sy pp s r)) -> False).
  { intro Hs. rewrite (Hs (w, q)) in E; [congruence|]. cbn [fst]. now apply nth_error_None. }
  apply Hsame. clear Hsame E a.
  destruct r as [v p|v p|v p|v p a|v p|v p|k on]; try discriminate; cbn [step].
  - destruct (Nat.lt_ge_cases v (length (vars sy))) as [Hv|Hv].
    + destruct HT as [HI Hs0].
      assert (Hab : above v (stack s)) by (rewrite Hs0; intros k []).
      destruct (calc_frame sy pp inp Hr Hl v (enough_fuel sy) p s (enough_fuel_gt sy Hl v Hv) HI Hab) as (_ & F2 & _).
      destruct (calc (enough_fuel sy) sy pp s v p) as [s1 a1]. cbn [fst] in *.
      eapply same_from_le; [|exact F2]. lia.
    + apply nth_error_None in Hv. destruct (calc_unknown sy pp s v p Hv Hi) as [C _].
      destruct (calc (enough_fuel sy) sy pp s v p) as [s1 a1]. cbn [fst] in *.
      intros k Hk. now rewrite C.
  - destruct (nth_error (vars sy) v) as [x|] eqn:Ex; [|apply same_from_refl].
    assert (Hv : v < length (vars sy)) by (apply nth_error_Some; congruence).
    pose (P := fun s' : st => Top sy pp inp s' /\ same_from (length (vars sy)) s s').
    assert (Hrec : forall s' w0 q0, w0 < length (vars sy) -> P s' ->
              P (fst (calc (enough_fuel sy) sy pp s' w0 q0)) /\
              snd (calc (enough_fuel sy) sy pp s' w0 q0) = snd (sem_rec sy pp inp tt w0 q0)).
    { intros s' w0 q0 Hw0 [HT' Hs'].
      destruct (calc_top sy pp inp Hr Hl s' w0 q0 Hw0 HT') as [T1 T2].
      destruct HT' as [HI' Hst'].
      assert (Hab : above w0 (stack s')) by (rewrite Hst'; intros k []).
      destruct (calc_frame sy pp inp Hr Hl w0 (enough_fuel sy) q0 s' (enough_fuel_gt sy Hl w0 Hw0) HI' Hab) as (_ & F2 & _).
      split; [split; [exact T1|]|exact T2].
      eapply same_from_trans; [exact Hs'|]. eapply same_from_le; [|exact F2]. lia. }
    destruct (calc_add_sim (sem_rec sy pp inp) (calc (enough_fuel sy) sy pp) P (length (vars sy)) Hrec v x p s Hv
                (conj HT (same_from_refl _ s))) as [[_ H1] _].
    destruct (calc_add (calc (enough_fuel sy) sy pp) s v x p) as [s1 a1]. exact H1.
  - destruct (nth_error (vars sy) v) as [x|] eqn:Ex; [|apply same_from_refl].
    assert (Hv : v < length (vars sy)) by (apply nth_error_Some; congruence).
    pose (P := fun s' : st => Top sy pp inp s' /\ same_from (length (vars sy)) s s').
    assert (Hrec : forall s' w0 q0, w0 < length (vars sy) -> P s' ->
              P (fst (calc (enough_fuel sy) sy pp s' w0 q0)) /\
              snd (calc (enough_fuel sy) sy pp s' w0 q0) = snd (sem_rec sy pp inp tt w0 q0)).
    { intros s' w0 q0 Hw0 [HT' Hs'].
      destruct (calc_top sy pp inp Hr Hl s' w0 q0 Hw0 HT') as [T1 T2].
      destruct HT' as [HI' Hst'].
      assert (Hab : above w0 (stack s')) by (rewrite Hst'; intros k []).
      destruct (calc_frame sy pp inp Hr Hl w0 (enough_fuel sy) q0 s' (enough_fuel_gt sy Hl w0 Hw0) HI' Hab) as (_ & F2 & _).
      split; [split; [exact T1|]|exact T2].
      eapply same_from_trans; [exact Hs'|]. eapply same_from_le; [|exact F2]. lia. }
    destruct (calc_divide_sim (sem_rec sy pp inp) (calc (enough_fuel sy) sy pp) P (length (vars sy)) Hrec v x p s Hv
                (conj HT (same_from_refl _ s))) as [[_ H1] _].
    destruct (calc_divide (calc (enough_fuel sy) sy pp) s v x p) as [s1 a1]. exact H1.
Qed.
