(** C02, sentence 2: what a frame computes does not depend on the stack below it nor on
    the tainted part of the cache, as long as no mark reaches the frame.

    Left machine: the run of a frame [kF] inside a top-level request, with the frames
    [low] below it, marks [inv0] already placed when it starts.  Right machine: a fresh
    simulation whose cache is the part of the left cache whose keys are not in [inv0],
    with an empty stack and no marks.  If the left run returns a value and [kF] is not
    marked when it ends, the right run returns the same value ([calc_AB], [justify_frame]):
    - a cache hit on the left that is not a tainted read is the same hit on the right
      (a tainted read marks every frame, hence [kF]);
    - a spiral cut on the left whose marking walk stops above [low] is the same cut on
      the right with the same marks; a walk that continues into [low] marks [kF];
    - a non-cut / non-cycle under the longer stack is a non-cut / non-cycle under the
      shorter one.
    Also: a run that returns a value returns the same value with more fuel ([calc_fuel_ok]). *)
From Coq Require Import ZArith List Bool Arith Lia.
From Verif Require Import Base Cal Tables Period Np Group Param Engine EngineProofs
  EngineC02Gen EngineC02SpiralProofs.
Import ListNotations.
Open Scope nat_scope.

Section AB.
  Variable sy : sys.
  Variable pp : popu.
  Variable low : list key.
  Variable inv0 : list key.
  Variable kF : key.
  (** the marks already placed belong to dated variables (true of every run from a state
      without marks when eternal variables are leaves; trivial without eternal variables) *)
  Hypothesis Hd0 : dated_keys sy inv0.

  Definition RAB (s t : st) : Prop :=
    stack s = stack t ++ low /\ invalid s = invalid t ++ inv0 /\ In kF (stack t) /\
    (forall k, lookup k (cache t) = lookup k (cache s) \/ (In k inv0 /\ lookup k (cache t) = None)).

  Definition goodF (s : st) : Prop := ~ In kF (invalid s).
  Definition PLs (s : st) : Prop := stack s <> [].

  Lemma RAB_PLs s t : RAB s t -> PLs s.
  Proof.
    intros (R1 & _ & R3 & _) H. unfold PLs in *. rewrite R1 in H.
    apply app_eq_nil in H as [H _]. rewrite H in R3. destruct R3.
  Qed.

  Lemma RAB_put x v p a s t : RAB s t -> RAB (put_in_cache x v p a s) (put_in_cache x v p a t).
  Proof.
    intros (R1 & R2 & R3 & R4). unfold RAB.
    rewrite !stack_put_in_cache', !invalid_put_in_cache. repeat split; auto.
    intro k. rewrite !lookup_put_in_cache.
    destruct (v_nostore x); auto. destruct (key_eqb k (v, norm x p)); auto.
  Qed.

  Lemma body_AB (recl recr : st -> nat -> period -> st * res val) s t v p up s' a :
    (forall s t w q s' a, RAB s t -> recl s w q = (s', Ok a) -> goodF s' ->
       exists t', recr t w q = (t', Ok a) /\ RAB s' t') ->
    (forall s w q, PLs s -> PLs (fst (recl s w q))) ->
    (forall s w q, PLs s -> goodF (fst (recl s w q)) -> goodF s) ->
    RAB s t -> stack t = (v, p) :: up ->
    calc_body recl sy pp s v p = (s', Ok a) -> goodF s' ->
    exists t', calc_body recr sy pp t v p = (t', Ok a) /\ RAB s' t'.
  Proof.
    intros Hrec HPL Hmono HR Hst H Hg.
    pose proof HR as (R1 & R2 & R3 & R4).
    assert (Hsl : stack s = ((v, p) :: up) ++ low) by (now rewrite R1, Hst).
    rewrite Hst in R3.
    unfold calc_body in H |- *. rewrite Hsl in H. rewrite Hst. cbn [tl app] in H |- *.
    destruct (nth_error (vars sy) v) as [x|] eqn:Ex; [|discriminate].
    destruct (check_consistency x p) as [u|]; [|discriminate].
    unfold get_array in H |- *.
    destruct (if v_neutral x then Some (default_array pp x) else lookup (v, norm x p) (cache s)) as [b|] eqn:Eg.
    { destruct (existsb (key_eqb (v, p)) (invalid s)) eqn:Et; injection H as <- <-.
      - exfalso. apply Hg. cbn [add_invalid invalid]. apply in_or_app. left.
        change ((v, p) :: up ++ low) with (((v, p) :: up) ++ low). apply in_or_app. now left.
      - rewrite R2, existsb_app in Et. apply orb_false_elim in Et as [Et1 Et2].
        assert (Egr : (if v_neutral x then Some (default_array pp x) else lookup (v, norm x p) (cache t)) = Some b).
        { destruct (v_neutral x); auto. destruct (R4 (v, norm x p)) as [E|[E _]]; [congruence|]. exfalso.
          destruct (unit_eqb (v_unit x) Eternity) eqn:Eu.
          - specialize (Hd0 _ x E Ex). congruence.
          - rewrite (norm_dated x p Eu) in E. apply existsb_key_in in E. congruence. }
        rewrite Egr, Et1. eauto. }
    destruct (v_neutral x); [discriminate|].
    assert (Egr : lookup (v, norm x p) (cache t) = None).
    { destruct (R4 (v, norm x p)) as [E|[_ E]]; congruence. }
    rewrite Egr.
    rewrite prev_periods_app, existsb_app, app_length in H.
    destruct (existsb (period_eqb p) (prev_periods v up)); [discriminate|]. cbn [orb] in H.
    destruct (existsb (period_eqb p) (prev_periods v low)); [discriminate|].
    destruct (Nat.leb (max_loops sy) (length (prev_periods v up) + length (prev_periods v low))) eqn:El.
    { assert (Hs' : add_invalid (spiral_marks (max_loops sy) v 0 ((v, p) :: up ++ low)) s = s') by congruence.
      assert (Ha : default_array pp x = a) by congruence. subst s' a. clear H.
      destruct (Nat.leb_spec (max_loops sy) (length (prev_periods v up))) as [Hr|Hr].
      - assert (Em : spiral_marks (max_loops sy) v 0 ((v, p) :: up ++ low)
                     = spiral_marks (max_loops sy) v 0 ((v, p) :: up)).
        { change ((v, p) :: up ++ low) with (((v, p) :: up) ++ low).
          apply spiral_marks_app_stop; [lia|]. rewrite prev_periods_cons_same. cbn [length]. lia. }
        rewrite Em. eexists. split; [reflexivity|].
        unfold RAB. cbn [add_invalid stack invalid cache]. rewrite R2, app_assoc. repeat split; auto.
        now rewrite Hst.
      - exfalso. apply Hg. cbn [add_invalid invalid]. apply in_or_app. left.
        change ((v, p) :: up ++ low) with (((v, p) :: up) ++ low).
        rewrite spiral_marks_app_go; [|rewrite prev_periods_cons_same; cbn [length]; lia].
        apply in_or_app. now left. }
    apply Nat.leb_gt in El.
    destruct (Nat.leb_spec (max_loops sy) (length (prev_periods v up))) as [Hr|Hr]; [lia|].
    destruct (formula_at x p) as [[e|]|]; [| |discriminate].
    - destruct (eval recl sy pp (v_ent x) s p e) as [s1 r1] eqn:Ee.
      destruct r1 as [a1|]; [|discriminate]. injection H as <- <-.
      unfold goodF in Hg. rewrite invalid_put_in_cache in Hg.
      destruct (eval_sim2 sy pp recl recr RAB PLs goodF HPL Hmono RAB_PLs Hrec e (v_ent x) p s t s1 a1 HR Ee Hg)
        as (t1 & Et & HR1).
      rewrite Et. eexists. split; [reflexivity|]. now apply RAB_put.
    - injection H as <- <-. eexists. split; [reflexivity|]. now apply RAB_put.
  Qed.

  Lemma goodF_mono f s w q : PLs s -> goodF (fst (calc f sy pp s w q)) -> goodF s.
  Proof. intros Hs Hg Hin. apply Hg. exact (calc_invalid_mono sy pp f s w q Hs kF Hin). Qed.

  Lemma PLs_calc f s w q : PLs s -> PLs (fst (calc f sy pp s w q)).
  Proof. unfold PLs. now rewrite calc_stack'. Qed.

  Lemma calc_AB : forall fuel s t v p s' a, RAB s t ->
    calc fuel sy pp s v p = (s', Ok a) -> goodF s' ->
    exists t', calc fuel sy pp t v p = (t', Ok a) /\ RAB s' t'.
  Proof.
    induction fuel as [|f IH]; intros s t v p s' a HR H Hg; cbn [calc] in *; [discriminate|].
    destruct (calc_body (calc f sy pp) sy pp (push (v, p) s) v p) as [s1 r] eqn:Eb.
    inversion H; subst s' r. clear H.
    pose proof HR as (R1 & R2 & R3 & R4).
    assert (HsF : stack s1 = (v, p) :: stack s).
    { pose proof (body_calc_frame sy pp f (push (v, p) s) v p) as [X _]; [discriminate|].
      now rewrite Eb in X. }
    assert (Hpl : stack (pop s1) <> []).
    { unfold pop; cbn [stack]. rewrite HsF. cbn [tl]. exact (RAB_PLs s t HR). }
    rewrite purge_nonempty in Hg |- * by exact Hpl.
    assert (HRp : RAB (push (v, p) s) (push (v, p) t)).
    { unfold RAB; cbn [push stack invalid cache]. rewrite R1. repeat split; auto. now right. }
    destruct (body_AB (calc f sy pp) (calc f sy pp) (push (v, p) s) (push (v, p) t) v p (stack t) s1 a
                IH (PLs_calc f) (goodF_mono f) HRp eq_refl Eb Hg) as (t1 & Et & S1 & S2 & S3 & S4).
    rewrite Et.
    assert (HtF : stack t1 = (v, p) :: stack t).
    { pose proof (body_calc_frame sy pp f (push (v, p) t) v p) as [X _]; [discriminate|].
      now rewrite Et in X. }
    assert (Hpr : stack (pop t1) <> []).
    { unfold pop; cbn [stack]. rewrite HtF. cbn [tl]. intro E. rewrite E in R3. destruct R3. }
    rewrite purge_nonempty by exact Hpr.
    eexists. split; [reflexivity|].
    unfold RAB, pop; cbn [stack invalid cache]. rewrite HsF, HtF. cbn [tl]. repeat split; auto.
  Qed.
End AB.

(** The frame of a top-level request, or any frame: if its body returns a value and the
    frame is not marked when the body ends, a fresh simulation that is given the entries
    unmarked at the start of the frame computes the same value. *)
Definition unmarked (inv : list key) (c : list (key * val)) : list (key * val) :=
  filter (fun kv => negb (existsb (key_eqb (fst kv)) inv)) c.

Lemma lookup_unmarked inv c k :
  lookup k (unmarked inv c) = if existsb (key_eqb k) inv then None else lookup k c.
Proof.
  unfold unmarked. rewrite (lookup_filter_key (fun k => negb (existsb (key_eqb k) inv))).
  now destruct (existsb (key_eqb k) inv).
Qed.

Lemma justify_frame_gen sy pp f s v p s' a : dated_keys sy (invalid s) ->
  calc_body (calc f sy pp) sy pp (push (v, p) s) v p = (s', Ok a) ->
  ~ In (v, p) (invalid s') ->
  snd (calc (S f) sy pp {| cache := unmarked (invalid s) (cache s); stack := []; invalid := [] |} v p) = Ok a.
Proof.
  intros Hd Hb Hg.
  set (t := {| cache := unmarked (invalid s) (cache s); stack := []; invalid := [] |}).
  assert (HR : RAB (stack s) (invalid s) (v, p) (push (v, p) s) (push (v, p) t)).
  { unfold RAB; cbn [push stack invalid cache app t]. repeat split; auto; [now left|].
    intro k. rewrite lookup_unmarked. destruct (existsb (key_eqb k) (invalid s)) eqn:E; auto.
    right. split; auto. now apply existsb_key_in. }
  destruct (body_AB sy pp (stack s) (invalid s) (v, p) Hd (calc f sy pp) (calc f sy pp)
              (push (v, p) s) (push (v, p) t) v p [] s' a
              (calc_AB sy pp (stack s) (invalid s) (v, p) Hd f)
              (PLs_calc sy pp f) (goodF_mono sy pp (v, p) f) HR eq_refl Hb Hg) as (t1 & Et & _).
  cbn [calc]. rewrite Et. reflexivity.
Qed.

Lemma justify_frame sy pp f s v p s' a : no_eternal sy ->
  calc_body (calc f sy pp) sy pp (push (v, p) s) v p = (s', Ok a) ->
  ~ In (v, p) (invalid s') ->
  snd (calc (S f) sy pp {| cache := unmarked (invalid s) (cache s); stack := []; invalid := [] |} v p) = Ok a.
Proof. intro Hne. apply justify_frame_gen. now apply no_eternal_dated. Qed.

(** * More fuel does not change a run that returned a value *)

Section Fuel.
  Variable sy : sys.
  Variable pp : popu.

  Let Req (s t : st) : Prop := s = t.
  Let PT (s : st) : Prop := True.

  Lemma body_ext_ok (recl recr : st -> nat -> period -> st * res val) s v p s' a :
    (forall s w q s' a, recl s w q = (s', Ok a) -> recr s w q = (s', Ok a)) ->
    calc_body recl sy pp s v p = (s', Ok a) -> calc_body recr sy pp s v p = (s', Ok a).
  Proof.
    intros Hrec H. unfold calc_body in *.
    destruct (nth_error (vars sy) v) as [x|]; [|discriminate].
    destruct (check_consistency x p) as [u|]; [|discriminate].
    destruct (get_array pp x s v p); [exact H|].
    destruct (existsb _ _); [discriminate|].
    destruct (Nat.leb _ _); [exact H|].
    destruct (formula_at x p) as [[e|]|]; [| exact H|discriminate].
    destruct (eval recl sy pp (v_ent x) s p e) as [s1 r1] eqn:Ee.
    destruct r1 as [a1|]; [|discriminate].
    destruct (eval_sim2 sy pp recl recr Req PT PT (fun _ _ _ _ => I) (fun _ _ _ _ _ => I) (fun _ _ _ => I)
                (fun s t w q s' a (E : Req s t) H _ =>
                   ex_intro _ s' (conj (eq_ind s (fun t => recr t w q = (s', Ok a)) (Hrec s w q s' a H) t E) eq_refl))
                e (v_ent x) p s s s1 a1 eq_refl Ee I) as (t1 & Et & <-).
    now rewrite Et.
  Qed.

  Lemma calc_fuel_ok : forall f n s v p s' a,
    calc f sy pp s v p = (s', Ok a) -> calc (f + n) sy pp s v p = (s', Ok a).
  Proof.
    induction f as [|f IH]; intros n s v p s' a H; cbn [calc Nat.add] in *; [discriminate|].
    destruct (calc_body (calc f sy pp) sy pp (push (v, p) s) v p) as [s1 r] eqn:Eb.
    inversion H; subst s' r.
    rewrite (body_ext_ok (calc f sy pp) (calc (f + n) sy pp) _ _ _ _ _ (fun s w q s' a => IH n s w q s' a) Eb).
    reflexivity.
  Qed.
End Fuel.
