(** Proofs for C03: the accept / reject matrix of requests, ADD is the sum over the exact
    tiling, DIVIDE is the value at the enclosing definition period over the count. *)
From Coq Require Import ZArith List Bool Arith Lia.
From Verif Require Import Base Cal Tables Period PeriodSpec Np Group Param Engine EngineC03Spec.
From Verif Require Import CalProofs PeriodProofs EngineProofs.
Import ListNotations.
Open Scope Z_scope.

(** * The table *)

Lemma error_cell_class : forall du ru one o, error_cell du ru one o = error_class du ru one o.
Proof. intros du ru one o. destruct o, du, ru, one; reflexivity. Qed.

(** * Plain requests *)

Lemma plain_cell x q :
  check_consistency x q =
  if error_cell (v_unit x) (p_unit q) (size_one q) OPlain then Err EValue else Ok tt.
Proof.
  unfold check_consistency, error_cell, size_one.
  destruct (v_unit x), (p_unit q); cbn [unit_eqb negb orb]; destruct (p_size q =? 1); reflexivity.
Qed.

Lemma calc_check_err fuel sy pp s v q x e :
  nth_error (vars sy) v = Some x -> check_consistency x q = Err e ->
  snd (calc (S fuel) sy pp s v q) = Err e.
Proof.
  intros Ex Ec. cbn [calc]. unfold calc_body. rewrite Ex, Ec. reflexivity.
Qed.

Lemma sem_check_err sy pp inp v q x e :
  nth_error (vars sy) v = Some x -> check_consistency x q = Err e ->
  sem sy pp inp v q = Err e.
Proof.
  intros Ex Ec. unfold sem, sem_rec. cbn [den]. rewrite Ex, Ec. reflexivity.
Qed.

(** * Sub-periods, enclosing periods and denominators succeed or fail by the units alone *)

Lemma offset_some_ok b i u : u <> Eternity ->
  exists g, offset b i (Some u) = Ok g.
Proof.
  intros Hu. destruct b as [[pu s] sz]. unfold offset.
  destruct u; try congruence; cbn [instant_offset bind]; eexists; reflexivity.
Qed.

Lemma mapM_total {A B} (f : A -> res B) l :
  (forall x, exists y, f x = Ok y) -> exists ys, mapM f l = Ok ys.
Proof.
  intros H. induction l as [|x l [ys IH]]; cbn [mapM]; [eexists; reflexivity|].
  destruct (H x) as [y ->]. rewrite IH. eexists; reflexivity.
Qed.

Lemma gen_total (u : unit_t) (b : period) (n : Z) : u <> Eternity ->
  exists subs, mapM (fun i => offset b i (Some u)) (zrange n) = Ok subs.
Proof. intros Hu. apply mapM_total. intros i. now apply offset_some_ok. Qed.

Lemma subperiods_defined q du :
  error_cell du (p_unit q) true OAdd = false -> exists subs, subperiods q du = Ok subs.
Proof.
  destruct q as [[ru [[y m] d]] n]. unfold p_unit; cbn [fst snd].
  intros H. unfold subperiods, p_unit; cbn [fst snd].
  destruct du, ru; try discriminate H; cbn [unit_weight Z.ltb Z.compare Pos.compare Pos.compare_cont];
    unfold this_year, first_month, first_week, first_day, first_weekday, first_of_or_fail,
      instant_first_of, p_start, p_size, size_in_months, size_in_days, size_in_weeks, size_in_weekdays, p_unit;
    cbn [fst snd bind instant_offset];
    apply gen_total; discriminate.
Qed.

Lemma subperiods_undefined q du :
  dated_unit du = true -> unit_eqb (p_unit q) Eternity = false ->
  (unit_weight (p_unit q) <? unit_weight du) = false ->
  error_cell du (p_unit q) true OAdd = true -> subperiods q du = Err EValue.
Proof.
  destruct q as [[ru [[y m] d]] n]. unfold p_unit; cbn [fst snd].
  intros Hd He Hw H.
  destruct du, ru; try discriminate H; try discriminate Hd; try discriminate He; try discriminate Hw.
  reflexivity.
Qed.

(** * ADD *)

Section Generic.
  Context {S : Type}.
  Variable rec : S -> nat -> period -> S * res val.

  Lemma calc_add_rejects s v x q :
    error_cell (v_unit x) (p_unit q) (size_one q) OAdd = true ->
    calc_add rec s v x q = (s, Err EValue).
  Proof.
    intros H. unfold calc_add.
    destruct (unit_weight (p_unit q) <? unit_weight (v_unit x)) eqn:Ew; [reflexivity|].
    destruct (unit_eqb (p_unit q) Eternity) eqn:Ee; [reflexivity|].
    destruct (dated_unit (v_unit x)) eqn:Ed; cbn [negb]; [|reflexivity].
    rewrite (subperiods_undefined q (v_unit x) Ed Ee Ew); [reflexivity|].
    destruct (v_unit x), (p_unit q); exact H.
  Qed.

  Lemma calc_add_accepts s v x q :
    error_cell (v_unit x) (p_unit q) (size_one q) OAdd = false ->
    exists subs, subperiods q (v_unit x) = Ok subs /\ calc_add rec s v x q = sum_calc rec s v subs None.
  Proof.
    intros H.
    assert (H' : error_cell (v_unit x) (p_unit q) true OAdd = false)
      by (destruct (v_unit x), (p_unit q); exact H).
    destruct (subperiods_defined q (v_unit x) H') as [subs Es].
    exists subs. split; [exact Es|]. unfold calc_add. rewrite Es.
    destruct (v_unit x), (p_unit q); try discriminate H'; reflexivity.
  Qed.

  (** * DIVIDE *)

  Lemma calc_divide_rejects s v x q :
    error_cell (v_unit x) (p_unit q) (size_one q) ODivide = true ->
    calc_divide rec s v x q = (s, Err EValue).
  Proof.
    destruct q as [[ru [[y m] d]] n]. unfold size_one, p_unit, p_size; cbn [fst snd].
    intros H. unfold calc_divide, divide_period, divide_denominator, p_unit, p_size; cbn [fst snd].
    destruct (n =? 1) eqn:En.
    - apply Z.eqb_eq in En. subst n. cbn [negb orb] in H.
      destruct (v_unit x) eqn:Eu, ru; try discriminate H; reflexivity.
    - destruct (1 <? n) eqn:E1; [rewrite orb_true_r; reflexivity|].
      rewrite orb_false_r.
      destruct (unit_weight (v_unit x) <? unit_weight ru); [reflexivity|].
      destruct (negb (dated_unit (v_unit x))); [reflexivity|].
      rewrite orb_true_r. reflexivity.
  Qed.

  Lemma calc_divide_accepts s v x q :
    error_cell (v_unit x) (p_unit q) (size_one q) ODivide = false ->
    exists cp den,
      divide_period x q = Ok cp /\ cp = enclosing (v_unit x) (p_start q)
      /\ divide_denominator q cp = Ok den
      /\ calc_divide rec s v x q =
         (let '(s1, r1) := rec s v cp in
          match r1 with Err e => (s1, Err e) | Ok a => (s1, Ok (a, den)) end).
  Proof.
    destruct q as [[ru [[y m] d]] n]. unfold size_one, p_unit, p_size, p_start; cbn [fst snd].
    intros H. destruct (n =? 1) eqn:En; [|discriminate H]. apply Z.eqb_eq in En. subst n. cbn [negb orb] in H.
    unfold calc_divide, divide_period, divide_denominator, enclosing, p_unit, p_size, p_start; cbn [fst snd].
    destruct (v_unit x) eqn:Eu, ru; try discriminate H;
      unfold this_year, first_month, first_week, first_day, first_weekday, first_of_or_fail,
        instant_first_of, p_start, p_size, size_in_years, size_in_months, size_in_days, size_in_weeks,
        size_in_weekdays, p_unit;
      cbn [fst snd bind instant_offset unit_weight Z.ltb Z.compare Pos.compare Pos.compare_cont orb negb
           dated_unit in_units existsb unit_eqb app units_isoformat units_isocalendar Z.eqb Pos.eqb];
      do 2 eexists; (split; [reflexivity|]); (split; [reflexivity|]); (split; [reflexivity|]); reflexivity.
  Qed.

  (** * Options of a dependency request *)

  Lemma call_rejects sy c s v x q o :
    nth_error (vars sy) v = Some x -> o <> OPlain ->
    error_cell (v_unit x) (p_unit q) (size_one q) o = true ->
    snd (call rec sy c s v q o) = Err EValue /\ fst (call rec sy c s v q o) = s.
  Proof.
    intros Ex Ho H. unfold call. rewrite Ex.
    destruct (negb (ent_eqb (v_ent x) c)); [split; reflexivity|].
    destruct o; try congruence; try (split; reflexivity).
    - rewrite (calc_add_rejects s v x q H). split; reflexivity.
    - rewrite (calc_divide_rejects s v x q H). split; reflexivity.
  Qed.

  Lemma call_plain sy c s v x q :
    nth_error (vars sy) v = Some x -> ent_eqb (v_ent x) c = true ->
    call rec sy c s v q OPlain = rec s v q.
  Proof. intros Ex He. unfold call. rewrite Ex, He. reflexivity. Qed.

  Lemma call_add sy c s v x q :
    nth_error (vars sy) v = Some x -> ent_eqb (v_ent x) c = true ->
    call rec sy c s v q OAdd = calc_add rec s v x q.
  Proof. intros Ex He. unfold call. rewrite Ex, He. reflexivity. Qed.

  Lemma call_divide sy c s v x q :
    nth_error (vars sy) v = Some x -> ent_eqb (v_ent x) c = true ->
    call rec sy c s v q ODivide =
    (let '(s1, r1) := calc_divide rec s v x q in
     match r1 with Err e => (s1, Err e) | Ok (a, den) => (s1, Ok (map (fun z => z / den) a)) end).
  Proof. intros Ex He. unfold call. rewrite Ex, He. reflexivity. Qed.
End Generic.

(** * Top-level requests: the reject side, for every state and every start date *)

Lemma step_calc_rejects fuel sy pp s v x q :
  nth_error (vars sy) v = Some x ->
  error_cell (v_unit x) (p_unit q) (size_one q) OPlain = true ->
  snd (step (S fuel) sy pp s (RCalc v q)) = AErr EValue.
Proof.
  intros Ex H. pose proof (plain_cell x q) as Hc. rewrite H in Hc.
  pose proof (calc_check_err fuel sy pp s v q x EValue Ex Hc) as E.
  cbn [step]. destruct (calc (S fuel) sy pp s v q) as [s1 a]. cbn [snd] in *. now subst a.
Qed.

Lemma step_add_rejects fuel sy pp s v x q :
  nth_error (vars sy) v = Some x ->
  error_cell (v_unit x) (p_unit q) (size_one q) OAdd = true ->
  step fuel sy pp s (RAdd v q) = (s, AErr EValue).
Proof. intros Ex H. cbn [step]. rewrite Ex, (calc_add_rejects _ s v x q H). reflexivity. Qed.

Lemma step_divide_rejects fuel sy pp s v x q :
  nth_error (vars sy) v = Some x ->
  error_cell (v_unit x) (p_unit q) (size_one q) ODivide = true ->
  step fuel sy pp s (RDivide v q) = (s, AErr EValue).
Proof. intros Ex H. cbn [step]. rewrite Ex, (calc_divide_rejects _ s v x q H). reflexivity. Qed.

Lemma sem_answer_rejects sy pp inp v x q o r :
  nth_error (vars sy) v = Some x -> request_of o v q = Some r ->
  error_cell (v_unit x) (p_unit q) (size_one q) o = true ->
  sem_answer sy pp inp r = AErr EValue.
Proof.
  intros Ex Hr H. destruct o; inversion Hr; subst r; cbn [sem_answer].
  - pose proof (plain_cell x q) as Hc. rewrite H in Hc.
    now rewrite (sem_check_err sy pp inp v q x EValue Ex Hc).
  - rewrite Ex, (calc_add_rejects _ tt v x q H). reflexivity.
  - rewrite Ex, (calc_divide_rejects _ tt v x q H). reflexivity.
Qed.

Theorem matrix_rejects fuel sy pp inp s v x q o r :
  nth_error (vars sy) v = Some x -> request_of o v q = Some r ->
  error_cell (v_unit x) (p_unit q) (size_one q) o = true ->
  snd (step (S fuel) sy pp s r) = AErr EValue /\ sem_answer sy pp inp r = AErr EValue.
Proof.
  intros Ex Hr H. split; [|eapply sem_answer_rejects; eauto].
  destruct o; inversion Hr; subst r.
  - now apply (step_calc_rejects fuel sy pp s v x q).
  - now rewrite (step_add_rejects (S fuel) sy pp s v x q).
  - now rewrite (step_divide_rejects (S fuel) sy pp s v x q).
Qed.

(** the accept side: the request passes every period check and is served as follows *)
Theorem matrix_accepts_plain x q :
  error_cell (v_unit x) (p_unit q) (size_one q) OPlain = false -> check_consistency x q = Ok tt.
Proof. intros H. rewrite plain_cell, H. reflexivity. Qed.

Theorem matrix_accepts_add fuel sy pp inp s v x q :
  nth_error (vars sy) v = Some x ->
  error_cell (v_unit x) (p_unit q) (size_one q) OAdd = false ->
  exists subs, subperiods q (v_unit x) = Ok subs
    /\ step fuel sy pp s (RAdd v q) =
       (let '(s1, a) := sum_calc (calc fuel sy pp) s v subs None in (s1, of_res a))
    /\ sem_answer sy pp inp (RAdd v q) = of_res (snd (sum_calc (sem_rec sy pp inp) tt v subs None)).
Proof.
  intros Ex H.
  destruct (calc_add_accepts (calc fuel sy pp) s v x q H) as (subs & Es & E1).
  destruct (calc_add_accepts (sem_rec sy pp inp) tt v x q H) as (subs' & Es' & E2).
  assert (subs' = subs) by congruence. subst subs'.
  exists subs. split; [exact Es|]. cbn [step sem_answer]. rewrite Ex, E1, E2. split; reflexivity.
Qed.

Theorem matrix_accepts_divide fuel sy pp inp s v x q :
  nth_error (vars sy) v = Some x ->
  error_cell (v_unit x) (p_unit q) (size_one q) ODivide = false ->
  exists den, divide_denominator q (enclosing (v_unit x) (p_start q)) = Ok den
    /\ step fuel sy pp s (RDivide v q) =
       (let '(s1, r) := calc fuel sy pp s v (enclosing (v_unit x) (p_start q)) in (s1, quot_answer r den))
    /\ sem_answer sy pp inp (RDivide v q) = quot_answer (sem sy pp inp v (enclosing (v_unit x) (p_start q))) den.
Proof.
  intros Ex H.
  destruct (calc_divide_accepts (calc fuel sy pp) s v x q H) as (cp & den & _ & Ecp & Ed & E1).
  destruct (calc_divide_accepts (sem_rec sy pp inp) tt v x q H) as (cp' & den' & _ & Ecp' & Ed' & E2).
  subst cp cp'. assert (den' = den) by congruence. subst den'.
  exists den. split; [exact Ed|]. cbn [step sem_answer]. rewrite Ex, E1, E2. unfold sem. split.
  - destruct (calc fuel sy pp s v _) as [s1 [a|e]]; reflexivity.
  - destruct (sem_rec sy pp inp tt v _) as [[] [a|e]]; reflexivity.
Qed.

(** * Sums *)

Lemma sum_calc_results (rec : unit -> nat -> period -> unit * res val) v subs : forall acc,
  snd (sum_calc rec tt v subs acc) = sum_results (map (fun q => snd (rec tt v q)) subs) acc.
Proof.
  induction subs as [|q r IH]; intros acc; cbn [sum_calc map sum_results]; [reflexivity|].
  destruct (rec tt v q) as [[] [a|e]]; cbn [snd]; [apply IH|reflexivity].
Qed.

Lemma zip2_add_nth : forall b a, length a = length b ->
  length (zip2 Z.add b a) = length b /\ forall i, nth i (zip2 Z.add b a) 0 = nth i b 0 + nth i a 0.
Proof.
  induction b as [|y b IH]; intros [|z a] H; try discriminate H; cbn [zip2 length].
  - split; [reflexivity|]. intros [|i]; reflexivity.
  - injection H as H. destruct (IH a H) as [L N]. split; [now rewrite L|].
    intros [|i]; cbn [nth]; [reflexivity|apply N].
Qed.

Lemma sum_results_acc arrays n : forall b, length b = n -> Forall (fun a => length a = n) arrays ->
  exists tot, sum_results (map Ok arrays) (Some b) = Ok tot /\ length tot = n
    /\ forall i, nth i tot 0 = nth i b 0 + column_sum i arrays.
Proof.
  induction arrays as [|a r IH]; intros b Hb Hall; cbn [map sum_results].
  - exists b. split; [reflexivity|]. split; [exact Hb|]. intros i. unfold column_sum. cbn. lia.
  - inversion Hall as [|? ? Ha Hr]; subst.
    destruct (zip2_add_nth b a ltac:(congruence)) as [L N].
    destruct (IH (zip2 Z.add b a) L Hr) as (tot & E & Lt & Nt).
    exists tot. split; [exact E|]. split; [exact Lt|].
    intros i. rewrite Nt, N. unfold column_sum. cbn [map fold_right]. lia.
Qed.

(** every piece has a value, all arrays have the population's length: the result is the
    element-wise total *)
Theorem sum_results_columns a0 arrays n :
  Forall (fun a => length a = n) (a0 :: arrays) ->
  exists tot, sum_results (map Ok (a0 :: arrays)) None = Ok tot /\ length tot = n
    /\ forall i, nth i tot 0 = column_sum i (a0 :: arrays).
Proof.
  intros Hall. inversion Hall as [|? ? Ha Hr]; subst. cbn [map sum_results].
  destruct (sum_results_acc arrays (length a0) a0 eq_refl Hr) as (tot & E & L & N).
  exists tot. split; [exact E|]. split; [exact L|]. intros i. rewrite N. reflexivity.
Qed.

Lemma sum_results_error rs : forall acc e, In (Err e) rs ->
  exists e', sum_results rs acc = Err e'.
Proof.
  induction rs as [|r rs IH]; intros acc e H; [destruct H|].
  destruct r as [a|e0]; cbn [sum_results]; [|eexists; reflexivity].
  destruct H as [H|H]; [discriminate|]. eapply IH; eauto.
Qed.

(** * ADD is the sum over the exact tiling; DIVIDE is the enclosing value over the count *)

Lemma same_family_add_cell du ru one : same_family ru du = true -> error_cell du ru one OAdd = false.
Proof. destruct du, ru; try discriminate; reflexivity. Qed.

Lemma same_family_divide_cell du ru : same_family du ru = true -> error_cell du ru true ODivide = false.
Proof. destruct du, ru; try discriminate; reflexivity. Qed.

Lemma valid_first_of_month y m d : valid (y, m, d) -> valid (y, m, 1).
Proof. unfold valid, validb. pose proof (dim_bounds y m). lia. Qed.

Lemma valid_first_of_year y m d : valid (y, m, d) -> valid (y, 1, 1).
Proof. unfold valid, validb. pose proof (dim_bounds y 1). lia. Qed.

Lemma enclosing_wf du c : du <> Eternity -> valid c -> wf (enclosing du c).
Proof.
  intros Hu Hv. destruct c as [[y m] d]. unfold wf.
  destruct du; try congruence; cbn [enclosing p_unit p_start p_size fst snd];
    (split; [discriminate|]); (split; [|lia]); auto.
  - apply (start_of_week_spec _ Hv).
  - eapply valid_first_of_month; eauto.
  - eapply valid_first_of_year; eauto.
Qed.

Lemma enclosing_aligned du ru c : valid c -> same_family du ru = true ->
  aligned ru (p_start (enclosing du c)).
Proof.
  intros Hv Hf. destruct c as [[y m] d].
  destruct du, ru; try discriminate Hf; cbn [enclosing p_start fst snd aligned]; auto.
  - destruct (start_of_week (y, m, d)) as [[a b] c]; exact I.
  - destruct (start_of_week (y, m, d)) as [[a b] c] eqn:E. rewrite <- E. apply (start_of_week_spec _ Hv).
Qed.

Lemma enclosing_unit du c : p_unit (enclosing du c) = du /\ p_size (enclosing du c) = 1.
Proof. destruct c as [[y m] d]. destruct du; split; reflexivity. Qed.

Lemma denominator_is_count du q : valid (p_start q) -> p_size q = 1 ->
  same_family du (p_unit q) = true ->
  divide_denominator q (enclosing du (p_start q)) = Ok (count_in (enclosing du (p_start q)) (p_unit q)).
Proof.
  intros Hv Hn Hf.
  assert (Hdu : du <> Eternity) by (destruct du; try discriminate; destruct (p_unit q); discriminate).
  pose proof (enclosing_wf du (p_start q) Hdu Hv) as Hwf.
  destruct (enclosing_unit du (p_start q)) as [Hcu Hcs].
  unfold divide_denominator, count_in. rewrite Hcu.
  destruct du, (p_unit q) eqn:Eru; try discriminate Hf.
  - apply size_in_weekdays_spec; auto.
  - apply size_in_weekdays_spec; auto.
  - unfold size_in_weeks. destruct (enclosing Week (p_start q)) as [[u s] n] eqn:E.
    unfold p_unit, p_size in Hcu, Hcs; cbn [fst snd] in Hcu, Hcs. subst u n. reflexivity.
  - apply size_in_days_spec; auto.
  - apply size_in_days_spec; auto.
  - unfold size_in_months. rewrite Hcu, Hcs. reflexivity.
  - apply size_in_days_spec; auto.
  - unfold size_in_months. rewrite Hcu, Hcs. reflexivity.
  - unfold size_in_years. rewrite Hcu, Hcs. reflexivity.
Qed.

Section Claims.
  Variable sy : sys.
  Variable pp : popu.
  Variable inp : inputs.
  Hypothesis Hranked : ranked sy = true.
  Hypothesis Hloops : (1 <= max_loops sy)%nat.

  Theorem add_sum_of_tiles s v x q :
    Top sy pp inp s -> nth_error (vars sy) v = Some x ->
    wf q -> same_family (p_unit q) (v_unit x) = true -> aligned (v_unit x) (p_start q) ->
    exists subs,
      subperiods q (v_unit x) = Ok subs /\ pieces_ok q (v_unit x) subs
      /\ snd (step (enough_fuel sy) sy pp s (RAdd v q))
         = of_res (sum_results (map (sem sy pp inp v) subs) None)
      /\ sem_answer sy pp inp (RAdd v q) = of_res (sum_results (map (sem sy pp inp v) subs) None)
      /\ Top sy pp inp (fst (step (enough_fuel sy) sy pp s (RAdd v q))).
  Proof.
    intros HT Ex Hwf Hf Hal.
    destruct (subperiods_tile q (v_unit x) Hwf Hf Hal) as (subs & Es & Hp).
    exists subs. split; [exact Es|]. split; [exact Hp|].
    destruct (step_refines_meaning sy pp inp Hranked Hloops s (RAdd v q) eq_refl HT) as [H1 H2].
    assert (Hs : sem_answer sy pp inp (RAdd v q) = of_res (sum_results (map (sem sy pp inp v) subs) None)).
    { destruct (matrix_accepts_add (enough_fuel sy) sy pp inp s v x q Ex
                  (same_family_add_cell _ _ _ Hf)) as (subs' & Es' & _ & E).
      assert (subs' = subs) by congruence. subst subs'.
      rewrite E, sum_calc_results. reflexivity. }
    split; [now rewrite H1|]. split; [exact Hs|exact H2].
  Qed.

  Theorem divide_enclosing_over_count s v x q :
    Top sy pp inp s -> nth_error (vars sy) v = Some x ->
    valid (p_start q) -> p_size q = 1 -> same_family (v_unit x) (p_unit q) = true ->
    let cp := enclosing (v_unit x) (p_start q) in
    let den := count_in cp (p_unit q) in
    divide_period x q = Ok cp
    /\ divide_denominator q cp = Ok den
    /\ (exists subs, subperiods cp (p_unit q) = Ok subs /\ pieces_ok cp (p_unit q) subs)
    /\ snd (step (enough_fuel sy) sy pp s (RDivide v q)) = quot_answer (sem sy pp inp v cp) den
    /\ sem_answer sy pp inp (RDivide v q) = quot_answer (sem sy pp inp v cp) den
    /\ Top sy pp inp (fst (step (enough_fuel sy) sy pp s (RDivide v q))).
  Proof.
    intros HT Ex Hv Hn Hf cp den.
    assert (Hdu : v_unit x <> Eternity)
      by (destruct (v_unit x); try discriminate; destruct (p_unit q); discriminate).
    assert (Hcell : error_cell (v_unit x) (p_unit q) (size_one q) ODivide = false).
    { unfold size_one. rewrite Hn. cbn [Z.eqb Pos.eqb]. now apply same_family_divide_cell. }
    destruct (calc_divide_accepts (sem_rec sy pp inp) tt v x q Hcell) as (cp' & den' & Ecp & Ecp' & _ & _).
    split; [now rewrite Ecp, Ecp'|].
    pose proof (denominator_is_count (v_unit x) q Hv Hn Hf) as Hden. fold cp in Hden. fold den in Hden.
    split; [exact Hden|].
    split.
    { destruct (enclosing_unit (v_unit x) (p_start q)) as [Hcu _].
      apply subperiods_tile.
      - now apply enclosing_wf.
      - unfold cp. now rewrite Hcu.
      - now apply enclosing_aligned. }
    destruct (step_refines_meaning sy pp inp Hranked Hloops s (RDivide v q) eq_refl HT) as [H1 H2].
    destruct (matrix_accepts_divide (enough_fuel sy) sy pp inp s v x q Ex Hcell) as (den2 & Ed2 & _ & E).
    fold cp in Ed2, E. assert (den2 = den) by congruence. subst den2.
    split; [now rewrite H1|]. split; [exact E|exact H2].
  Qed.
End Claims.

(** * The table, listed *)

Lemma accept_reject_table_proof :
  accepted_pairs true OPlain =
    [(Weekday, Weekday); (Week, Week); (Day, Day); (Month, Month); (Year, Year);
     (Eternity, Weekday); (Eternity, Week); (Eternity, Day); (Eternity, Month); (Eternity, Year);
     (Eternity, Eternity)]
  /\ accepted_pairs false OPlain =
    [(Eternity, Weekday); (Eternity, Week); (Eternity, Day); (Eternity, Month); (Eternity, Year);
     (Eternity, Eternity)]
  /\ accepted_pairs true OAdd =
    [(Weekday, Weekday); (Weekday, Week); (Weekday, Day); (Weekday, Month); (Weekday, Year);
     (Week, Week); (Week, Month); (Week, Year);
     (Day, Weekday); (Day, Week); (Day, Day); (Day, Month); (Day, Year);
     (Month, Month); (Month, Year); (Year, Year)]
  /\ accepted_pairs false OAdd = accepted_pairs true OAdd
  /\ accepted_pairs true ODivide =
    [(Weekday, Weekday); (Weekday, Day); (Week, Weekday); (Week, Week); (Week, Day);
     (Day, Weekday); (Day, Day); (Month, Weekday); (Month, Week); (Month, Day); (Month, Month);
     (Year, Weekday); (Year, Week); (Year, Day); (Year, Month); (Year, Year)]
  /\ accepted_pairs false ODivide = []
  /\ (forall one, accepted_pairs one OBoth = [] /\ accepted_pairs one OUnknown = []).
Proof. repeat split; try reflexivity; destruct one; reflexivity. Qed.

(** every same-family pair of the value claims is an accepted cell *)
Lemma claimed_cells_accepted du ru :
  (same_family ru du = true -> forall one, error_cell du ru one OAdd = false)
  /\ (same_family du ru = true -> error_cell du ru true ODivide = false).
Proof.
  split; [intros H one; now apply same_family_add_cell|apply same_family_divide_cell].
Qed.

(** * Corollaries named by the property text *)

Lemma add_eternal_rejected fuel sy pp s v x q :
  nth_error (vars sy) v = Some x -> v_unit x = Eternity \/ p_unit q = Eternity ->
  step fuel sy pp s (RAdd v q) = (s, AErr EValue).
Proof.
  intros Ex H. apply (step_add_rejects fuel sy pp s v x q Ex).
  destruct H as [H|H]; rewrite H; [reflexivity|]. destruct (v_unit x); reflexivity.
Qed.

Lemma divide_eternal_or_long_rejected fuel sy pp s v x q :
  nth_error (vars sy) v = Some x ->
  v_unit x = Eternity \/ p_unit q = Eternity \/ p_size q <> 1 ->
  step fuel sy pp s (RDivide v q) = (s, AErr EValue).
Proof.
  intros Ex H. apply (step_divide_rejects fuel sy pp s v x q Ex). unfold size_one.
  destruct H as [H|[H|H]].
  - rewrite H. cbn [error_cell]. now rewrite orb_true_r.
  - rewrite H. destruct (v_unit x); cbn [error_cell]; now rewrite orb_true_r.
  - apply Z.eqb_neq in H. rewrite H. reflexivity.
Qed.

Lemma add_shorter_rejected fuel sy pp s v x q :
  nth_error (vars sy) v = Some x -> unit_weight (p_unit q) < unit_weight (v_unit x) ->
  step fuel sy pp s (RAdd v q) = (s, AErr EValue).
Proof.
  intros Ex H. apply (step_add_rejects fuel sy pp s v x q Ex).
  rewrite error_cell_class. unfold error_class. apply Z.ltb_lt in H. rewrite H.
  now rewrite !orb_true_r.
Qed.

(** * The pieces of an exact tiling *)

Lemma pieces_exact q u l : pieces_ok q u l ->
  (forall d, day_in q d <-> exists piece, In piece l /\ day_in piece d)
  /\ (forall i j a b, (i < j)%nat -> nth_error l i = Some a -> nth_error l j = Some b ->
        last_ord a < first_ord b)
  /\ Forall (fun piece => p_unit piece = u /\ p_size piece = 1) l
  /\ Z.of_nat (length l) = count_in q u.
Proof.
  intros (T & F & L). split; [|split; [|split]].
  - intros d. unfold day_in. apply (tiles_cover l _ _ T).
  - apply (tiles_disjoint l _ _ T).
  - eapply Forall_impl; [|exact F]. intros a (H1 & H2 & _). auto.
  - exact L.
Qed.

(** * The enclosing definition period contains the request period *)

Ltac Zify.zify_post_hook ::= Z.to_euclidean_division_equations.

Lemma add_years_jan1 y : add_years (y, 1, 1) 1 = (y + 1, 1, 1).
Proof.
  unfold add_years. rewrite add_months_small by lia.
  replace ((y * 12 + (1 - 1) + 12 * 1) / 12) with (y + 1) by lia.
  replace ((y * 12 + (1 - 1) + 12 * 1) mod 12 + 1) with 1 by lia. reflexivity.
Qed.

Lemma ord_jan1 y : ord (y, 1, 1) = ybase y + 1.
Proof. rewrite ord_off, off_1. lia. Qed.

Lemma enclosing_contains du q :
  valid (p_start q) -> p_size q = 1 -> same_family du (p_unit q) = true ->
  aligned (p_unit q) (p_start q) ->
  first_ord (enclosing du (p_start q)) <= first_ord q
  /\ last_ord q <= last_ord (enclosing du (p_start q)).
Proof.
  destruct q as [[ru [[y m] d]] n]. unfold p_unit, p_start, p_size; cbn [fst snd].
  intros Hv -> Hf Hal.
  pose proof (ord_pos _ Hv) as Hpos.
  assert (Hvi := proj1 (valid_iff y m d) Hv). destruct Hvi as (Hy & Hm & Hd).
  destruct du, ru; try discriminate Hf;
    unfold first_ord, last_ord, p_start; cbn [enclosing end_excl fst snd aligned] in *.
  - (* Weekday, Weekday *) lia.
  - (* Week, Weekday *)
    destruct (start_of_week_spec _ Hv) as (Vs & _ & Hs).
    destruct (add_days_ord (y, m, d) 1 Hv ltac:(lia)) as [_ E1].
    pose proof (ord_pos _ Vs).
    destruct (add_days_ord (start_of_week (y, m, d)) (7 * 1) Vs ltac:(lia)) as [_ E2].
    lia.
  - (* Week, Week *)
    assert (Es : start_of_week (y, m, d) = (y, m, d)).
    { unfold start_of_week. rewrite Hal. now apply add_days_0. }
    rewrite Es. lia.
  - (* Day, Day *) lia.
  - (* Month, Day *)
    destruct (add_days_ord (y, m, d) 1 Hv ltac:(lia)) as [_ E1].
    pose proof (ord_month_end y m Hm) as E2. rewrite !ord_off in *. rewrite dim_dim' in E2. lia.
  - (* Month, Month *) subst d. lia.
  - (* Year, Day *)
    destruct (add_days_ord (y, m, d) 1 Hv ltac:(lia)) as [_ E1].
    rewrite add_years_jan1, !ord_jan1, ybase_succ. pose proof (ord_in_year y m d Hv). lia.
  - (* Year, Month *)
    subst d. rewrite add_years_jan1, !ord_jan1, ybase_succ.
    pose proof (ord_in_year y m 1 Hv).
    pose proof (ord_month_end y m Hm) as E2.
    assert (Hv2 : valid (y, m, dim y m)).
    { apply valid_iff. rewrite <- dim_dim'. pose proof (dim_bounds y m). lia. }
    pose proof (ord_in_year y m (dim y m) Hv2). lia.
  - (* Year, Year *) destruct Hal as [-> ->]. lia.
Qed.
