(** Proofs about the situation-builder model, continued: the values declared in GROUP instances
    are stored at their canonical period and at the group's index, and the groups added for
    the persons left out hold default values (document level, documents without axes,
    variables without set-input rule). *)
From Coq Require Import ZArith QArith List Bool String Lia Permutation.
From Verif Require Import Base Cal Tables Period Builder BuilderSpec BuilderProofs BuilderGroupProofs
  BuilderValueProofs.
Import ListNotations.
Open Scope Z_scope.
Open Scope res_scope.

(** * Writing one variable leaves the arrays of the other variables alone *)

Lemma aget_touch_other b n vn : vn <> n -> aget vn (buf_touch b n) = aget vn b.
Proof.
  intros N. unfold buf_touch. destruct (aget n b); [reflexivity|]. apply aget_app_other. assumption.
Qed.

Lemma aget_put_other b n p a vn : vn <> n -> aget vn (buf_put b n p a) = aget vn b.
Proof.
  intros N. unfold buf_put. destruct (aget n b).
  - apply aget_aset_other. assumption.
  - apply aget_app_other. assumption.
Qed.

Lemma add_variable_value_other x st e v' idx t value st' vn :
  add_variable_value x st e v' idx t value = Ok st' -> v_name v' <> vn ->
  aget vn (b_buffer st') = aget vn (b_buffer st).
Proof.
  intros H N. destruct (json_eq_null value) as [->|Hn].
  - cbn in H. inversion H; subst. reflexivity.
  - destruct (add_variable_value_shape _ _ _ _ _ _ _ _ Hn H) as (p & arr & ->).
    cbn [set_buffer b_buffer]. rewrite aget_put_other, aget_touch_other by congruence. reflexivity.
Qed.

Lemma add_dated_other x e v' idx l vn : forall st st',
  add_dated x st e v' idx l = Ok st' -> v_name v' <> vn ->
  aget vn (b_buffer st') = aget vn (b_buffer st).
Proof.
  induction l as [|[t value] l IH]; intros st st'; cbn [add_dated].
  - intros H; inversion H; subst; reflexivity.
  - destruct (parse_key (tok x t)); [|discriminate]. intros H N. apply bind_ok in H.
    destruct H as (st1 & H1 & H2). rewrite (IH _ _ H2 N). eapply add_variable_value_other; eassumption.
Qed.

Section OtherVar.
  Variables (x : ext) (s : sys) (vn : string) (v : variable).
  Hypothesis Fv : find_var vn (s_vars s) = Some v.

  Lemma init_other e' id fields : forall st st',
    v_entity v <> e_key e' ->
    init_variable_values x s st e' fields id = Ok st' ->
    aget vn (b_buffer st') = aget vn (b_buffer st).
  Proof.
    induction fields as [|[vn' vals] fields IH]; intros st st' Ne; cbn [init_variable_values].
    - intros H; inversion H; subst; reflexivity.
    - destruct (find_var vn' (s_vars s)) as [v'|] eqn:Fv'; [|discriminate].
      destruct (String.eqb (v_entity v') (e_key e')) eqn:Ee; [|discriminate]. cbn [negb].
      apply String.eqb_eq in Ee.
      destruct (index_of id _); [|discriminate]. destruct vals; try discriminate.
      intros H. apply bind_ok in H. destruct H as (st1 & H1 & H2).
      rewrite (IH _ _ Ne H2). eapply add_dated_other; [eassumption|].
      intros E. apply find_var_name in Fv' as Nm. rewrite E in Nm. subst vn'.
      rewrite Fv in Fv'. inversion Fv'; subst v'. contradiction.
  Qed.

  Lemma add_group_instances_other e' pids eids l : forall st todo mr st' todo' mr',
    v_entity v <> e_key e' ->
    add_group_instances x s e' pids eids l st todo mr = Ok (st', todo', mr') ->
    aget vn (b_buffer st') = aget vn (b_buffer st).
  Proof.
    induction l as [|[gid j] l IH]; intros st todo mr st' todo' mr' Ne; cbn [add_group_instances].
    - intros H; inversion H; subst; reflexivity.
    - destruct j; try discriminate. intros H. apply bind_ok in H. destruct H as (t1 & _ & H).
      destruct (index_of gid eids); [|discriminate].
      apply bind_ok in H. destruct H as (m1 & _ & H).
      apply bind_ok in H. destruct H as (st1 & H1 & H2).
      rewrite (IH _ _ _ _ _ _ Ne H2). eapply init_other; eassumption.
  Qed.

  Lemma pad_buffer_other_var e' n b :
    v_entity v <> e_key e' -> aget vn (pad_buffer s e' n b) = aget vn b.
  Proof.
    intros Ne. unfold pad_buffer. rewrite aget_map_keyfix.
    - destruct (aget vn b) as [h|]; cbn [option_map]; [|reflexivity]. cbn [fst snd]. rewrite Fv.
      destruct (String.eqb (v_entity v) (e_key e')) eqn:Q; [apply String.eqb_eq in Q; contradiction|].
      reflexivity.
    - intros [k h]. cbn [fst].
      destruct (find_var k (s_vars s)); [destruct (String.eqb _ _)|]; reflexivity.
  Qed.

  Lemma add_group_entity_other st pids e' j st' :
    v_entity v <> e_key e' ->
    add_group_entity x s st pids e' j = Ok st' ->
    aget vn (b_buffer st') = aget vn (b_buffer st).
  Proof.
    intros Ne H. unfold add_group_entity in H. destruct j; try discriminate.
    apply bind_ok in H. destruct H as ([[st1 todo] mr] & H1 & H2).
    apply add_group_instances_other in H1; [|assumption]. cbn [set_ids b_buffer] in H1.
    destruct todo; inversion H2; subst st';
      cbn [set_roles set_members set_buffer set_ids b_buffer]; [assumption|].
    rewrite pad_buffer_other_var by assumption. assumption.
  Qed.

  Lemma add_groups_other pids params ax gs : forall st st',
    (forall g, In g gs -> v_entity v <> e_key g) ->
    add_groups x s st pids params ax gs = Ok st' ->
    aget vn (b_buffer st') = aget vn (b_buffer st).
  Proof.
    induction gs as [|g gs IH]; intros st st' Ne H; cbn [add_groups] in H.
    - inversion H; subst. reflexivity.
    - apply bind_ok in H. destruct H as (st1 & H1 & H2).
      rewrite (IH _ _ (fun g' I => Ne g' (or_intror I)) H2).
      destruct (aget (e_plural g) params) as [j|].
      + destruct j; try (eapply add_group_entity_other; [apply Ne; left; reflexivity|eassumption]);
          destruct ax; try discriminate; inversion H1; subst; reflexivity.
      + destruct ax; try discriminate; inversion H1; subst; reflexivity.
  Qed.

  Lemma add_person_instances_other l : forall st st',
    v_entity v <> e_key (s_person s) ->
    add_person_instances x s st l = Ok st' ->
    aget vn (b_buffer st') = aget vn (b_buffer st).
  Proof.
    induction l as [|[pid j] l IH]; intros st st' Ne; cbn [add_person_instances].
    - intros H; inversion H; subst; reflexivity.
    - destruct j; try discriminate. intros H. apply bind_ok in H. destruct H as (st1 & H1 & H2).
      rewrite (IH _ _ Ne H2). eapply init_other; eassumption.
  Qed.
End OtherVar.

(** * Inside one group kind: the arrays of its variables have one cell per declared group *)

(* every array buffered for variable [vn] has length [n] *)
Definition len_is (b : buffer) (vn : string) (n : nat) : Prop :=
  forall p arr, buf_get b vn p = Some arr -> List.length arr = n.

Lemma add_variable_value_len x st e v idx t value st' vn n :
  add_variable_value x st e v idx t value = Ok st' ->
  (v_name v = vn -> get_count st (e_plural e) = n) ->
  len_is (b_buffer st) vn n -> len_is (b_buffer st') vn n.
Proof.
  intros H Hc L. destruct (json_eq_null value) as [->|Hn].
  { cbn in H. inversion H; subst. assumption. }
  destruct (add_variable_value_spec _ _ _ _ _ _ _ _ Hn H)
    as (p & c & old & _ & _ & Hold & _ & Hget & Hoth & _).
  intros q arr G.
  destruct (string_dec (v_name v) vn) as [Ev|Ev].
  - destruct (period_eq_dec_b q p) as [->|Nq].
    + rewrite <- Ev in G. rewrite Hget in G. inversion G; subst arr. rewrite list_set_length.
      subst old. rewrite Ev. destruct (buf_get (b_buffer st) vn p) as [a|] eqn:Ga.
      * eapply L; eassumption.
      * unfold default_array. rewrite repeat_length. apply Hc. assumption.
    + rewrite Hoth in G by congruence. eapply L; eassumption.
  - rewrite Hoth in G by congruence. eapply L; eassumption.
Qed.

Lemma add_dated_len x e v idx l vn n : forall st st',
  add_dated x st e v idx l = Ok st' ->
  (v_name v = vn -> get_count st (e_plural e) = n) ->
  len_is (b_buffer st) vn n -> len_is (b_buffer st') vn n.
Proof.
  induction l as [|[t value] l IH]; intros st st'; cbn [add_dated].
  - intros H; inversion H; subst; auto.
  - destruct (parse_key (tok x t)); [|discriminate]. intros H Hc L. apply bind_ok in H.
    destruct H as (st1 & H1 & H2). eapply IH; [eassumption| |].
    + intros E. unfold get_count. rewrite (get_ids_frame st st1)
        by (eapply add_variable_value_frame; eassumption). apply Hc. assumption.
    + eapply add_variable_value_len; eassumption.
Qed.

Lemma init_len x s e id fields vn n : forall st st',
  init_variable_values x s st e fields id = Ok st' ->
  get_count st (e_plural e) = n ->
  len_is (b_buffer st) vn n -> len_is (b_buffer st') vn n.
Proof.
  induction fields as [|[vn' vals] fields IH]; intros st st'; cbn [init_variable_values].
  - intros H; inversion H; subst; auto.
  - destruct (find_var vn' (s_vars s)); [|discriminate].
    destruct (negb _); [discriminate|]. destruct (index_of id _); [|discriminate].
    destruct vals; try discriminate. intros H Hc L. apply bind_ok in H.
    destruct H as (st1 & H1 & H2). eapply IH; [eassumption| |].
    + unfold get_count. rewrite (get_ids_frame st st1) by (eapply add_dated_frame; eassumption).
      assumption.
    + eapply add_dated_len; [eassumption|intros _; assumption|assumption].
Qed.

Lemma add_group_instances_len x s e pids eids l vn n : forall st todo mr st' todo' mr',
  add_group_instances x s e pids eids l st todo mr = Ok (st', todo', mr') ->
  get_count st (e_plural e) = n ->
  len_is (b_buffer st) vn n -> len_is (b_buffer st') vn n.
Proof.
  induction l as [|[gid j] l IH]; intros st todo mr st' todo' mr'; cbn [add_group_instances].
  - intros H; inversion H; subst; auto.
  - destruct j; try discriminate. intros H Hc L. apply bind_ok in H. destruct H as (t1 & _ & H).
    destruct (index_of gid eids); [|discriminate].
    apply bind_ok in H. destruct H as (m1 & _ & H).
    apply bind_ok in H. destruct H as (st1 & H1 & H2).
    eapply IH; [eassumption| |].
    + unfold get_count. rewrite (get_ids_frame st st1)
        by (eapply init_variable_values_frame; eassumption). assumption.
    + eapply init_len; eassumption.
Qed.

(* after the padding: the declared cells are kept, the added ones hold the default *)
Lemma pad_buffer_same s e n b vn v p :
  find_var vn (s_vars s) = Some v -> v_entity v = e_key e ->
  buf_get (pad_buffer s e n b) vn p = option_map (pad_array v n) (buf_get b vn p).
Proof.
  intros Fv Ev. unfold buf_get, pad_buffer. rewrite aget_map_keyfix.
  - destruct (aget vn b) as [h|]; cbn [option_map]; [|reflexivity]. cbn [fst snd].
    rewrite Fv, Ev, String.eqb_refl. cbn [snd].
    induction h as [|[k w] h IH]; cbn [map hget fst snd]; [reflexivity|].
    destruct (period_eqb k p); [reflexivity|assumption].
  - intros [k h]. cbn [fst].
    destruct (find_var k (s_vars s)); [destruct (String.eqb _ _)|]; reflexivity.
Qed.

(** what [add_group_entity] guarantees for the arrays of a variable [vn] of its kind, when no
    array of [vn] was buffered before: every array has one cell per group of the kind (declared
    and added), and the added groups hold the default *)
Lemma add_group_entity_arrays x s st pids e instances st' vn v :
  find_var vn (s_vars s) = Some v -> v_entity v = e_key e ->
  aget vn (b_buffer st) = None ->
  b_ax_ids st = [] ->
  add_group_entity x s st pids e (JObj instances) = Ok st' ->
  forall p arr, buf_get (b_buffer st') vn p = Some arr ->
    List.length arr = List.length (ids_of st' (e_plural e)) /\
    (forall g, (List.length instances <= g < List.length arr)%nat ->
               nth_error arr g = Some (v_default v)).
Proof.
  intros Fv Ev Hnone Hax H p arr G. unfold add_group_entity in H.
  apply bind_ok in H. destruct H as ([[st1 todo] mr] & H1 & H2).
  set (st0 := set_ids st (e_plural e) (map fst instances)) in *.
  assert (get_count st0 (e_plural e) = List.length instances) as C0.
  { unfold get_count, get_ids, ids_of, st0. cbn [set_ids b_ax_ids b_ids]. rewrite Hax. cbn [aget].
    rewrite aget_aset_same. apply map_length. }
  assert (len_is (b_buffer st0) vn (List.length instances)) as L0.
  { intros q a Gq. unfold buf_get, st0 in Gq. cbn [set_ids b_buffer] in Gq. rewrite Hnone in Gq.
    discriminate. }
  pose proof (add_group_instances_len _ _ _ _ _ _ vn _ _ _ _ _ _ _ H1 C0 L0) as L1.
  pose proof (add_group_instances_ids _ _ _ _ _ _ _ _ _ _ _ _ H1) as [Hi _].
  destruct todo as [|t0 todo].
  - inversion H2; subst st'. cbn [set_roles set_members b_buffer] in G.
    unfold ids_of. cbn [set_roles set_members b_ids]. rewrite Hi. unfold st0. cbn [set_ids b_ids].
    rewrite aget_aset_same, map_length. pose proof (L1 _ _ G) as Ln. split; [assumption|].
    intros g Hg. lia.
  - inversion H2; subst st'. cbn [set_roles set_members set_buffer set_ids b_buffer] in G.
    unfold ids_of. cbn [set_roles set_members set_buffer set_ids b_ids]. rewrite aget_aset_same.
    rewrite (pad_buffer_same s e _ _ vn v p Fv Ev) in G.
    destruct (buf_get (b_buffer st1) vn p) as [a|] eqn:Ga; [|discriminate].
    cbn [option_map] in G. inversion G; subst arr. pose proof (L1 _ _ Ga) as Ln.
    destruct (pad_array_spec v (List.length (map fst instances ++ set_order x (t0 :: todo))) a)
      as (P1 & _ & P3).
    { rewrite Ln, app_length, map_length. lia. }
    split; [assumption|]. intros g Hg. apply P3. rewrite Ln. rewrite P1 in Hg. lia.
Qed.

(** * Splitting the run over the group kinds at one kind *)

Lemma add_groups_split x s pids params ax gs e : forall st st',
  In e gs -> add_groups x s st pids params ax gs = Ok st' ->
  exists gpre gpost sta stb,
    gs = gpre ++ e :: gpost /\
    add_groups x s st pids params ax gpre = Ok sta /\
    add_groups x s sta pids params ax [e] = Ok stb /\
    add_groups x s stb pids params ax gpost = Ok st'.
Proof.
  intros st st' I H. apply in_split in I. destruct I as (gpre & gpost & ->).
  rewrite add_groups_app in H. apply bind_ok in H. destruct H as (sta & Ha & H).
  change (e :: gpost) with ([e] ++ gpost) in H. rewrite add_groups_app in H.
  apply bind_ok in H. destruct H as (stb & Hb & Hc).
  exists gpre, gpost, sta, stb. repeat split; assumption.
Qed.

Lemma NoDup_app_parts {A} (l1 l2 : list A) a :
  NoDup (l1 ++ a :: l2) -> ~ In a l1 /\ ~ In a l2.
Proof.
  intros N. pose proof (NoDup_remove_2 _ _ _ N) as R.
  split; intros I; apply R; apply in_or_app; [left|right]; assumption.
Qed.

Lemma In_hget h p a : NoDup (map fst h) -> In (p, a) h -> hget h p = Some a.
Proof.
  induction h as [|[k w] h IH]; intros N I; [destruct I|]. cbn [map fst] in N. inversion N; subst.
  cbn [hget]. destruct I as [E|I].
  - inversion E; subst. rewrite bp_period_eqb_refl. reflexivity.
  - destruct (period_eqb k p) eqn:Q; [|apply IH; assumption].
    apply bp_period_eqb_eq in Q. subst k. exfalso. apply H1. apply in_map_iff.
    exists (p, a). split; [reflexivity|assumption].
Qed.

Lemma key_or_not {A} (L : list (period * A)) p :
  (exists a, In (p, a) L) \/ ~ In p (map fst L).
Proof.
  induction L as [|[k w] L IH]; [right; intros []|].
  destruct (period_eq_dec_b k p) as [->|N]; [left; exists w; left; reflexivity|].
  destruct IH as [(a & I)|Nn]; [left; exists a; right; assumption|].
  right. cbn [map fst In]. intros [E|I]; [contradiction|contradiction].
Qed.

(** * The stages of a successful build without axes, around one group kind *)

Section Stages.
  Variables (x : ext) (s : sys) (doc : list (string * json)) (sim : simulation).
  Variables (persons : list (string * json)) (e : entity) (instances : list (string * json)).
  Hypothesis NDp : NoDup (plurals s).
  Hypothesis NDs : NoDup (singulars s).
  Hypothesis Hax : aget "axes"%string doc = None.
  Hypothesis Hp : aget (e_plural (s_person s)) (aremove "axes" doc) = Some (JObj persons).
  Hypothesis Ie : In e (s_groups s).
  Hypothesis Hinst : aget (e_plural e) (aremove "axes" doc) = Some (JObj instances).
  Hypothesis Hb : build_from_entities x s doc = Ok sim.

  Let pp := e_plural (s_person s).
  Let params := aremove "axes" doc.

  Lemma stages :
    exists st1 gpre gpost sta stb st2 pop hs,
      add_person_instances x s (set_ids b_empty pp (map fst persons)) persons = Ok st1 /\
      s_groups s = gpre ++ e :: gpost /\
      add_groups x s st1 (get_ids st1 pp) params false gpre = Ok sta /\
      add_group_entity x s sta (get_ids st1 pp) e (JObj instances) = Ok stb /\
      add_groups x s stb (get_ids st1 pp) params false gpost = Ok st2 /\
      In pop sim /\
      flush_buffer s e (get_count st2 (e_plural e)) (b_buffer st2) [] = Ok hs /\
      pop = mkPop (e_key e) (get_ids st2 (e_plural e)) (get_memberships st2 (e_plural e))
                  (get_roles st2 (e_plural e)) hs.
  Proof.
    unfold pp, params. unfold build_from_entities in Hb.
    rewrite Hp, Hax in Hb.
    destruct (existsb _ (aremove "axes" doc)); [discriminate|].
    destruct persons as [|i0 rest] eqn:Ep; [discriminate|]. rewrite <- Ep in *.
    apply bind_ok in Hb. destruct Hb as (st1 & H1 & H).
    apply bind_ok in H. destruct H as (st2 & H2 & H). cbn [bind] in H.
    destruct (add_groups_split _ _ _ _ _ _ _ _ _ Ie H2) as (gpre & gpost & sta & stb & Eg & Ha & He & Hc).
    cbn [add_groups] in He. rewrite Hinst in He.
    apply bind_ok in He. destruct He as (stb' & He & E'). inversion E'; subst stb'.
    assert (In e (entities s)) as Ie' by (right; assumption).
    destruct (mapM_In _ _ _ _ H Ie') as (pop & F & Ipop).
    unfold finalize_population in F. apply bind_ok in F. destruct F as (hs & Fl & F).
    inversion F. exists st1, gpre, gpost, sta, stb, st2, pop, hs.
    unfold add_person_entity in H1. repeat split; try assumption. symmetry. assumption.
  Qed.

  (* a variable of this group kind *)
  Variables (vn : string) (v : variable).
  Hypothesis Fv : find_var vn (s_vars s) = Some v.
  Hypothesis Ev : v_entity v = e_key e.

  Lemma key_apart g : In g (entities s) -> g <> e -> e_key g <> e_key e.
  Proof.
    intros Ig Ne E. unfold singulars in NDs.
    assert (In e (entities s)) as Ie' by (right; assumption).
    clear -NDs Ig Ie' Ne E. induction (entities s) as [|a l IH]; [destruct Ig|].
    cbn [map] in NDs. inversion NDs; subst.
    destruct Ig as [->|Ig], Ie' as [->|Ie']; try contradiction.
    - apply H1. rewrite E. apply in_map. assumption.
    - apply H1. rewrite <- E. apply in_map. assumption.
    - apply IH; assumption.
  Qed.

  Lemma stage_facts st1 gpre gpost sta stb st2 :
    add_person_instances x s (set_ids b_empty pp (map fst persons)) persons = Ok st1 ->
    s_groups s = gpre ++ e :: gpost ->
    add_groups x s st1 (get_ids st1 pp) params false gpre = Ok sta ->
    add_group_entity x s sta (get_ids st1 pp) e (JObj instances) = Ok stb ->
    add_groups x s stb (get_ids st1 pp) params false gpost = Ok st2 ->
    aget vn (b_buffer sta) = None /\ b_ax_ids sta = [] /\
    aget vn (b_buffer st2) = aget vn (b_buffer stb) /\
    get_ids st2 (e_plural e) = ids_of stb (e_plural e) /\
    buf_ok (b_buffer sta) /\ buf_ok (b_buffer st2) /\
    get_ids sta (e_plural e) = ids_of sta (e_plural e).
  Proof.
    intros H1 Eg Ha He Hc.
    assert (NoDup (map e_plural (s_groups s)) /\ ~ In pp (map e_plural (s_groups s))) as [NDg Npp].
    { unfold plurals, entities in NDp. cbn [map] in NDp. inversion NDp; subst. split; assumption. }
    rewrite Eg, map_app in NDg. cbn [map] in NDg.
    destruct (NoDup_app_parts _ _ _ NDg) as (N1 & N2).
    assert (forall g, In g gpre \/ In g gpost -> g <> e) as Diff.
    { intros g [I|I] ->; [apply N1|apply N2]; apply in_map; assumption. }
    assert (forall g, In g gpre \/ In g gpost -> v_entity v <> e_key g) as Apart.
    { intros g I E'. rewrite Ev in E'. symmetry in E'. revert E'. apply key_apart; [|apply Diff; assumption].
      right. rewrite Eg. apply in_or_app. destruct I as [I|I]; [left; assumption|right; right; assumption]. }
    assert (v_entity v <> e_key (s_person s)) as Nperson.
    { rewrite Ev. intros E'. symmetry in E'. revert E'. apply key_apart; [left; reflexivity|].
      intros E2. apply Npp. unfold pp. rewrite E2. apply in_map. assumption. }
    pose proof (add_person_instances_other x s vn v Fv _ _ _ Nperson H1) as O1.
    cbn [set_ids b_empty b_buffer aget] in O1.
    pose proof (add_groups_other x s vn v Fv _ _ _ _ _ _ (fun g I => Apart g (or_introl I)) Ha) as Oa.
    pose proof (add_groups_other x s vn v Fv _ _ _ _ _ _ (fun g I => Apart g (or_intror I)) Hc) as Oc.
    pose proof (add_person_instances_frame _ _ _ _ _ H1) as (_ & _ & _ & X1 & _).
    cbn [set_ids b_empty b_ax_ids] in X1.
    destruct (add_groups_ax _ _ _ _ _ _ _ _ Ha) as (Ya & _).
    assert (b_ax_ids sta = []) as Axa by congruence.
    split; [congruence|]. split; [assumption|]. split; [assumption|].
    pose proof (add_group_entity_frame _ _ _ _ _ _ _ He) as (_ & Yb & _).
    destruct (add_groups_other_ids _ _ _ _ _ _ (e_plural e) _ _ Hc N2) as (Ic & Yc).
    split.
    { unfold get_ids, ids_of. rewrite Yc, Yb, Axa. cbn [aget]. rewrite Ic. reflexivity. }
    assert (buf_ok (b_buffer (set_ids b_empty pp (map fst persons)))) as B0 by (split; constructor).
    pose proof (add_person_instances_ok _ _ _ _ _ H1 B0) as B1.
    assert (forall gs sa sb, add_groups x s sa (get_ids st1 pp) params false gs = Ok sb ->
              buf_ok (b_buffer sa) -> buf_ok (b_buffer sb)) as Bg.
    { clear. induction gs as [|g gs IH]; intros sa sb H B; cbn [add_groups] in H.
      - inversion H; subst. assumption.
      - apply bind_ok in H. destruct H as (s1 & H1 & H2). eapply IH; [eassumption|].
        destruct (aget (e_plural g) params) as [j|].
        + destruct j; try (eapply (add_group_entity_ok x s); eassumption);
            inversion H1; subst; assumption.
        + inversion H1; subst; assumption. }
    pose proof (Bg _ _ _ Ha B1) as Ba.
    pose proof (add_group_entity_ok x s _ _ _ _ _ He Ba) as Bb.
    split; [assumption|]. split; [eapply Bg; eassumption|].
    unfold get_ids. rewrite Axa. reflexivity.
  Qed.
End Stages.

(** * The groups added for the persons left out hold default values (document level) *)

Theorem build_own_groups_default x s doc sim persons e instances vn v :
  NoDup (plurals s) -> NoDup (singulars s) ->
  aget "axes"%string doc = None ->
  aget (e_plural (s_person s)) (aremove "axes" doc) = Some (JObj persons) ->
  In e (s_groups s) ->
  aget (e_plural e) (aremove "axes" doc) = Some (JObj instances) ->
  build_from_entities x s doc = Ok sim ->
  find_var vn (s_vars s) = Some v -> v_entity v = e_key e ->
  v_rule v = RNone -> eternal v = false -> v_end v = None ->
  exists pop, In pop sim /\ p_entity pop = e_key e /\
    forall h p arr, aget vn (p_holders pop) = Some h -> hget h p = Some arr ->
      List.length arr = List.length (p_ids pop) /\
      forall g, (List.length instances <= g < List.length (p_ids pop))%nat ->
                nth_error arr g = Some (v_default v).
Proof.
  intros NDp NDs Hax Hp Ie Hinst Hb Fv Ev Hr He Hend.
  destruct (stages x s doc sim persons e instances Hax Hp Ie Hinst Hb)
    as (st1 & gpre & gpost & sta & stb & st2 & pop & hs & H1 & Eg & Ha & Hent & Hc & Ipop & Fl & Epop).
  destruct (stage_facts x s doc persons e instances NDp NDs Ie vn v Fv Ev _ _ _ _ _ _ H1 Eg Ha Hent Hc)
    as (Hnone & Axa & Same & Ids2 & Ba & B2 & _).
  exists pop. split; [assumption|]. subst pop. cbn [p_entity p_ids p_holders]. split; [reflexivity|].
  intros h p arr Ah Gh. destruct B2 as [ND2 FA2].
  destruct (flush_buffer_get _ _ _ _ _ _ ND2 Fl) as (Get & Oth).
  destruct (aget vn (b_buffer st2)) as [entries|] eqn:Ge.
  2:{ rewrite (Oth vn (aget_none_notin _ _ Ge)) in Ah. discriminate. }
  destruct (Get vn entries v (aget_In _ _ _ Ge) Fv Ev) as (h' & Ah' & Fh).
  rewrite Ah in Ah'. inversion Ah'; subst h'. cbn [aget] in Fh.
  assert (NoDup (map fst entries)) as NDe.
  { rewrite Forall_forall in FA2. apply (FA2 _ (aget_In _ _ _ Ge)). }
  assert (NoDup (map fst (sort_periods entries))) as NDk.
  { eapply Permutation_NoDup; [apply Permutation_map; symmetry; apply sort_periods_perm|assumption]. }
  destruct (flush_periods_rnone v _ Hr He Hend _ _ _ NDk Fh) as (St & Other).
  destruct (key_or_not (sort_periods entries) p) as [(arr0 & I0)|Nk].
  2:{ rewrite (Other p Nk) in Gh. discriminate. }
  destruct (St p arr0 I0) as (Hg & Hl). rewrite Gh in Hg. inversion Hg; subst arr.
  assert (buf_get (b_buffer stb) vn p = Some arr0) as Gb.
  { unfold buf_get. rewrite <- Same. apply In_hget; [assumption|].
    eapply Permutation_in; [apply sort_periods_perm|assumption]. }
  destruct (add_group_entity_arrays x s sta _ e instances stb vn v Fv Ev Hnone Axa Hent p arr0 Gb)
    as (Ln & Own).
  unfold get_count in *. rewrite Ids2 in *.
  rewrite repeat_list_length in Hl.
  split; [rewrite repeat_list_length; exact Hl|].
  intros g Hg'. rewrite repeat_list_one; [apply Own; lia| |lia].
  destruct (List.length (ids_of stb (e_plural e)) / List.length arr0)%nat; lia.
Qed.

(** * The values declared in group instances (document level) *)

Lemma aremove_app {A} a (l1 l2 : list (string * A)) :
  aremove a (l1 ++ l2) = aremove a l1 ++ aremove a l2.
Proof.
  induction l1 as [|[k v] l1 IH]; cbn [app aremove]; [reflexivity|].
  destruct (String.eqb k a); [assumption|]. cbn [app]. rewrite IH. reflexivity.
Qed.

Lemma aremove_keys_sub {A} a (l : list (string * A)) k : In k (map fst (aremove a l)) -> In k (map fst l).
Proof.
  induction l as [|[k' v] l IH]; cbn [aremove map fst In]; [tauto|].
  destruct (String.eqb k' a); cbn [map fst In]; tauto.
Qed.

Lemma without_roles_split e pre vn vals post :
  ~ In vn (map role_name (e_roles e)) ->
  without_roles e (pre ++ (vn, vals) :: post)
  = without_roles e pre ++ (vn, vals) :: without_roles e post
  /\ (forall k, In k (map fst (without_roles e post)) -> In k (map fst post)).
Proof.
  unfold without_roles. revert pre post. induction (e_roles e) as [|r rs IH]; intros pre post N;
    cbn [fold_left].
  - split; [reflexivity|auto].
  - cbn [map In] in N.
    assert (String.eqb vn (role_name r) = false) as Q.
    { destruct (String.eqb vn (role_name r)) eqn:Q; [|reflexivity]. apply String.eqb_eq in Q.
      exfalso. apply N. left. symmetry. assumption. }
    rewrite aremove_app. cbn [aremove]. rewrite Q.
    destruct (IH (aremove (role_name r) pre) (aremove (role_name r) post)) as (A & B).
    { intros I. apply N. right. assumption. }
    split; [exact A|]. intros k I. apply B in I. eapply aremove_keys_sub; eassumption.
Qed.

Lemma add_group_instances_preserves_same x s e pids eids l vn p idx c : forall st todo mr st' todo' mr',
  add_group_instances x s e pids eids l st todo mr = Ok (st', todo', mr') ->
  (forall id' j', In (id', j') l -> index_of id' (get_ids st (e_plural e)) <> Some idx) ->
  cell_at (b_buffer st) vn p idx c -> cell_at (b_buffer st') vn p idx c.
Proof.
  induction l as [|[gid j] l IH]; intros st todo mr st' todo' mr'; cbn [add_group_instances].
  - intros H; inversion H; subst; auto.
  - destruct j; try discriminate. intros H N C. apply bind_ok in H. destruct H as (t1 & _ & H).
    destruct (index_of gid eids); [|discriminate].
    apply bind_ok in H. destruct H as (m1 & _ & H).
    apply bind_ok in H. destruct H as (st1 & H1 & H2).
    eapply IH; [eassumption| |].
    + rewrite (get_ids_frame st st1) by (eapply init_variable_values_frame; eassumption).
      intros id' j' I. eapply N. right. eassumption.
    + eapply init_preserves; [eassumption| |assumption].
      intros vn' dated t' value' v' idx' _ _ _ _ Hi (_ & _ & E & _). subst idx'.
      eapply N; [left; reflexivity|eassumption].
Qed.

Theorem build_group_value_stored x s doc sim persons e instances ipre gid fields ipost pre vn dated post
    dpre t value dpost v p c idx :
  NoDup (plurals s) -> NoDup (singulars s) ->
  aget "axes"%string doc = None ->
  aget (e_plural (s_person s)) (aremove "axes" doc) = Some (JObj persons) ->
  In e (s_groups s) ->
  aget (e_plural e) (aremove "axes" doc) = Some (JObj instances) ->
  instances = ipre ++ (gid, JObj fields) :: ipost -> NoDup (map fst instances) ->
  fields = pre ++ (vn, JObj dated) :: post -> NoDup (map fst fields) ->
  ~ In vn (map role_name (e_roles e)) ->
  dated = dpre ++ (t, value) :: dpost ->
  (forall t' value', In (t', value') dpost -> value' <> JNull -> canon_key (tok x t') <> Ok p) ->
  value <> JNull -> find_var vn (s_vars s) = Some v ->
  v_rule v = RNone -> eternal v = false -> v_end v = None ->
  canon_key (tok x t) = Ok p -> check_set_value x v value = Ok c ->
  index_of gid (map fst instances) = Some idx ->
  build_from_entities x s doc = Ok sim ->
  exists pop, In pop sim /\ p_entity pop = e_key e /\ stored pop vn p idx c.
Proof.
  intros NDp NDs Hax Hp Ie Hinst Ei NDi Ef NDf Nrole Ed Hlast Hn Fv Hr He Hend Hk Hc Hidx Hb.
  destruct (stages x s doc sim persons e instances Hax Hp Ie Hinst Hb)
    as (st1 & gpre & gpost & sta & stb & st2 & pop & hs & H1 & Eg & Ha & Hent & Hcc & Ipop & Fl & Epop).
  (* the variable belongs to this group kind: read off the successful step *)
  pose proof Hent as Hent0. unfold add_group_entity in Hent.
  apply bind_ok in Hent. destruct Hent as ([[sti todo] mr] & Hi & Hfin).
  set (st0 := set_ids sta (e_plural e) (map fst instances)) in *.
  rewrite Ei in Hi at 2. rewrite add_group_instances_app in Hi.
  apply bind_ok in Hi. destruct Hi as ([[stp todop] mrp] & Hpre & Hi).
  cbn [add_group_instances] in Hi.
  apply bind_ok in Hi. destruct Hi as (todo1 & _ & Hi).
  destruct (index_of gid (map fst instances)) as [gi|] eqn:Eg'; [|discriminate].
  assert (index_of gid (map fst instances) = Some idx) as Hidx' by (rewrite Eg'; exact Hidx).
  apply bind_ok in Hi. destruct Hi as (mr1 & _ & Hi).
  apply bind_ok in Hi. destruct Hi as (stq & Hinit & Hpost).
  destruct (without_roles_split e pre vn (JObj dated) post Nrole) as (Ws & Wk).
  rewrite Ef, Ws, Ed in Hinit.
  assert (~ In vn (map fst (without_roles e post))) as Npost.
  { intros I. apply Wk in I. rewrite Ef, map_app in NDf. cbn [map fst] in NDf.
    apply NoDup_remove_2 in NDf. apply NDf. apply in_or_app. right. assumption. }
  pose proof (add_group_instances_frame _ _ _ _ _ _ _ _ _ _ _ _ Hpre) as Fp.
  (* the ids of the kind while its instances are read *)
  assert (b_ax_ids sta = []) as Axa.
  { pose proof (add_person_instances_frame _ _ _ _ _ H1) as (_ & _ & _ & X1 & _).
    cbn [set_ids b_empty b_ax_ids] in X1.
    destruct (add_groups_ax _ _ _ _ _ _ _ _ Ha) as (Ya & _). congruence. }
  assert (get_ids st0 (e_plural e) = map fst instances) as Ids0.
  { unfold get_ids, ids_of, st0. cbn [set_ids b_ax_ids b_ids]. rewrite Axa. cbn [aget].
    rewrite aget_aset_same. reflexivity. }
  destruct (init_establishes x s e gid (without_roles e pre) vn dpre t value dpost (without_roles e post)
              v idx p c stp stq Hinit Fv) as (Cq & Ev); try assumption.
  { rewrite (get_ids_frame _ _ _ Fp), Ids0. exact Hidx'. }
  pose proof (init_variable_values_frame _ _ _ _ _ _ _ Hinit) as Fq.
  assert (cell_at (b_buffer sti) vn p idx c) as Ci.
  { eapply add_group_instances_preserves_same; [exact Hpost| |exact Cq].
    intros id' j' I E'. rewrite (get_ids_frame _ _ _ Fq), (get_ids_frame _ _ _ Fp), Ids0 in E'.
    assert (id' = gid) by (eapply index_of_inj; [exact E'|exact Hidx']). subst id'.
    rewrite Ei, map_app in NDi. cbn [map fst] in NDi. apply NoDup_remove_2 in NDi.
    apply NDi. apply in_or_app. right. apply in_map_iff. exists (gid, j'). split; [reflexivity|assumption]. }
  assert (cell_at (b_buffer stb) vn p idx c) as Cb.
  { destruct Ci as (arr & G & Cn).
    destruct todo; inversion Hfin; subst stb; cbn [set_roles set_members set_buffer set_ids b_buffer].
    - exists arr. split; assumption.
    - exists (pad_array v (List.length (map fst instances ++ set_order x (s0 :: todo))) arr).
      split; [rewrite (pad_buffer_same s e _ _ vn v p Fv Ev), G; reflexivity|].
      unfold pad_array. rewrite nth_error_app1; [assumption|]. apply nth_error_Some. congruence. }
  destruct (stage_facts x s doc persons e instances NDp NDs Ie vn v Fv Ev _ _ _ _ _ _ H1 Eg Ha Hent0 Hcc)
    as (Hnone & _ & Same & Ids2 & Ba & B2 & _).
  exists pop. split; [assumption|]. subst pop. cbn [p_entity]. split; [reflexivity|].
  destruct Cb as (arr0 & Gb & Cn).
  destruct (add_group_entity_arrays x s sta _ e instances stb vn v Fv Ev Hnone Axa Hent0 p arr0 Gb)
    as (Ln & _).
  destruct B2 as [ND2 FA2].
  destruct (flush_buffer_get _ _ _ _ _ _ ND2 Fl) as (Get & _).
  unfold buf_get in Gb. rewrite <- Same in Gb.
  destruct (aget vn (b_buffer st2)) as [entries|] eqn:Ge; [|discriminate].
  destruct (Get vn entries v (aget_In _ _ _ Ge) Fv Ev) as (h & Ah & Fh). cbn [aget] in Fh.
  assert (NoDup (map fst (sort_periods entries))) as NDk.
  { eapply Permutation_NoDup; [apply Permutation_map; symmetry; apply sort_periods_perm|].
    rewrite Forall_forall in FA2. apply (FA2 _ (aget_In _ _ _ Ge)). }
  destruct (flush_periods_rnone v _ Hr He Hend _ _ _ NDk Fh) as (St & _).
  assert (In (p, arr0) (sort_periods entries)) as Ipa.
  { eapply Permutation_in; [symmetry; apply sort_periods_perm|]. apply hget_In. assumption. }
  destruct (St p arr0 Ipa) as (Hg & Hl).
  unfold stored. cbn [p_holders].
  exists h, (repeat_list arr0 (get_count st2 (e_plural e) / List.length arr0)).
  split; [assumption|]. split; [assumption|].
  assert (idx < List.length arr0)%nat as Lt by (apply nth_error_Some; congruence).
  rewrite repeat_list_one; [assumption| |assumption].
  unfold get_count in *. rewrite Ids2 in *. rewrite repeat_list_length in Hl.
  destruct (List.length (ids_of stb (e_plural e)) / List.length arr0)%nat; lia.
Qed.

(** * The specification of a successful build, assembled *)

Definition no_rule (v : variable) : Prop := v_rule v = RNone /\ eternal v = false /\ v_end v = None.

Theorem build_spec_full :
  forall x s doc sim persons,
  NoDup (plurals s) -> NoDup (singulars s) ->
  (forall l, Permutation (set_order x l) l) ->
  aget "axes"%string doc = None ->
  aget (e_plural (s_person s)) (aremove "axes" doc) = Some (JObj persons) ->
  NoDup (map fst persons) ->
  build_from_entities x s doc = Ok sim ->
  (* 1. persons: one per declared id, in declaration order *)
  (exists pop rest, sim = pop :: rest /\ p_entity pop = e_key (s_person s) /\ p_ids pop = map fst persons) /\
  (* 2. a value declared for a person *)
  (forall ppre pid fields ppost pre vn dated post dpre t value dpost v p c idx,
     persons = ppre ++ (pid, JObj fields) :: ppost ->
     fields = pre ++ (vn, JObj dated) :: post -> NoDup (map fst fields) ->
     dated = dpre ++ (t, value) :: dpost ->
     (forall t' value', In (t', value') dpost -> value' <> JNull -> canon_key (tok x t') <> Ok p) ->
     value <> JNull -> find_var vn (s_vars s) = Some v -> no_rule v ->
     canon_key (tok x t) = Ok p -> check_set_value x v value = Ok c ->
     index_of pid (map fst persons) = Some idx ->
     exists pop rest, sim = pop :: rest /\ p_entity pop = e_key (s_person s) /\ stored pop vn p idx c) /\
  (* 3. every group kind with declared instances *)
  (forall e instances, In e (s_groups s) ->
     aget (e_plural e) (aremove "axes" doc) = Some (JObj instances) ->
     (* ids, memberships, roles *)
     (exists pop own,
        In pop sim /\ p_entity pop = e_key e /\
        p_ids pop = map fst instances ++ own /\ NoDup own /\
        (forall pid, In pid own <-> In pid (map fst persons) /\ ~ declared_in e instances pid) /\
        List.length (p_members pop) = List.length persons /\
        List.length (p_mroles pop) = List.length persons /\
        (forall gid fields r j pid k gi,
           In (gid, JObj fields) instances -> In r (e_roles e) ->
           nth_error (role_members r fields) j = Some pid ->
           index_of pid (map fst persons) = Some k -> index_of gid (map fst instances) = Some gi ->
           nth_error (p_members pop) k = Some (Z.of_nat gi)
           /\ nth_error (p_mroles pop) k = Some (role_at r j)) /\
        (forall j pid k, nth_error own j = Some pid -> index_of pid (map fst persons) = Some k ->
           nth_error (p_members pop) k = Some (Z.of_nat (List.length instances + j))
           /\ nth_error (p_mroles pop) k = Some (first_role e)
           /\ nth_error (p_ids pop) (List.length instances + j) = Some pid)) /\
     (* the groups added for the persons left out hold default values *)
     (forall vn v, find_var vn (s_vars s) = Some v -> v_entity v = e_key e -> no_rule v ->
        exists pop, In pop sim /\ p_entity pop = e_key e /\
          forall h p arr, aget vn (p_holders pop) = Some h -> hget h p = Some arr ->
            List.length arr = List.length (p_ids pop) /\
            forall g, (List.length instances <= g < List.length (p_ids pop))%nat ->
                      nth_error arr g = Some (v_default v)) /\
     (* a value declared for a group *)
     (forall ipre gid fields ipost pre vn dated post dpre t value dpost v p c idx,
        instances = ipre ++ (gid, JObj fields) :: ipost -> NoDup (map fst instances) ->
        fields = pre ++ (vn, JObj dated) :: post -> NoDup (map fst fields) ->
        ~ In vn (map role_name (e_roles e)) ->
        dated = dpre ++ (t, value) :: dpost ->
        (forall t' value', In (t', value') dpost -> value' <> JNull -> canon_key (tok x t') <> Ok p) ->
        value <> JNull -> find_var vn (s_vars s) = Some v -> no_rule v ->
        canon_key (tok x t) = Ok p -> check_set_value x v value = Ok c ->
        index_of gid (map fst instances) = Some idx ->
        exists pop, In pop sim /\ p_entity pop = e_key e /\ stored pop vn p idx c)).
Proof.
  intros x s doc sim persons NDp NDs Perm Hax Hp NDpers Hb.
  assert (~ In (e_plural (s_person s)) (map e_plural (s_groups s))) as Npp.
  { unfold plurals, entities in NDp. cbn [map] in NDp. inversion NDp; assumption. }
  split; [eapply build_persons_ids; eassumption|]. split.
  - intros ppre pid fields ppost pre vn dated post dpre t value dpost v p c idx
           Ep Ef NDf Ed Hlast Hn Fv (Hr & He & Hend) Hk Hc Hidx.
    eapply build_person_value_stored; eassumption.
  - intros e instances Ie Hinst. split; [|split].
    + eapply build_groups_spec; eassumption.
    + intros vn v Fv Ev (Hr & He & Hend). eapply build_own_groups_default; eassumption.
    + intros ipre gid fields ipost pre vn dated post dpre t value dpost v p c idx
             Ei NDi Ef NDf Nrole Ed Hlast Hn Fv (Hr & He & Hend) Hk Hc Hidx.
      eapply (build_group_value_stored x s doc sim persons e instances ipre gid fields ipost pre vn dated
                post dpre t value dpost v p c idx); eassumption.
Qed.
