(** Proofs about the period model: spans, sizes, containment, intersection, tiling,
    offsets, reference periods. *)
From Coq Require Import ZArith List Bool Lia ZifyBool.
From Verif Require Import Base Cal Tables Period PeriodSpec CalProofs.
Import ListNotations.
Ltac Zify.zify_post_hook ::= Z.to_euclidean_division_equations.
Open Scope Z_scope.

(** * Month arithmetic *)

Lemma dim_bounds y m : 28 <= dim y m <= 31.
Proof. rewrite dim_dim'. apply dim'_pos. Qed.

Lemma add_months_valid y m d n :
  valid (y, m, d) -> 1 <= (y * 12 + (m - 1) + n) / 12 -> valid (add_months (y, m, d) n).
Proof.
  intros H Hy. apply valid_iff in H. unfold add_months.
  apply valid_iff. rewrite <- dim_dim'.
  pose proof (dim_bounds ((y * 12 + (m - 1) + n) / 12) ((y * 12 + (m - 1) + n) mod 12 + 1)).
  lia.
Qed.

Lemma add_months_0 y m d : valid (y, m, d) -> add_months (y, m, d) 0 = (y, m, d).
Proof.
  intros H. apply valid_iff in H. unfold add_months. rewrite <- dim_dim' in H.
  replace ((y * 12 + (m - 1) + 0) / 12) with y by lia.
  replace ((y * 12 + (m - 1) + 0) mod 12 + 1) with m by lia.
  f_equal. lia.
Qed.

(* no clipping when the day is at most 28 *)
Lemma add_months_small y m d n : 1 <= m <= 12 -> d <= 28 ->
  add_months (y, m, d) n = ((y * 12 + (m - 1) + n) / 12, (y * 12 + (m - 1) + n) mod 12 + 1, d).
Proof.
  intros Hm Hd. unfold add_months. f_equal.
  pose proof (dim_bounds ((y * 12 + (m - 1) + n) / 12) ((y * 12 + (m - 1) + n) mod 12 + 1)). lia.
Qed.

Lemma add_months_add y m d a b : 1 <= m <= 12 -> d <= 28 ->
  add_months (add_months (y, m, d) a) b = add_months (y, m, d) (a + b).
Proof.
  intros Hm Hd. rewrite (add_months_small y m d a), (add_months_small y m d (a + b)) by assumption.
  rewrite add_months_small by lia.
  match goal with |- (?a, ?b, ?c) = (?a', ?b', ?c') =>
    replace a with a' by lia; replace b with b' by lia; reflexivity end.
Qed.

(* a positive month shift lands strictly later, clipping or not *)
Lemma add_months_later y m d n : valid (y, m, d) -> 1 <= n ->
  ord (y, m, d) < ord (add_months (y, m, d) n).
Proof.
  intros H Hn. pose proof H as H'. apply valid_iff in H'.
  assert (Hv : valid (add_months (y, m, d) n)) by (apply add_months_valid; [assumption|lia]).
  apply ord_lt; [assumption|assumption|].
  unfold add_months, date_ltb, date_leb, date_eqb. lia.
Qed.

Lemma ord_first_of_next_month y m : 1 <= m <= 12 ->
  ord (add_months (y, m, 1) 1) = ord (y, m, 1) + dim y m.
Proof.
  intros Hm. rewrite add_months_small by lia.
  destruct (Z.eq_dec m 12) as [->|Hne].
  - replace ((y * 12 + (12 - 1) + 1) / 12) with (y + 1) by lia.
    replace ((y * 12 + (12 - 1) + 1) mod 12 + 1) with 1 by lia.
    rewrite !ord_off, ybase_succ, off_1, dim_dim'.
    pose proof (off_12 (leap y)). lia.
  - replace ((y * 12 + (m - 1) + 1) / 12) with y by lia.
    replace ((y * 12 + (m - 1) + 1) mod 12 + 1) with (m + 1) by lia.
    rewrite !ord_off, dim_dim', off_succ by lia. lia.
Qed.

(** * The set of days a period denotes: [first_ord p, last_ord p] *)

Lemma end_excl_later p : wf p -> valid (end_excl p) /\ ord (p_start p) < ord (end_excl p).
Proof.
  destruct p as [[u [[y m] d]] n]. unfold wf, p_unit, p_start, p_size; cbn [fst snd].
  intros [Hu [Hv Hn]]. pose proof (ord_pos _ Hv) as Hp. pose proof Hv as Hv'. apply valid_iff in Hv'.
  destruct u; cbn [end_excl]; try congruence.
  - destruct (add_days_ord (y, m, d) n Hv ltac:(lia)). split; [assumption|lia].
  - destruct (add_days_ord (y, m, d) (7 * n) Hv ltac:(lia)). split; [assumption|lia].
  - destruct (add_days_ord (y, m, d) n Hv ltac:(lia)). split; [assumption|lia].
  - split; [apply add_months_valid; [assumption|lia] | apply add_months_later; assumption].
  - unfold add_years. split; [apply add_months_valid; [assumption|lia] | apply add_months_later; [assumption|lia]].
Qed.

(** [stop] is the last day of the span, for every unit. *)
Theorem stop_spec p : wf p -> valid (stop p) /\ ord (stop p) = last_ord p.
Proof.
  intros Hwf. destruct (end_excl_later p Hwf) as [Hv Hlt].
  destruct p as [[u s] n]. destruct Hwf as [Hu [Hs Hn]].
  unfold p_unit, p_start, p_size in *; cbn [fst snd] in *.
  pose proof (ord_pos _ Hs) as Hp. unfold last_ord.
  destruct u; cbn [stop end_excl] in *; try congruence.
  - destruct (add_days_ord s (n - 1) Hs ltac:(lia)) as [V E].
    destruct (add_days_ord s n Hs ltac:(lia)) as [V' E']. split; [assumption|lia].
  - destruct (add_days_ord s (7 * n - 1) Hs ltac:(lia)) as [V E].
    destruct (add_days_ord s (7 * n) Hs ltac:(lia)) as [V' E']. split; [assumption|lia].
  - destruct (add_days_ord s (n - 1) Hs ltac:(lia)) as [V E].
    destruct (add_days_ord s n Hs ltac:(lia)) as [V' E']. split; [assumption|lia].
  - destruct (add_days_ord (add_months s n) (-1) Hv ltac:(lia)) as [V E]. split; [assumption|lia].
  - destruct (add_days_ord (add_years s n) (-1) Hv ltac:(lia)) as [V E]. split; [assumption|lia].
Qed.

Theorem days_spec p : wf p -> days p = last_ord p - first_ord p + 1 /\ 1 <= days p.
Proof.
  intros H. destruct (stop_spec p H) as [_ E]. destruct (end_excl_later p H) as [_ L].
  unfold days, first_ord, last_ord in *. lia.
Qed.

(** size_in_days agrees with the day count for every dated unit *)
Ltac ok_eq := match goal with |- Ok ?a = Ok ?b => cut (a = b); [intros Heq; exact (f_equal Ok Heq) | lia] end.

Theorem size_in_days_spec p : wf p -> size_in_days p = Ok (days p).
Proof.
  intros H. pose proof (days_spec p H) as [E _]. pose proof (end_excl_later p H) as [Hv Hl].
  destruct p as [[u s] n]. destruct H as [Hu [Hs Hn]].
  unfold first_ord, last_ord, p_unit, p_start, p_size in *; cbn [fst snd] in *.
  pose proof (ord_pos _ Hs) as Hp. rewrite E. clear E.
  destruct u; cbn [size_in_days end_excl instant_offset bind] in *; try congruence.
  - destruct (add_days_ord s n Hs ltac:(lia)). ok_eq.
  - destruct (add_days_ord s (7 * n) Hs ltac:(lia)). ok_eq.
  - destruct (add_days_ord s n Hs ltac:(lia)). ok_eq.
  - destruct (add_days_ord (add_months s n) (-1) Hv ltac:(lia)). ok_eq.
  - destruct (add_days_ord (add_years s n) (-1) Hv ltac:(lia)). ok_eq.
Qed.

Theorem size_in_weekdays_spec p : wf p -> (p_unit p = Week \/ p_unit p = Weekday) ->
  size_in_weekdays p = Ok (days p).
Proof.
  intros H Hu. rewrite <- size_in_days_spec by assumption.
  destruct p as [[u s] n]. cbn in Hu. destruct Hu as [-> | ->]; reflexivity.
Qed.

Theorem size_in_months_spec u s n : size_in_months (u, s, n) =
  match u with Year => Ok (n * 12) | Month => Ok n | _ => Err EValue end.
Proof. destruct u; reflexivity. Qed.

(** * Containment *)

Theorem contains_spec p q : wf p -> wf q ->
  (contains p q = true <-> first_ord p <= first_ord q /\ last_ord q <= last_ord p).
Proof.
  intros Hp Hq. destruct (stop_spec p Hp) as [Vp Ep]. destruct (stop_spec q Hq) as [Vq Eq].
  unfold contains. rewrite andb_true_iff.
  rewrite (ord_le_iff (p_start p) (p_start q)) by (apply Hp || apply Hq).
  rewrite (ord_le_iff (stop q) (stop p)) by assumption.
  unfold first_ord. lia.
Qed.

(** * Intersection with a date range *)

Lemma date_max_ord a b : valid a -> valid b ->
  valid (date_max a b) /\ ord (date_max a b) = Z.max (ord a) (ord b).
Proof.
  intros Ha Hb. unfold date_max. pose proof (ord_le_iff a b Ha Hb).
  destruct (date_leb a b); split; try assumption; lia.
Qed.

Lemma date_min_ord a b : valid a -> valid b ->
  valid (date_min a b) /\ ord (date_min a b) = Z.min (ord a) (ord b).
Proof.
  intros Ha Hb. unfold date_min. pose proof (ord_le_iff a b Ha Hb).
  destruct (date_leb a b); split; try assumption; lia.
Qed.

Lemma date_ltb_ord a b : valid a -> valid b -> (date_ltb a b = true <-> ord a < ord b).
Proof. apply ord_lt_iff. Qed.

Lemma date_eqb_ord a b : valid a -> valid b -> (date_eqb a b = true <-> ord a = ord b).
Proof.
  intros Ha Hb. rewrite date_eqb_eq. split; [intros ->; reflexivity | apply ord_inj; assumption].
Qed.

Lemma ord_dec31 y : ord (y, 12, 31) + 1 = ord (y + 1, 1, 1).
Proof. rewrite !ord_off, ybase_succ, off_1. pose proof (off_12 (leap y)).
  assert (dim' (leap y) 12 = 31) by reflexivity. lia. Qed.

Lemma ord_month_end y m : 1 <= m <= 12 -> ord (y, m, dim y m) + 1 = ord (add_months (y, m, 1) 1).
Proof. intros Hm. rewrite ord_first_of_next_month by assumption. rewrite !ord_off. lia. Qed.

Lemma intersection_core_spec p a' b' :
  wf p -> valid a' -> valid b' -> ord a' <= ord b' ->
  let lo := Z.max (first_ord p) (ord a') in
  let hi := Z.min (last_ord p) (ord b') in
  match intersection_core p a' b' with
  | None => hi < lo
  | Some r => wf r /\ first_ord r = lo /\ last_ord r = hi /\ lo <= hi
  end.
Proof.
  intros Hwf Va Vb Hab lo hi.
  destruct (stop_spec p Hwf) as [Vstop Estop]. destruct (days_spec p Hwf) as [Hd Hdays].
  assert (Hspan : first_ord p <= last_ord p) by lia.
  assert (Vs : valid (p_start p)) by apply Hwf.
  unfold intersection_core.
  pose proof (date_ltb_ord b' (p_start p) Vb Vs) as L1.
  pose proof (date_ltb_ord (stop p) a' Vstop Va) as L2.
  destruct (date_ltb b' (p_start p)) eqn:E1;
    [pose proof (proj1 L1 eq_refl); cbn [orb]; subst lo hi; unfold first_ord; lia|].
  destruct (date_ltb (stop p) a') eqn:E2;
    [pose proof (proj1 L2 eq_refl); cbn [orb]; subst lo hi; unfold first_ord; lia|].
  cbn [orb].
  assert (L1' : ~ ord b' < ord (p_start p)) by (intros X; apply L1 in X; congruence).
  assert (L2' : ~ ord (stop p) < ord a') by (intros X; apply L2 in X; congruence).
  destruct (date_max_ord (p_start p) a' Vs Va) as [Vis Eis].
  destruct (date_min_ord (stop p) b' Vstop Vb) as [Vie Eie].
  set (is_ := date_max (p_start p) a') in *. set (ie := date_min (stop p) b') in *.
  assert (Hlo : ord is_ = lo) by (subst lo; unfold first_ord; lia).
  assert (Hhi : ord ie = hi) by (subst hi; lia).
  assert (Hle : lo <= hi) by (subst lo hi; unfold first_ord in *; lia).
  pose proof (date_eqb_ord is_ (p_start p) Vis Vs) as Q1.
  pose proof (date_eqb_ord ie (stop p) Vie Vstop) as Q2.
  destruct (date_eqb is_ (p_start p) && date_eqb ie (stop p)) eqn:E3.
  { apply andb_prop in E3. destruct E3 as [E3 E4]. apply Q1 in E3. apply Q2 in E4.
    split; [assumption|]. unfold first_ord in *. lia. }
  destruct is_ as [[sy sm] sd] eqn:Dis, ie as [[ey em] ed] eqn:Die.
  pose proof Vis as Vis'. pose proof Vie as Vie'. apply valid_iff in Vis', Vie'.
  assert (Hord : ord (sy, sm, sd) <= ord (ey, em, ed)) by lia.
  apply (ord_le_iff _ _ Vis Vie) in Hord. unfold date_leb in Hord.
  destruct ((sd =? 1) && (sm =? 1) && (ed =? 31) && (em =? 12)) eqn:E4.
  { assert (sd = 1 /\ sm = 1 /\ ed = 31 /\ em = 12) as [-> [-> [-> ->]]] by lia.
    assert (Hy : sy <= ey) by lia.
    cbv beta iota zeta. unfold wf, first_ord, last_ord, p_unit, p_start, p_size; cbn [fst snd].
    match goal with |- context [end_excl ?x] => assert (Hend : end_excl x = (ey + 1, 1, 1)) end.
    { cbn [end_excl]. unfold add_years. rewrite add_months_small by lia.
      match goal with |- (?a, ?b, ?c) = (?a', ?b', ?c') =>
        replace a with a' by lia; replace b with b' by lia; reflexivity end. }
    rewrite Hend.
    pose proof (ord_dec31 ey). repeat split; try congruence; try assumption; lia. }
  destruct ((sd =? 1) && (ed =? dim ey em)) eqn:E5.
  { assert (sd = 1 /\ ed = dim ey em) as [-> ->] by lia.
    assert (Hym : sy * 12 + sm <= ey * 12 + em) by lia.
    cbv beta iota zeta. unfold wf, first_ord, last_ord, p_unit, p_start, p_size; cbn [fst snd].
    match goal with |- context [end_excl ?x] => assert (Hend : end_excl x = add_months (ey, em, 1) 1) end.
    { cbn [end_excl]. rewrite !add_months_small by lia.
      match goal with |- (?a, ?b, ?c) = (?a', ?b', ?c') =>
        replace a with a' by lia; replace b with b' by lia; reflexivity end. }
    rewrite Hend.
    pose proof (ord_month_end ey em ltac:(lia)). repeat split; try congruence; try assumption; lia. }
  { cbv beta iota zeta. unfold wf, first_ord, last_ord, p_unit, p_start, p_size; cbn [fst snd end_excl].
    destruct (add_days_ord (sy, sm, sd) (ord (ey, em, ed) - ord (sy, sm, sd) + 1) Vis) as [V E].
    { pose proof (ord_pos _ Vis). lia. }
    repeat split; try congruence; try assumption; lia. }
Qed.

(** The result of [intersection] denotes exactly [days p] intersected with [a, b]
    ([None] = unbounded on that side); it is [None] iff that set is empty. *)
Theorem intersection_spec p a b :
  wf p -> opt_valid a -> opt_valid b ->
  opt_ord a (first_ord p) <= opt_ord b (last_ord p) ->
  let lo := Z.max (first_ord p) (opt_ord a (first_ord p)) in
  let hi := Z.min (last_ord p) (opt_ord b (last_ord p)) in
  match intersection p a b with
  | None => hi < lo
  | Some r => wf r /\ first_ord r = lo /\ last_ord r = hi /\ lo <= hi
  end.
Proof.
  intros Hwf Va Vb Hab.
  destruct (stop_spec p Hwf) as [Vstop Estop]. destruct (days_spec p Hwf) as [Hd Hdays].
  assert (Vs : valid (p_start p)) by apply Hwf.
  destruct a as [a|], b as [b|]; cbn [opt_ord opt_valid intersection] in *.
  - apply intersection_core_spec; assumption.
  - pose proof (intersection_core_spec p a (stop p) Hwf Va Vstop ltac:(lia)) as H.
    cbv zeta in H. rewrite Estop in H. exact H.
  - pose proof (intersection_core_spec p (p_start p) b Hwf Vs Vb ltac:(unfold first_ord in Hab; lia)) as H.
    cbv zeta in H. exact H.
  - split; [assumption|]. lia.
Qed.

(** * Tiling by sub-periods *)

Lemma tiles_le l : forall lo hi, tiles l lo hi -> lo <= hi + 1.
Proof.
  induction l as [|q l IH]; cbn; intros lo hi H; [lia|].
  destruct H as [H1 [H2 H3]]. apply IH in H3. lia.
Qed.

(** every day of [lo, hi] lies in some piece, and every piece lies inside [lo, hi] *)
Theorem tiles_cover l : forall lo hi, tiles l lo hi ->
  forall d, lo <= d <= hi <-> exists q, In q l /\ first_ord q <= d <= last_ord q.
Proof.
  induction l as [|q l IH]; cbn; intros lo hi H d.
  - split; [lia|]. intros [q [[] _]].
  - destruct H as [H1 [H2 H3]]. pose proof (tiles_le _ _ _ H3) as Hle.
    specialize (IH _ _ H3 d). split.
    + intros Hd. destruct (Z_le_gt_dec d (last_ord q)).
      * exists q. split; [left; reflexivity|lia].
      * destruct (proj1 IH ltac:(lia)) as [q' [Hin Hq']]. exists q'. split; [right; assumption|assumption].
    + intros [q' [[->|Hin] Hq']]; [lia|].
      assert (last_ord q + 1 <= d <= hi) by (apply IH; exists q'; auto). lia.
Qed.

Lemma tiles_in_bounds l : forall lo hi q, tiles l lo hi -> In q l ->
  lo <= first_ord q /\ first_ord q <= last_ord q /\ last_ord q <= hi.
Proof.
  induction l as [|a l IH]; intros lo hi q H Hin; [destruct Hin|].
  cbn in H. destruct H as [H1 [H2 H3]]. pose proof (tiles_le _ _ _ H3).
  destruct Hin as [->|Hin]; [lia|]. specialize (IH _ _ _ H3 Hin). lia.
Qed.

(** pieces are pairwise disjoint: a later piece starts after an earlier one ends *)
Theorem tiles_disjoint l : forall lo hi, tiles l lo hi ->
  forall i j q q', (i < j)%nat -> nth_error l i = Some q -> nth_error l j = Some q' ->
  last_ord q < first_ord q'.
Proof.
  induction l as [|q0 l IH]; intros lo hi H i j q q' Hij Hi Hj.
  - destruct i; discriminate.
  - cbn in H. destruct H as [H1 [H2 H3]]. destruct j as [|j]; [lia|]. cbn in Hj.
    destruct i as [|i].
    + cbn in Hi. inversion Hi; subst q0. apply nth_error_In in Hj.
      pose proof (tiles_in_bounds _ _ _ _ H3 Hj). lia.
    + cbn in Hi. apply (IH _ _ H3 i j q q'); [lia|assumption|assumption].
Qed.

Lemma tiles_seq (mk : Z -> period) (F : Z -> Z) len : forall start,
  (forall i, Z.of_nat start <= i < Z.of_nat (start + len) ->
     first_ord (mk i) = F i /\ last_ord (mk i) = F (i + 1) - 1 /\ F i < F (i + 1)) ->
  tiles (map mk (map Z.of_nat (seq start len))) (F (Z.of_nat start)) (F (Z.of_nat (start + len)) - 1).
Proof.
  induction len as [|len IH]; intros start H; cbn [seq map tiles].
  - rewrite Nat.add_0_r. lia.
  - destruct (H (Z.of_nat start) ltac:(lia)) as [H1 [H2 H3]].
    split; [assumption|]. split; [lia|].
    rewrite H2. replace (F (Z.of_nat start + 1) - 1 + 1) with (F (Z.of_nat (S start)))
      by (replace (Z.of_nat (S start)) with (Z.of_nat start + 1) by lia; lia).
    replace (start + S len)%nat with (S start + len)%nat by lia.
    apply IH. intros i Hi. apply H. lia.
Qed.

Lemma mapM_ok {A B} (f : A -> res B) (g : A -> B) l :
  (forall x, In x l -> f x = Ok (g x)) -> mapM f l = Ok (map g l).
Proof.
  induction l as [|x l IH]; intros H; cbn; [reflexivity|].
  rewrite (H x (or_introl eq_refl)), IH; [reflexivity|]. intros y Hy. apply H. right. assumption.
Qed.

Lemma zrange_tiles (mk : Z -> period) (F : Z -> Z) n : 0 <= n ->
  (forall i, 0 <= i < n ->
     first_ord (mk i) = F i /\ last_ord (mk i) = F (i + 1) - 1 /\ F i < F (i + 1)) ->
  tiles (map mk (zrange n)) (F 0) (F n - 1).
Proof.
  intros Hn H. unfold zrange.
  pose proof (tiles_seq mk F (Z.to_nat n) 0) as T. cbn [Nat.add] in T.
  rewrite Z2Nat.id in T by assumption. apply T. intros i Hi. apply H. lia.
Qed.

Lemma zrange_length n : 0 <= n -> Z.of_nat (length (map (fun i : Z => i) (zrange n))) = n.
Proof. intros. unfold zrange. rewrite !map_length, seq_length. lia. Qed.

Lemma zrange_in n i : In i (zrange n) -> 0 <= i < n.
Proof.
  unfold zrange. intros H. apply in_map_iff in H. destruct H as [k [<- Hk]].
  apply in_seq in Hk. lia.
Qed.

(** the three generators *)

Definition mk_months (u : unit_t) (s : date) (k : Z) (i : Z) : period := (u, add_months s (k * i), 1).

Lemma months_pieces u k y m n :
  (u = Month /\ k = 1) \/ (u = Year /\ k = 12) ->
  valid (y, m, 1) -> 0 <= n ->
  tiles (map (mk_months u (y, m, 1) k) (zrange n))
        (ord (y, m, 1)) (ord (add_months (y, m, 1) (k * n)) - 1)
  /\ Forall (fun q => p_unit q = u /\ p_size q = 1 /\ wf q) (map (mk_months u (y, m, 1) k) (zrange n)).
Proof.
  intros Hu Hv Hn. pose proof Hv as Hv'. apply valid_iff in Hv'.
  assert (Hk : 1 <= k) by (destruct Hu as [[_ ->]|[_ ->]]; lia).
  assert (Vi : forall i, 0 <= i -> valid (add_months (y, m, 1) (k * i))).
  { intros i Hi. apply add_months_valid; [assumption|]. nia. }
  split.
  - replace (ord (y, m, 1)) with (ord (add_months (y, m, 1) (k * 0))).
    2:{ rewrite Z.mul_0_r, add_months_0 by assumption. reflexivity. }
    apply (zrange_tiles (mk_months u (y, m, 1) k) (fun i => ord (add_months (y, m, 1) (k * i)))); [assumption|].
    intros i Hi. unfold mk_months, first_ord, last_ord, p_start; cbn [fst snd].
    assert (E : end_excl (u, add_months (y, m, 1) (k * i), 1) = add_months (y, m, 1) (k * (i + 1))).
    { destruct Hu as [[-> ->]|[-> ->]]; cbn [end_excl]; unfold add_years;
        rewrite add_months_add by lia; f_equal; lia. }
    rewrite E. split; [reflexivity|]. split; [reflexivity|].
    replace (k * (i + 1)) with (k * i + k) by lia. rewrite <- add_months_add by lia.
    specialize (Vi i ltac:(lia)). destruct (add_months (y, m, 1) (k * i)) as [[y' m'] d'] eqn:D.
    apply add_months_later; assumption.
  - apply Forall_forall. intros q Hq. apply in_map_iff in Hq. destruct Hq as [i [<- Hi]].
    apply zrange_in in Hi. unfold mk_months, wf, p_unit, p_size, p_start; cbn [fst snd].
    repeat split; try lia; [destruct Hu as [[-> _]|[-> _]]; congruence | apply Vi; lia].
Qed.

Definition mk_days (u : unit_t) (s : date) (k : Z) (i : Z) : period := (u, add_days s (k * i), 1).

Lemma days_pieces u k s n :
  ((u = Day \/ u = Weekday) /\ k = 1) \/ (u = Week /\ k = 7) ->
  valid s -> 0 <= n ->
  tiles (map (mk_days u s k) (zrange n)) (ord s) (ord s + k * n - 1)
  /\ Forall (fun q => p_unit q = u /\ p_size q = 1 /\ wf q) (map (mk_days u s k) (zrange n)).
Proof.
  intros Hu Hv Hn. pose proof (ord_pos _ Hv) as Hp.
  assert (Hk : 1 <= k) by (destruct Hu as [[_ ->]|[_ ->]]; lia).
  assert (Vi : forall i, 0 <= i -> valid (add_days s (k * i)) /\ ord (add_days s (k * i)) = ord s + k * i).
  { intros i Hi. apply add_days_ord; [assumption|nia]. }
  split.
  - replace (ord s) with ((fun i => ord s + k * i) 0) at 1 by (cbv beta; lia).
    apply (zrange_tiles (mk_days u s k) (fun i => ord s + k * i)); [assumption|].
    intros i Hi. unfold mk_days, first_ord, last_ord, p_start; cbn [fst snd].
    destruct (Vi i ltac:(lia)) as [V E]. rewrite E.
    assert (E' : ord (end_excl (u, add_days s (k * i), 1)) = ord s + k * i + k).
    { destruct Hu as [[[-> | ->] ->]|[-> ->]]; cbn [end_excl];
        match goal with |- ord (add_days ?c ?n) = _ => destruct (add_days_ord c n V ltac:(lia)) as [_ ->] end; lia. }
    rewrite E'. lia.
  - apply Forall_forall. intros q Hq. apply in_map_iff in Hq. destruct Hq as [i [<- Hi]].
    apply zrange_in in Hi. unfold mk_days, wf, p_unit, p_size, p_start; cbn [fst snd].
    repeat split; try lia; [destruct Hu as [[[-> | ->] _]|[-> _]]; congruence | apply Vi; lia].
Qed.


Lemma add_days_0 s : valid s -> add_days s 0 = s.
Proof. intros H. unfold add_days. rewrite Z.add_0_r. apply of_ord_ord. assumption. Qed.

Lemma zrange_map_length {B} (f : Z -> B) n : 0 <= n -> Z.of_nat (length (map f (zrange n))) = n.
Proof. intros. unfold zrange. rewrite !map_length, seq_length. lia. Qed.

(** the model's generators produce exactly [mk_days] / [mk_months] lists *)
Lemma gen_days_ok u s n : u = Day \/ u = Weekday ->
  mapM (fun i => offset (u, s, 1) i (Some u)) (zrange n) = Ok (map (mk_days u s 1) (zrange n)).
Proof.
  intros Hu. apply mapM_ok. intros i _. unfold mk_days. rewrite Z.mul_1_l.
  destruct Hu as [-> | ->]; reflexivity.
Qed.

Lemma gen_weeks_ok s n :
  mapM (fun i => offset (Week, s, 1) i (Some Week)) (zrange n) = Ok (map (mk_days Week s 7) (zrange n)).
Proof. apply mapM_ok. intros i _. reflexivity. Qed.

Lemma gen_months_ok s n :
  mapM (fun i => offset (Month, s, 1) i (Some Month)) (zrange n) = Ok (map (mk_months Month s 1) (zrange n)).
Proof. apply mapM_ok. intros i _. unfold mk_months. rewrite Z.mul_1_l. reflexivity. Qed.

Lemma gen_years_ok s n :
  mapM (fun i => offset (Year, s, 1) i (Some Year)) (zrange n) = Ok (map (mk_months Year s 12) (zrange n)).
Proof. apply mapM_ok. intros i _. reflexivity. Qed.

Definition pieces_ok (p : period) (u : unit_t) (l : list period) : Prop :=
  tiles l (first_ord p) (last_ord p)
  /\ Forall (fun q => p_unit q = u /\ p_size q = 1 /\ wf q) l
  /\ Z.of_nat (length l) = count_in p u.

(* day / weekday pieces of any well-formed period *)
Lemma day_pieces_ok p u : wf p -> u = Day \/ u = Weekday ->
  pieces_ok p u (map (mk_days u (p_start p) 1) (zrange (days p))).
Proof.
  intros Hwf Hu. destruct (days_spec p Hwf) as [Hd Hd1].
  destruct (days_pieces u 1 (p_start p) (days p)) as [T F];
    [left; split; [tauto|reflexivity] | apply Hwf | lia |].
  unfold pieces_ok. split; [|split].
  - unfold first_ord in *. replace (last_ord p) with (ord (p_start p) + 1 * days p - 1) by lia. exact T.
  - exact F.
  - rewrite zrange_map_length by lia. unfold count_in. destruct Hu as [-> | ->]; destruct (p_unit p); reflexivity.
Qed.

Lemma subperiods_unfold p u : unit_weight (p_unit p) <? unit_weight u = false ->
  subperiods p u =
    let gen (base : res period) (count : res Z) : res (list period) :=
      bind base (fun b => bind count (fun n => mapM (fun i => offset b i (Some u)) (zrange n))) in
    match u with
    | Year => gen (this_year p) (Ok (p_size p))
    | Month => gen (first_month p) (size_in_months p)
    | Day => gen (first_day p) (size_in_days p)
    | Week => gen (first_week p) (size_in_weeks p)
    | Weekday => gen (first_weekday p) (size_in_weekdays p)
    | Eternity => Err EValue
    end.
Proof. intros H. unfold subperiods. rewrite H. reflexivity. Qed.

Theorem subperiods_tile p u :
  wf p -> same_family (p_unit p) u = true -> aligned u (p_start p) ->
  exists l, subperiods p u = Ok l /\ pieces_ok p u l.
Proof.
  intros Hwf Hfam Hal.
  assert (Hw : unit_weight (p_unit p) <? unit_weight u = false)
    by (destruct (p_unit p), u; try discriminate; reflexivity).
  rewrite (subperiods_unfold p u Hw). cbv zeta.
  destruct u; try (destruct (p_unit p); discriminate).
  - (* Weekday *)
    exists (map (mk_days Weekday (p_start p) 1) (zrange (days p))).
    split; [|apply day_pieces_ok; auto].
    rewrite size_in_weekdays_spec; [|assumption|destruct (p_unit p); try discriminate; auto].
    unfold first_weekday. cbn [bind]. apply gen_days_ok. auto.
  - (* Week *)
    destruct p as [[pu s] n]. unfold p_unit, p_start in *; cbn [fst snd] in *.
    destruct pu; try discriminate. destruct Hwf as [_ [Hv Hn]]. unfold p_start, p_size in *; cbn [fst snd] in *.
    assert (Es : start_of_week s = s).
    { unfold start_of_week. destruct s as [[y m] d]. cbn [aligned] in Hal. rewrite Hal. apply add_days_0. assumption. }
    exists (map (mk_days Week s 7) (zrange n)).
    split.
    + unfold first_week, first_of_or_fail, instant_first_of, p_start; cbn [fst snd].
      destruct s as [[y m] d]. cbn [bind]. rewrite Es. cbn [bind size_in_weeks]. apply gen_weeks_ok.
    + destruct (days_pieces Week 7 s n) as [T F]; [right; auto | assumption | lia |].
      unfold pieces_ok, first_ord, last_ord, p_start, count_in, p_unit, p_size; cbn [fst snd end_excl].
      destruct (add_days_ord s (7 * n) Hv ltac:(pose proof (ord_pos _ Hv); lia)) as [_ E].
      rewrite E. split; [exact T|]. split; [exact F|]. apply zrange_map_length. lia.
  - (* Day *)
    exists (map (mk_days Day (p_start p) 1) (zrange (days p))).
    split; [|apply day_pieces_ok; auto].
    rewrite size_in_days_spec by assumption.
    unfold first_day. cbn [bind]. apply gen_days_ok. auto.
  - (* Month *)
    destruct p as [[pu [[y m] d]] n]. unfold p_unit, p_start in *; cbn [fst snd aligned] in *. subst d.
    destruct Hwf as [_ [Hv Hn]]. unfold p_start, p_size in *; cbn [fst snd] in *.
    assert (Hpu : (pu = Month /\ months_of pu n = n) \/ (pu = Year /\ months_of pu n = 12 * n))
      by (destruct pu; try discriminate; auto).
    exists (map (mk_months Month (y, m, 1) 1) (zrange (months_of pu n))).
    split.
    + unfold first_month, first_of_or_fail, instant_first_of, p_start; cbn [fst snd bind].
      destruct Hpu as [[-> E]|[-> E]]; rewrite E; unfold size_in_months, p_unit, p_size; cbn [fst snd bind];
        [|replace (n * 12) with (12 * n) by lia];
      apply gen_months_ok.
    + destruct (months_pieces Month 1 y m (months_of pu n)) as [T F]; [auto | assumption | destruct Hpu as [[_ ->]|[_ ->]]; lia |].
      unfold pieces_ok, first_ord, last_ord, p_start, count_in, p_unit, p_size; cbn [fst snd].
      rewrite Z.mul_1_l in T.
      rewrite zrange_map_length by (destruct Hpu as [[_ ->]|[_ ->]]; lia).
      destruct Hpu as [[-> E]|[-> E]]; rewrite E in *; cbn [end_excl]; unfold add_years;
        (split; [exact T|]); (split; [exact F|]); reflexivity.
  - (* Year *)
    destruct p as [[pu [[y m] d]] n]. unfold p_unit, p_start in *; cbn [fst snd aligned] in *.
    destruct Hal as [-> ->]. destruct pu; try discriminate.
    destruct Hwf as [_ [Hv Hn]]. unfold p_start, p_size in *; cbn [fst snd] in *.
    exists (map (mk_months Year (y, 1, 1) 12) (zrange n)).
    split.
    + unfold this_year, first_of_or_fail, instant_first_of, p_start, p_size; cbn [fst snd bind]. apply gen_years_ok.
    + destruct (months_pieces Year 12 y 1 n) as [T F]; [auto | assumption | lia |].
      unfold pieces_ok, first_ord, last_ord, p_start, count_in, p_unit, p_size; cbn [fst snd end_excl].
      unfold add_years. split; [exact T|]. split; [exact F|]. apply zrange_map_length. lia.
Qed.
