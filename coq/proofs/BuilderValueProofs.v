(** Proofs about the situation-builder model, continued: a value declared for a person is
    stored, in the built simulation, at the period its key denotes and at the person's index
    (document level, documents without axes, variables without a set-input rule). *)
From Coq Require Import ZArith QArith List Bool String Lia Permutation.
From Verif Require Import Base Cal Tables Period Builder BuilderSpec BuilderProofs BuilderGroupProofs.
Import ListNotations.
Open Scope Z_scope.
Open Scope res_scope.

(** * Well-formed buffers: one entry per variable, one array per period *)

Lemma json_eq_null j : j = JNull \/ j <> JNull.
Proof. destruct j; [left; reflexivity|right; discriminate ..]. Qed.

Lemma period_eq_dec_b (p q : period) : p = q \/ p <> q.
Proof.
  destruct (period_eqb p q) eqn:E; [left; apply bp_period_eqb_eq; assumption|].
  right. intros ->. rewrite bp_period_eqb_refl in E. discriminate.
Qed.

Definition cell_at (b : buffer) (vn : string) (p : period) (idx : nat) (c : cell) : Prop :=
  exists arr, buf_get b vn p = Some arr /\ nth_error arr idx = Some c.


Definition buf_ok (b : buffer) : Prop :=
  NoDup (map fst b) /\ Forall (fun vh => NoDup (map fst (snd vh))) b.

Lemma hput_keys_in h p a q : In q (map fst (hput h p a)) -> q = p \/ In q (map fst h).
Proof.
  induction h as [|[k w] h IH]; cbn [hput map fst In].
  - intros [E|[]]. left. congruence.
  - destruct (period_eqb k p) eqn:E; cbn [map fst In].
    + intros [Q|Q]; [right; left; assumption|right; right; assumption].
    + intros [Q|Q]; [right; left; assumption|]. apply IH in Q. tauto.
Qed.

Lemma hput_nodup h p a : NoDup (map fst h) -> NoDup (map fst (hput h p a)).
Proof.
  induction h as [|[k w] h IH]; cbn [hput map fst]; intros N.
  - constructor; [intros []|constructor].
  - inversion N; subst. destruct (period_eqb k p) eqn:E; cbn [map fst].
    + constructor; assumption.
    + constructor; [|apply IH; assumption]. intros Q. apply hput_keys_in in Q.
      destruct Q as [->|Q]; [rewrite bp_period_eqb_refl in E; discriminate|contradiction].
Qed.

Lemma aget_none_notin {A} k (l : list (string * A)) : aget k l = None -> ~ In k (map fst l).
Proof.
  induction l as [|[k' v] l IH]; cbn [aget map fst In]; [tauto|].
  destruct (String.eqb k' k) eqn:E; [discriminate|]. intros H [Q|Q].
  - subst. rewrite String.eqb_refl in E. discriminate.
  - apply IH; assumption.
Qed.

Lemma aset_keys_same {A} k (v w : A) l : aget k l = Some w -> map fst (aset k v l) = map fst l.
Proof.
  induction l as [|[k' u] l IH]; cbn [aget aset map fst]; [discriminate|].
  destruct (String.eqb k' k) eqn:E; cbn [map fst]; [reflexivity|]. intros H. rewrite IH; auto.
Qed.

Lemma aget_In {A} k (v : A) l : aget k l = Some v -> In (k, v) l.
Proof.
  induction l as [|[k' u] l IH]; cbn [aget]; [discriminate|].
  destruct (String.eqb k' k) eqn:E.
  - apply String.eqb_eq in E. subst. intros H; inversion H; subst. left. reflexivity.
  - intros H. right. apply IH. assumption.
Qed.

Lemma Forall_aset {A} (P : string * A -> Prop) k v l :
  Forall P l -> (forall k', P (k', v)) -> Forall P (aset k v l).
Proof.
  induction l as [|[k' u] l IH]; cbn [aset]; intros F Pv.
  - constructor; [apply Pv|constructor].
  - inversion F; subst. destruct (String.eqb k' k); constructor; auto.
Qed.

Lemma buf_touch_ok b vn : buf_ok b -> buf_ok (buf_touch b vn).
Proof.
  intros [N F]. unfold buf_touch. destruct (aget vn b) eqn:E; [split; assumption|]. split.
  - rewrite map_app. cbn [map fst]. apply NoDup_app_disjoint; [assumption|constructor; [intros []|constructor]|].
    intros p I [<-|[]]. eapply aget_none_notin; eassumption.
  - apply Forall_app. split; [assumption|]. constructor; [constructor|constructor].
Qed.

Lemma buf_put_ok b vn p a : buf_ok b -> buf_ok (buf_put b vn p a).
Proof.
  intros [N F]. unfold buf_put. destruct (aget vn b) as [h|] eqn:E; split.
  - erewrite aset_keys_same; eassumption.
  - apply Forall_aset; [assumption|]. intros k'. cbn [snd]. apply hput_nodup.
    apply aget_In in E. rewrite Forall_forall in F. apply (F _ E).
  - rewrite map_app. cbn [map fst]. apply NoDup_app_disjoint; [assumption|constructor; [intros []|constructor]|].
    intros q I [<-|[]]. eapply aget_none_notin; eassumption.
  - apply Forall_app. split; [assumption|]. constructor; [|constructor].
    cbn. constructor; [intros []|constructor].
Qed.

Lemma pad_buffer_ok s e n b : buf_ok b -> buf_ok (pad_buffer s e n b).
Proof.
  intros [N F]. unfold pad_buffer. split.
  - rewrite map_map.
    erewrite map_ext; [exact N|]. intros [vn h]. cbn [fst].
    destruct (find_var vn (s_vars s)); [destruct (String.eqb _ _)|]; reflexivity.
  - apply Forall_map. eapply Forall_impl; [|exact F]. intros [vn h] H. cbn [fst snd] in *.
    destruct (find_var vn (s_vars s)); [destruct (String.eqb _ _)|]; cbn [snd]; try assumption.
    rewrite map_map. cbn [fst]. exact H.
Qed.

(** * The cell of a declared value, and what preserves it *)

Lemma add_variable_value_shape x st e v idx t value st' :
  value <> JNull -> add_variable_value x st e v idx t value = Ok st' ->
  exists p arr,
    st' = set_buffer st (buf_put (buf_touch (b_buffer st) (v_name v)) (v_name v) p arr).
Proof.
  intros Hn H. unfold add_variable_value in H.
  destruct value; [exfalso; apply Hn; reflexivity| ..].
  all: apply bind_ok in H; destruct H as (p & _ & H); cbv zeta in H;
    (destruct (check_set_value x v _) as [c|k]; [|destruct k; discriminate]);
    (destruct (Nat.ltb idx _); [|discriminate]); inversion H; subst; eauto.
Qed.

Lemma add_variable_value_ok x st e v idx t value st' :
  add_variable_value x st e v idx t value = Ok st' -> buf_ok (b_buffer st) -> buf_ok (b_buffer st').
Proof.
  intros H B. destruct (json_eq_null value) as [->|Hn].
  - cbn in H. inversion H; subst. assumption.
  - destruct (add_variable_value_shape _ _ _ _ _ _ _ _ Hn H) as (p & arr & ->).
    cbn [set_buffer b_buffer]. apply buf_put_ok, buf_touch_ok, B.
Qed.

(* a later declaration that does not write the same cell leaves it alone *)
Lemma add_variable_value_preserves x st e v' idx' t' value' st' vn p idx c :
  add_variable_value x st e v' idx' t' value' = Ok st' ->
  ~ (value' <> JNull /\ v_name v' = vn /\ idx' = idx /\ canon_key (tok x t') = Ok p) ->
  cell_at (b_buffer st) vn p idx c -> cell_at (b_buffer st') vn p idx c.
Proof.
  intros H N (arr & G & C).
  destruct (json_eq_null value') as [->|Hn].
  { cbn in H. inversion H; subst. exists arr. split; assumption. }
  destruct (add_variable_value_spec _ _ _ _ _ _ _ _ Hn H)
    as (p' & c' & old & Hp & Hc & Hold & Hlt & Hget & Hoth & _).
  destruct (string_dec (v_name v') vn) as [Ev|Ev].
  - destruct (period_eq_dec_b p' p) as [Ep|Ep].
    + subst p'. rewrite Ev in *. rewrite G in Hold. subst old.
      exists (list_set idx' c' arr). split; [assumption|].
      rewrite nth_error_list_set_other; [assumption|]. intros ->. apply N. auto.
    + exists arr. split; [|assumption]. rewrite Hoth; [assumption|]. congruence.
  - exists arr. split; [|assumption]. rewrite Hoth; [assumption|]. congruence.
Qed.

Definition touches (x : ext) (vn : string) (p : period) (idx : nat)
    (v' : variable) (idx' : nat) (t' : string) (value' : json) : Prop :=
  value' <> JNull /\ v_name v' = vn /\ idx' = idx /\ canon_key (tok x t') = Ok p.

Lemma get_ids_frame st st' q : frame st st' -> get_ids st' q = get_ids st q.
Proof. intros (A & _ & _ & B & _). unfold get_ids, ids_of. rewrite A, B. reflexivity. Qed.

Lemma find_var_name n l v : find_var n l = Some v -> v_name v = n.
Proof.
  induction l as [|a l IH]; cbn [find_var]; [discriminate|].
  destruct (String.eqb (v_name a) n) eqn:E; [|assumption].
  intros H; inversion H; subst. apply String.eqb_eq. assumption.
Qed.

Lemma add_dated_ok x e v idx l : forall st st',
  add_dated x st e v idx l = Ok st' -> buf_ok (b_buffer st) -> buf_ok (b_buffer st').
Proof.
  induction l as [|[t value] l IH]; intros st st'; cbn [add_dated].
  - intros H; inversion H; subst; auto.
  - destruct (parse_key (tok x t)); [|discriminate]. intros H B. apply bind_ok in H.
    destruct H as (st1 & H1 & H2). eapply IH; [eassumption|]. eapply add_variable_value_ok; eassumption.
Qed.

Lemma add_dated_preserves x e v' idx' l vn p idx c : forall st st',
  add_dated x st e v' idx' l = Ok st' ->
  (forall t' value', In (t', value') l -> ~ touches x vn p idx v' idx' t' value') ->
  cell_at (b_buffer st) vn p idx c -> cell_at (b_buffer st') vn p idx c.
Proof.
  induction l as [|[t value] l IH]; intros st st'; cbn [add_dated].
  - intros H; inversion H; subst; auto.
  - destruct (parse_key (tok x t)); [|discriminate]. intros H N C. apply bind_ok in H.
    destruct H as (st1 & H1 & H2). eapply IH; [eassumption| |].
    + intros t' value' I. apply N. right. assumption.
    + eapply add_variable_value_preserves; [eassumption| |assumption]. apply N. left. reflexivity.
Qed.

Lemma add_dated_establishes x e v idx dpre t value dpost p c : forall st st',
  add_dated x st e v idx (dpre ++ (t, value) :: dpost) = Ok st' ->
  value <> JNull -> canon_key (tok x t) = Ok p -> check_set_value x v value = Ok c ->
  (forall t' value', In (t', value') dpost -> value' <> JNull -> canon_key (tok x t') <> Ok p) ->
  cell_at (b_buffer st') (v_name v) p idx c.
Proof.
  intros st st' H Hn Hp Hc Hlast. rewrite add_dated_app in H.
  apply bind_ok in H. destruct H as (st1 & _ & H). cbn [add_dated] in H.
  destruct (parse_key (tok x t)); [|discriminate].
  apply bind_ok in H. destruct H as (st2 & H2 & H3).
  eapply add_dated_preserves; [eassumption| |].
  - intros t' value' I (A & _ & _ & D). eapply Hlast; eassumption.
  - destruct (add_variable_value_spec _ _ _ _ _ _ _ _ Hn H2)
      as (p' & c' & old & Hp' & Hc' & _ & Hlt & Hget & _).
    rewrite Hp in Hp'. inversion Hp'; subst p'. rewrite Hc in Hc'. inversion Hc'; subst c'.
    exists (list_set idx c old). split; [assumption|]. apply nth_error_list_set_same. assumption.
Qed.

Lemma init_ok x s e id fields : forall st st',
  init_variable_values x s st e fields id = Ok st' -> buf_ok (b_buffer st) -> buf_ok (b_buffer st').
Proof.
  induction fields as [|[vn vals] fields IH]; intros st st'; cbn [init_variable_values].
  - intros H; inversion H; subst; auto.
  - destruct (find_var vn (s_vars s)); [|discriminate].
    destruct (negb _); [discriminate|]. destruct (index_of id _); [|discriminate].
    destruct vals; try discriminate. intros H B. apply bind_ok in H.
    destruct H as (st1 & H1 & H2). eapply IH; [eassumption|]. eapply add_dated_ok; eassumption.
Qed.

(* the declarations of an instance [id'] of entity [e'] that do not write the cell *)
Definition fields_apart (x : ext) (s : sys) (e' : entity) (ids : list string) (id' : string)
    (fields : list (string * json)) (vn : string) (p : period) (idx : nat) : Prop :=
  forall vn' dated t' value' v' idx',
    In (vn', JObj dated) fields -> In (t', value') dated ->
    find_var vn' (s_vars s) = Some v' -> v_entity v' = e_key e' ->
    index_of id' ids = Some idx' -> ~ touches x vn p idx v' idx' t' value'.

Lemma init_preserves x s e' id' fields vn p idx c : forall st st',
  init_variable_values x s st e' fields id' = Ok st' ->
  fields_apart x s e' (get_ids st (e_plural e')) id' fields vn p idx ->
  cell_at (b_buffer st) vn p idx c -> cell_at (b_buffer st') vn p idx c.
Proof.
  induction fields as [|[vn' vals] fields IH]; intros st st'; cbn [init_variable_values].
  - intros H; inversion H; subst; auto.
  - destruct (find_var vn' (s_vars s)) as [v'|] eqn:Fv; [|discriminate].
    destruct (String.eqb (v_entity v') (e_key e')) eqn:Ee; [|discriminate]. cbn [negb].
    apply String.eqb_eq in Ee.
    destruct (index_of id' (get_ids st (e_plural e'))) as [idx'|] eqn:Ei; [|discriminate].
    destruct vals; try discriminate. intros H A C. apply bind_ok in H.
    destruct H as (st1 & H1 & H2).
    eapply IH; [eassumption| |].
    + rewrite (get_ids_frame st st1) by (eapply add_dated_frame; eassumption).
      intros a b c' d e0 f I. apply A. right. assumption.
    + eapply add_dated_preserves; [eassumption| |assumption].
      intros t' value' I. eapply A; try eassumption. left. reflexivity.
Qed.

Lemma init_establishes x s e id pre vn dpre t value dpost post v idx p c : forall st st',
  init_variable_values x s st e (pre ++ (vn, JObj (dpre ++ (t, value) :: dpost)) :: post) id = Ok st' ->
  find_var vn (s_vars s) = Some v ->
  index_of id (get_ids st (e_plural e)) = Some idx ->
  ~ In vn (map fst post) ->
  value <> JNull -> canon_key (tok x t) = Ok p -> check_set_value x v value = Ok c ->
  (forall t' value', In (t', value') dpost -> value' <> JNull -> canon_key (tok x t') <> Ok p) ->
  cell_at (b_buffer st') vn p idx c /\ v_entity v = e_key e.
Proof.
  intros st st' H Fv Hi Npost Hn Hp Hc Hlast. rewrite init_variable_values_app in H.
  apply bind_ok in H. destruct H as (st1 & H1 & H). cbn [init_variable_values] in H.
  rewrite Fv in H.
  destruct (String.eqb (v_entity v) (e_key e)) eqn:Ee; [|discriminate]. cbn [negb] in H.
  apply String.eqb_eq in Ee.
  pose proof (init_variable_values_frame _ _ _ _ _ _ _ H1) as F1.
  rewrite (get_ids_frame _ _ _ F1), Hi in H.
  apply bind_ok in H. destruct H as (st2 & H2 & H3).
  split; [|assumption].
  eapply init_preserves; [eassumption| |].
  - intros vn' dated t' value' v' idx' I _ Fv' _ _ (_ & Nm & _).
    apply find_var_name in Fv'. apply Npost. apply in_map_iff.
    exists (vn', JObj dated). split; [cbn; congruence|assumption].
  - rewrite <- (find_var_name _ _ _ Fv).
    eapply add_dated_establishes; eassumption.
Qed.

Lemma add_person_instances_ok x s l : forall st st',
  add_person_instances x s st l = Ok st' -> buf_ok (b_buffer st) -> buf_ok (b_buffer st').
Proof.
  induction l as [|[pid j] l IH]; intros st st'; cbn [add_person_instances].
  - intros H; inversion H; subst; auto.
  - destruct j; try discriminate. intros H B. apply bind_ok in H.
    destruct H as (st1 & H1 & H2). eapply IH; [eassumption|]. eapply init_ok; eassumption.
Qed.

Lemma add_person_instances_preserves x s l vn p idx c : forall st st',
  add_person_instances x s st l = Ok st' ->
  (forall id' j', In (id', j') l -> index_of id' (get_ids st (e_plural (s_person s))) <> Some idx) ->
  cell_at (b_buffer st) vn p idx c -> cell_at (b_buffer st') vn p idx c.
Proof.
  induction l as [|[pid j] l IH]; intros st st'; cbn [add_person_instances].
  - intros H; inversion H; subst; auto.
  - destruct j; try discriminate. intros H N C. apply bind_ok in H.
    destruct H as (st1 & H1 & H2).
    eapply IH; [eassumption| |].
    + rewrite (get_ids_frame st st1) by (eapply init_variable_values_frame; eassumption).
      intros id' j' I. eapply N. right. eassumption.
    + eapply init_preserves; [eassumption| |assumption].
      intros vn' dated t' value' v' idx' _ _ _ _ Hi (_ & _ & E & _). subst idx'.
      eapply N; [left; reflexivity|eassumption].
Qed.

(** * The groups do not touch the values of the persons *)

Lemma aget_map_keyfix {A} (f : string * A -> string * A) k l :
  (forall vh, fst (f vh) = fst vh) ->
  aget k (map f l) = option_map (fun a => snd (f (k, a))) (aget k l).
Proof.
  intros Hf. induction l as [|[k0 a0] l IH]; cbn [map aget option_map]; [reflexivity|].
  pose proof (Hf (k0, a0)) as H0. destruct (f (k0, a0)) as [k1 a1] eqn:E. cbn [fst] in H0. subst k1.
  cbn [aget]. destruct (String.eqb k0 k) eqn:Q; [|exact IH].
  apply String.eqb_eq in Q. subst k0. cbn [option_map]. rewrite E. reflexivity.
Qed.

Section OtherEntity.
  Variables (x : ext) (s : sys) (vn : string) (v : variable) (p : period) (idx : nat) (c : cell).
  Hypothesis Fv : find_var vn (s_vars s) = Some v.

  (* declarations of an entity that is not the variable's *)
  Lemma fields_apart_other e' ids id' fields :
    v_entity v <> e_key e' -> fields_apart x s e' ids id' fields vn p idx.
  Proof.
    intros Ne vn' dated t' value' v' idx' _ _ Fv' Ee _ (_ & Nm & _).
    apply find_var_name in Fv' as Nm'. rewrite Nm in Nm'. subst vn'.
    rewrite Fv in Fv'. inversion Fv'; subst v'. contradiction.
  Qed.

  Lemma add_group_instances_preserves e pids eids l : forall st todo mr st' todo' mr',
    v_entity v <> e_key e ->
    add_group_instances x s e pids eids l st todo mr = Ok (st', todo', mr') ->
    cell_at (b_buffer st) vn p idx c -> cell_at (b_buffer st') vn p idx c.
  Proof.
    induction l as [|[gid j] l IH]; intros st todo mr st' todo' mr' Ne; cbn [add_group_instances].
    - intros H; inversion H; subst; auto.
    - destruct j; try discriminate. intros H C. apply bind_ok in H. destruct H as (t1 & _ & H).
      destruct (index_of gid eids); [|discriminate].
      apply bind_ok in H. destruct H as (m1 & _ & H).
      apply bind_ok in H. destruct H as (st1 & H1 & H2).
      eapply IH; [assumption|eassumption|].
      eapply init_preserves; [eassumption|apply fields_apart_other; assumption|assumption].
  Qed.

  Lemma add_group_instances_ok e pids eids l : forall st todo mr st' todo' mr',
    add_group_instances x s e pids eids l st todo mr = Ok (st', todo', mr') ->
    buf_ok (b_buffer st) -> buf_ok (b_buffer st').
  Proof.
    induction l as [|[gid j] l IH]; intros st todo mr st' todo' mr'; cbn [add_group_instances].
    - intros H; inversion H; subst; auto.
    - destruct j; try discriminate. intros H B. apply bind_ok in H. destruct H as (t1 & _ & H).
      destruct (index_of gid eids); [|discriminate].
      apply bind_ok in H. destruct H as (m1 & _ & H).
      apply bind_ok in H. destruct H as (st1 & H1 & H2).
      eapply IH; [eassumption|]. eapply init_ok; eassumption.
  Qed.

  Lemma pad_buffer_other e n b :
    v_entity v <> e_key e -> buf_get (pad_buffer s e n b) vn p = buf_get b vn p.
  Proof.
    intros Ne. unfold buf_get, pad_buffer. rewrite aget_map_keyfix.
    - destruct (aget vn b) as [h|]; cbn [option_map]; [|reflexivity].
      cbn [fst snd]. rewrite Fv.
      destruct (String.eqb (v_entity v) (e_key e)) eqn:Q; [apply String.eqb_eq in Q; contradiction|].
      reflexivity.
    - intros [k h]. cbn [fst].
      destruct (find_var k (s_vars s)); [destruct (String.eqb _ _)|]; reflexivity.
  Qed.

  Lemma add_group_entity_preserves st pids e j st' :
    v_entity v <> e_key e ->
    add_group_entity x s st pids e j = Ok st' ->
    cell_at (b_buffer st) vn p idx c -> cell_at (b_buffer st') vn p idx c.
  Proof.
    intros Ne H C. unfold add_group_entity in H. destruct j; try discriminate.
    apply bind_ok in H. destruct H as ([[st1 todo] mr] & H1 & H2).
    eapply add_group_instances_preserves in H1; [|assumption|exact C].
    destruct todo; inversion H2; subst st';
      cbn [set_roles set_members set_buffer set_ids b_buffer]; [assumption|].
    destruct H1 as (arr & G & Cn). exists arr. split; [|assumption].
    rewrite pad_buffer_other by assumption. exact G.
  Qed.

  Lemma add_group_entity_ok st pids e j st' :
    add_group_entity x s st pids e j = Ok st' -> buf_ok (b_buffer st) -> buf_ok (b_buffer st').
  Proof.
    intros H B. unfold add_group_entity in H. destruct j; try discriminate.
    apply bind_ok in H. destruct H as ([[st1 todo] mr] & H1 & H2).
    eapply add_group_instances_ok in H1; [|exact B].
    destruct todo; inversion H2; subst st';
      cbn [set_roles set_members set_buffer set_ids b_buffer]; [assumption|].
    apply pad_buffer_ok. assumption.
  Qed.

  Lemma add_groups_preserves pids params ax gs : forall st st',
    (forall g, In g gs -> v_entity v <> e_key g) ->
    add_groups x s st pids params ax gs = Ok st' ->
    buf_ok (b_buffer st) -> cell_at (b_buffer st) vn p idx c ->
    buf_ok (b_buffer st') /\ cell_at (b_buffer st') vn p idx c.
  Proof.
    induction gs as [|g gs IH]; intros st st' Ne H B C; cbn [add_groups] in H.
    - inversion H; subst. split; assumption.
    - apply bind_ok in H. destruct H as (st1 & H1 & H2).
      assert (buf_ok (b_buffer st1) /\ cell_at (b_buffer st1) vn p idx c) as [B1 C1].
      { destruct (aget (e_plural g) params) as [j|].
        - destruct j;
            try (split; [eapply add_group_entity_ok; eassumption
                        |eapply add_group_entity_preserves; [apply Ne; left; reflexivity|eassumption|assumption]]);
            destruct ax; try discriminate; inversion H1; subst; split; assumption.
        - destruct ax; try discriminate; inversion H1; subst; split; assumption. }
      eapply IH; try eassumption. intros g' I. apply Ne. right. assumption.
  Qed.
End OtherEntity.

(** * The flush of a variable without set-input rule stores every buffered array *)

Lemma repeat_list_one {A} (l : list A) k i :
  (1 <= k)%nat -> (i < List.length l)%nat -> nth_error (repeat_list l k) i = nth_error l i.
Proof.
  intros Hk Hi. pose proof (nth_error_repeat_list l k 0 i) as H. cbn [Nat.mul Nat.add] in H.
  apply H; lia.
Qed.

Lemma flush_periods_rnone v count :
  v_rule v = RNone -> eternal v = false -> v_end v = None ->
  forall L h h',
    NoDup (map fst L) -> flush_periods v count h L = Ok h' ->
    (forall p arr, In (p, arr) L ->
       hget h' p = Some (repeat_list arr (count / List.length arr))
       /\ List.length (repeat_list arr (count / List.length arr)) = count) /\
    (forall q, ~ In q (map fst L) -> hget h' q = hget h q).
Proof.
  intros Hr He Hend. induction L as [|[p values] L IH]; intros h h' ND H.
  - cbn in H. inversion H; subst. split; [intros ? ? []|reflexivity].
  - cbn [flush_periods] in H. destruct (Nat.eqb (List.length values) 0); [discriminate|].
    apply bind_ok in H. destruct H as (h1 & H1 & H2).
    cbn [map fst] in ND. inversion ND as [|? ? Nin ND']; subst.
    unfold set_input_unless_ended in H1. rewrite Hend in H1.
    unfold holder_set_input in H1. rewrite He, Hr in H1. cbn [negb] in H1.
    destruct (unit_eqb (p_unit p) Eternity && true); [discriminate|].
    unfold holder_set in H1. apply bind_ok in H1. destruct H1 as (a' & Hl & H1).
    unfold check_len in Hl.
    destruct (Nat.eqb (List.length (repeat_list values (count / List.length values))) count) eqn:El;
      [|discriminate].
    inversion Hl; subst a'. apply Nat.eqb_eq in El. rewrite He in H1.
    destruct (negb _ || _); [discriminate|]. inversion H1; subst h1.
    destruct (IH _ _ ND' H2) as (I1 & I2). split.
    + intros q arr [Q|I].
      * inversion Q; subst q arr. split; [|assumption].
        rewrite I2 by assumption. apply hget_hput_same.
      * apply I1. assumption.
    + intros q Nq. rewrite I2.
      * apply hget_hput_other. intros ->. apply Nq. left. reflexivity.
      * intros I. apply Nq. right. assumption.
Qed.

Lemma flush_buffer_get s e count b : forall hs hs',
  NoDup (map fst b) -> flush_buffer s e count b hs = Ok hs' ->
  (forall vn entries v, In (vn, entries) b -> find_var vn (s_vars s) = Some v -> v_entity v = e_key e ->
     exists h, aget vn hs' = Some h
               /\ flush_periods v count (match aget vn hs with Some h0 => h0 | None => [] end)
                    (sort_periods entries) = Ok h) /\
  (forall vn, ~ In vn (map fst b) -> aget vn hs' = aget vn hs).
Proof.
  induction b as [|[vn0 en0] b IH]; intros hs hs' ND H.
  - cbn in H. inversion H; subst. split; [intros ? ? ? []|reflexivity].
  - cbn [map fst] in ND. inversion ND as [|? ? Nin ND']; subst. cbn [flush_buffer] in H.
    destruct (find_var vn0 (s_vars s)) as [v0|] eqn:F0.
    + destruct (String.eqb (v_entity v0) (e_key e)) eqn:E0; cbn [negb] in H.
      * destruct (flush_periods v0 count _ (sort_periods en0)) as [h1|k] eqn:Fl;
          [|destruct k; discriminate].
        destruct (IH _ _ ND' H) as (I1 & I2). split.
        -- intros vn entries v [Q|I] Fv Ev.
           ++ inversion Q; subst vn0 en0. rewrite Fv in F0. inversion F0; subst v0.
              exists h1. split; [|assumption]. rewrite I2 by assumption. apply aget_aset_same.
           ++ destruct (I1 vn entries v I Fv Ev) as (h & A & B). exists h. split; [assumption|].
              rewrite aget_aset_other in B; [assumption|].
              intros ->. apply Nin. apply in_map_iff. exists (vn0, entries). split; [reflexivity|assumption].
        -- intros vn N. rewrite I2 by (intros I; apply N; right; assumption).
           apply aget_aset_other. intros ->. apply N. left. reflexivity.
      * destruct (IH _ _ ND' H) as (I1 & I2). split.
        -- intros vn entries v [Q|I] Fv Ev.
           ++ inversion Q; subst vn0 en0. rewrite Fv in F0. inversion F0; subst v0.
              rewrite Ev, String.eqb_refl in E0. discriminate.
           ++ apply I1; assumption.
        -- intros vn N. apply I2. intros I; apply N; right; assumption.
    + destruct (IH _ _ ND' H) as (I1 & I2). split.
      * intros vn entries v [Q|I] Fv Ev.
        -- inversion Q; subst vn0 en0. rewrite Fv in F0. discriminate.
        -- apply I1; assumption.
      * intros vn N. apply I2. intros I; apply N; right; assumption.
Qed.

Lemma hget_In h p a : hget h p = Some a -> In (p, a) h.
Proof.
  induction h as [|[k w] h IH]; cbn [hget]; [discriminate|].
  destruct (period_eqb k p) eqn:E.
  - apply bp_period_eqb_eq in E. subst. intros H; inversion H; subst. left. reflexivity.
  - intros H. right. apply IH. assumption.
Qed.

(** * Document level *)

(** For every document without axes that builds: a value declared for a person under the key
    text [t] (the last of that person's keys for the variable that denotes this period), for a
    variable without set-input rule, is stored in the persons' population at the canonical
    period of the key and at the person's index, converted by [check_set_value]. *)
Theorem build_person_value_stored x s doc sim persons ppre pid fields ppost pre vn dated post
    dpre t value dpost v p c idx :
  NoDup (singulars s) -> ~ In (e_plural (s_person s)) (map e_plural (s_groups s)) ->
  aget "axes"%string doc = None ->
  aget (e_plural (s_person s)) (aremove "axes" doc) = Some (JObj persons) ->
  persons = ppre ++ (pid, JObj fields) :: ppost -> NoDup (map fst persons) ->
  fields = pre ++ (vn, JObj dated) :: post -> NoDup (map fst fields) ->
  dated = dpre ++ (t, value) :: dpost ->
  (forall t' value', In (t', value') dpost -> value' <> JNull -> canon_key (tok x t') <> Ok p) ->
  value <> JNull -> find_var vn (s_vars s) = Some v ->
  v_rule v = RNone -> eternal v = false -> v_end v = None ->
  canon_key (tok x t) = Ok p -> check_set_value x v value = Ok c ->
  index_of pid (map fst persons) = Some idx ->
  build_from_entities x s doc = Ok sim ->
  exists pop rest, sim = pop :: rest /\ p_entity pop = e_key (s_person s) /\ stored pop vn p idx c.
Proof.
  intros NDs Npl Hax Hp Epers NDp Efields NDf Edated Hlast Hn Fv Hr He Hend Hk Hc Hidx H.
  unfold build_from_entities in H. rewrite Hp, Hax in H.
  destruct (existsb _ (aremove "axes" doc)); [discriminate|].
  destruct persons as [|i0 rest0] eqn:Ep0; [destruct ppre; discriminate|]. rewrite <- Ep0 in *.
  apply bind_ok in H. destruct H as (st1 & H1 & H).
  apply bind_ok in H. destruct H as (st2 & H2 & H). cbn [bind] in H.
  unfold entities in H. cbn [mapM] in H.
  destruct (finalize_population s st2 (s_person s)) as [pop|] eqn:F; [|discriminate].
  destruct (mapM (finalize_population s st2) (s_groups s)) as [rest|]; [|discriminate].
  inversion H; subst sim. clear H. exists pop, rest. split; [reflexivity|].
  (* the parse stage, persons *)
  set (pp := e_plural (s_person s)) in *.
  set (st0 := set_ids b_empty pp (map fst persons)) in *.
  assert (get_ids st0 pp = map fst persons) as Ids0.
  { unfold st0, get_ids, ids_of. cbn. rewrite String.eqb_refl. reflexivity. }
  unfold add_person_entity in H1. fold pp in H1. fold st0 in H1.
  rewrite Epers in H1. rewrite add_person_instances_app in H1.
  apply bind_ok in H1. destruct H1 as (sta & Ha & H1). cbn [add_person_instances] in H1.
  apply bind_ok in H1. destruct H1 as (stb & Hb & Hc').
  pose proof (add_person_instances_frame _ _ _ _ _ Ha) as Fa.
  pose proof (init_variable_values_frame _ _ _ _ _ _ _ Hb) as Fb.
  assert (buf_ok (b_buffer st0)) as B0 by (split; constructor).
  pose proof (add_person_instances_ok _ _ _ _ _ Ha B0) as Ba.
  pose proof (init_ok _ _ _ _ _ _ _ Hb Ba) as Bb.
  pose proof (add_person_instances_ok _ _ _ _ _ Hc' Bb) as B1.
  rewrite Efields, Edated in Hb.
  assert (~ In vn (map fst post)) as Npost.
  { rewrite Efields, map_app in NDf. cbn [map fst] in NDf. apply NoDup_remove_2 in NDf.
    intros I. apply NDf. apply in_or_app. right. assumption. }
  destruct (init_establishes x s (s_person s) pid pre vn dpre t value dpost post v idx p c sta stb Hb Fv)
    as (Cb & Ev); try assumption.
  { fold pp. rewrite (get_ids_frame _ _ _ Fa), Ids0. assumption. }
  assert (cell_at (b_buffer st1) vn p idx c) as C1.
  { eapply add_person_instances_preserves; [eassumption| |assumption].
    intros id' j' I E'. fold pp in E'.
    rewrite (get_ids_frame _ _ _ Fb), (get_ids_frame _ _ _ Fa), Ids0 in E'.
    assert (id' = pid) by (eapply index_of_inj; eassumption). subst id'.
    rewrite Epers, map_app in NDp. cbn [map fst] in NDp. apply NoDup_remove_2 in NDp.
    apply NDp. apply in_or_app. right. apply in_map_iff. exists (pid, j'). split; [reflexivity|assumption]. }
  (* the groups *)
  assert (forall g, In g (s_groups s) -> v_entity v <> e_key g) as Ng.
  { intros g Ig E'. rewrite Ev in E'. unfold singulars, entities in NDs. cbn [map] in NDs.
    inversion NDs as [|? ? Nin _]; subst. apply Nin. rewrite E'. apply in_map. assumption. }
  destruct (add_groups_preserves x s vn v p idx c Fv _ _ _ _ _ _ Ng H2 B1 C1) as (B2 & C2).
  (* the flush *)
  unfold finalize_population in F. apply bind_ok in F. destruct F as (hs & Fl & F).
  inversion F; subst pop. clear F. split; [reflexivity|].
  destruct C2 as (arr & G & Cn). unfold buf_get in G.
  destruct (aget vn (b_buffer st2)) as [entries|] eqn:Ge; [|discriminate].
  destruct B2 as [ND2 FA2].
  destruct (flush_buffer_get _ _ _ _ _ _ ND2 Fl) as (Get & _).
  destruct (Get vn entries v (aget_In _ _ _ Ge) Fv Ev) as (h & Ah & Fh).
  cbn [aget] in Fh.
  assert (NoDup (map fst (sort_periods entries))) as NDk.
  { eapply Permutation_NoDup; [apply Permutation_map; symmetry; apply sort_periods_perm|].
    rewrite Forall_forall in FA2. apply (FA2 _ (aget_In _ _ _ Ge)). }
  destruct (flush_periods_rnone v _ Hr He Hend _ _ _ NDk Fh) as (St & _).
  assert (In (p, arr) (sort_periods entries)) as Ipa.
  { eapply Permutation_in; [symmetry; apply sort_periods_perm|]. apply hget_In. assumption. }
  destruct (St p arr Ipa) as (Hg & Hl).
  unfold stored. cbn [p_holders]. exists h, (repeat_list arr (get_count st2 (e_plural (s_person s)) / List.length arr)).
  split; [assumption|]. split; [assumption|].
  assert (idx < List.length arr)%nat as Lt by (apply nth_error_Some; congruence).
  rewrite repeat_list_one; [assumption| |assumption].
  rewrite repeat_list_length in Hl.
  destruct (get_count st2 (e_plural (s_person s)) / List.length arr)%nat eqn:Q; [|lia].
  cbn [Nat.mul] in Hl.
  (* count = 0 is impossible: the person has an index *)
  exfalso. unfold get_count in Hl.
  assert (get_ids st2 pp = map fst persons) as Ids2.
  { destruct (add_groups_other_ids _ _ _ _ _ _ pp _ _ H2) as [A1 A2].
    - exact Npl.
    - unfold get_ids, ids_of in *. rewrite A2, A1.
      pose proof (add_person_instances_frame _ _ _ _ _ Hc') as Fc.
      destruct Fc as (Fc1 & _ & _ & Fc4 & _). destruct Fb as (Fb1 & _ & _ & Fb4 & _).
      destruct Fa as (Fa1 & _ & _ & Fa4 & _). rewrite Fc4, Fb4, Fa4, Fc1, Fb1, Fa1. exact Ids0. }
  fold pp in Hl. rewrite Ids2 in Hl. apply index_of_lt in Hidx. lia.
Qed.
