(** Proofs about the engine model: the machine [calc] (cache, evaluation stack, cycle and
    spiral tests, purge) refines the meaning [den] of a rule system, for every rule
    system in which dependencies point to strictly earlier variables. *)
From Coq Require Import ZArith List Bool Arith Lia.
From Verif Require Import Base Cal Tables Period Np Group Param Engine.
Import ListNotations.
Open Scope nat_scope.

(** * Ranked systems *)

Fixpoint deps_ok (nv n : nat) (e : expr) : bool :=
  match e with
  | EDep w _ _ => Nat.ltb w n || Nat.leb nv w
  | EBin _ a b => deps_ok nv n a && deps_ok nv n b
  | ENot a => deps_ok nv n a
  | EWhere c a b => deps_ok nv n c && deps_ok nv n a && deps_ok nv n b
  | EAgg _ _ a => deps_ok nv n a
  | EProject _ a => deps_ok nv n a
  | _ => true
  end.

Definition var_ok (nv n : nat) (x : var) : bool :=
  forallb (fun se => deps_ok nv n (snd se)) (v_formulas x)
  && (negb (unit_eqb (v_unit x) Eternity) || match v_formulas x with [] => true | _ => false end).

Fixpoint ranked_from (nv n : nat) (l : list var) : bool :=
  match l with
  | [] => true
  | x :: r => var_ok nv n x && ranked_from nv (S n) r
  end.

(** Every dependency of variable number [v] is a variable number [< v] (or an unknown
    variable), and eternal variables carry no formula. *)
Definition ranked (sy : sys) : bool := ranked_from (length (vars sy)) 0 (vars sy).

Lemma ranked_from_nth : forall nv l n i x,
  ranked_from nv n l = true -> nth_error l i = Some x -> var_ok nv (n + i) x = true.
Proof.
  induction l as [|y r IH]; intros n i x H Hn; [destruct i; discriminate|].
  cbn in H. apply andb_true_iff in H as [H1 H2]. destruct i as [|i]; cbn in Hn.
  - inversion Hn; subst. now rewrite Nat.add_0_r.
  - replace (n + S i) with (S n + i) by lia. eauto.
Qed.

Lemma ranked_nth : forall sy v x, ranked sy = true -> nth_error (vars sy) v = Some x ->
  var_ok (length (vars sy)) v x = true.
Proof. intros sy v x H Hn. exact (ranked_from_nth _ _ 0 v x H Hn). Qed.

Lemma latest_formula_in : forall fs d acc e,
  latest_formula fs d acc = Some e -> acc = Some e \/ exists s, In (s, e) fs.
Proof.
  induction fs as [|[s e'] r IH]; intros d acc e H; cbn in H; [now left|].
  destruct (date_leb s d).
  - apply IH in H as [H|[s' H]].
    + inversion H; subst. right. exists s. now left.
    + right. exists s'. now right.
  - apply IH in H as [H|[s' H]]; [now left|]. right. exists s'. now right.
Qed.

Lemma formula_at_deps : forall nv n x p e,
  var_ok nv n x = true -> formula_at x p = Ok (Some e) -> deps_ok nv n e = true.
Proof.
  intros nv n x p e Hv H. unfold var_ok in Hv. apply andb_true_iff in Hv as [Hv _].
  rewrite forallb_forall in Hv.
  assert (Hl : forall o, latest_formula (v_formulas x) (p_start p) None = o -> o = Some e ->
                         deps_ok nv n e = true).
  { intros o Ho Hoe. subst o. apply latest_formula_in in Hoe as [Hc|[s Hin]]; [discriminate|].
    exact (Hv _ Hin). }
  unfold formula_at in H. destruct (v_formulas x) as [|f fs] eqn:Ef; [discriminate|].
  rewrite <- Ef in *. destruct (negb (validb (p_start p))); [discriminate|].
  destruct (v_end x) as [en|].
  - destruct (date_ltb en (p_start p)); [discriminate|]. inversion H. eapply Hl; eauto.
  - inversion H. eapply Hl; eauto.
Qed.

(** * Simulation between two instances of the generic evaluator *)

Section Sim.
  Variable sy : sys.
  Variable pp : popu.
  Variable rec1 : unit -> nat -> period -> unit * res val.
  Context {S2 : Type}.
  Variable rec2 : S2 -> nat -> period -> S2 * res val.
  Variable P : S2 -> Prop.
  Variable n : nat.
  Hypothesis Hrec : forall s w q, w < n -> P s ->
    P (fst (rec2 s w q)) /\ snd (rec2 s w q) = snd (rec1 tt w q).

  Lemma sum_calc_sim : forall subs w acc s, w < n -> P s ->
    P (fst (sum_calc rec2 s w subs acc)) /\
    snd (sum_calc rec2 s w subs acc) = snd (sum_calc rec1 tt w subs acc).
  Proof.
    induction subs as [|q r IH]; intros w acc s Hw Hs; cbn; [auto|].
    destruct (Hrec s w q Hw Hs) as [HP Hr].
    destruct (rec2 s w q) as [s1 r1]; destruct (rec1 tt w q) as [[] r1']; cbn [fst snd] in *. subst r1'.
    destruct r1 as [a|e]; cbn [fst snd]; auto.
  Qed.

  Lemma calc_add_sim : forall w x q s, w < n -> P s ->
    P (fst (calc_add rec2 s w x q)) /\ snd (calc_add rec2 s w x q) = snd (calc_add rec1 tt w x q).
  Proof.
    intros w x q s Hw Hs. unfold calc_add.
    destruct (_ <? _)%Z; cbn [fst snd]; auto.
    destruct (unit_eqb _ _); cbn [fst snd]; auto.
    destruct (negb _); cbn [fst snd]; auto.
    destruct (subperiods _ _); cbn [fst snd]; auto.
    now apply sum_calc_sim.
  Qed.

  Lemma calc_divide_sim : forall w x q s, w < n -> P s ->
    P (fst (calc_divide rec2 s w x q)) /\
    snd (calc_divide rec2 s w x q) = snd (calc_divide rec1 tt w x q).
  Proof.
    intros w x q s Hw Hs. unfold calc_divide.
    destruct (_ || _); cbn [fst snd]; auto.
    destruct (negb (dated_unit (v_unit x))); cbn [fst snd]; auto.
    destruct (_ || _); cbn [fst snd]; auto.
    destruct (divide_period _ _) as [cp|]; cbn [fst snd]; auto.
    destruct (divide_denominator _ _); cbn [fst snd]; auto.
    destruct (Hrec s w cp Hw Hs) as [HP Hr].
    destruct (rec2 s w cp) as [s1 r1]; destruct (rec1 tt w cp) as [[] r1']; cbn [fst snd] in *. subst r1'.
    destruct r1; cbn [fst snd]; auto.
  Qed.

  Lemma call_sim : forall c w q o s, (w < n \/ length (vars sy) <= w) -> P s ->
    P (fst (call rec2 sy c s w q o)) /\ snd (call rec2 sy c s w q o) = snd (call rec1 sy c tt w q o).
  Proof.
    intros c w q o s Hw Hs. unfold call.
    destruct (nth_error (vars sy) w) as [x|] eqn:Ex; cbn [fst snd]; auto.
    assert (Hlt : w < n).
    { destruct Hw as [?|Hw]; auto. apply nth_error_None in Hw. congruence. }
    destruct (negb _); cbn [fst snd]; auto.
    destruct o; cbn [fst snd]; auto.
    - now apply calc_add_sim.
    - destruct (calc_divide_sim w x q s Hlt Hs) as [HP Hr].
      destruct (calc_divide rec2 s w x q) as [s1 r1]; destruct (calc_divide rec1 tt w x q) as [[] r1'].
      cbn [fst snd] in *. subst r1'. destruct r1 as [[a d]|]; cbn [fst snd]; auto.
  Qed.

  Lemma eval_sim : forall e c s p, deps_ok (length (vars sy)) n e = true -> P s ->
    P (fst (eval rec2 sy pp c s p e)) /\ snd (eval rec2 sy pp c s p e) = snd (eval rec1 sy pp c tt p e).
  Proof.
    induction e as [z|w pt o|op a IHa b IHb|a IHa|cn IHc a IHa b IHb|k|g role a IHa|role|role a IHa|f|k];
      intros c s p Hd Hs; cbn [eval deps_ok] in *; auto.
    - (* EDep *)
      destruct (apply_ptrans pt p); cbn [fst snd]; auto.
      apply call_sim; auto.
      apply orb_true_iff in Hd as [Hd|Hd]; [left; now apply Nat.ltb_lt|right; now apply Nat.leb_le].
    - (* EBin *)
      apply andb_true_iff in Hd as [Ha Hb].
      destruct (IHa c s p Ha Hs) as [HP1 Hr1].
      destruct (eval rec2 sy pp c s p a) as [s1 r1]; destruct (eval rec1 sy pp c tt p a) as [[] r1'].
      cbn [fst snd] in *. subst r1'. destruct r1 as [x|]; cbn [fst snd]; auto.
      destruct (IHb c s1 p Hb HP1) as [HP2 Hr2].
      destruct (eval rec2 sy pp c s1 p b) as [s2 r2]; destruct (eval rec1 sy pp c tt p b) as [[] r2'].
      cbn [fst snd] in *. subst r2'. destruct r2; cbn [fst snd]; auto.
    - (* ENot *)
      destruct (IHa c s p Hd Hs) as [HP1 Hr1].
      destruct (eval rec2 sy pp c s p a) as [s1 r1]; destruct (eval rec1 sy pp c tt p a) as [[] r1'].
      cbn [fst snd] in *. subst r1'. auto.
    - (* EWhere *)
      apply andb_true_iff in Hd as [Hd Hb]. apply andb_true_iff in Hd as [Hc Ha].
      destruct (IHc c s p Hc Hs) as [HP1 Hr1].
      destruct (eval rec2 sy pp c s p cn) as [s1 r1]; destruct (eval rec1 sy pp c tt p cn) as [[] r1'].
      cbn [fst snd] in *. subst r1'. destruct r1 as [x|]; cbn [fst snd]; auto.
      destruct (IHa c s1 p Ha HP1) as [HP2 Hr2].
      destruct (eval rec2 sy pp c s1 p a) as [s2 r2]; destruct (eval rec1 sy pp c tt p a) as [[] r2'].
      cbn [fst snd] in *. subst r2'. destruct r2 as [y|]; cbn [fst snd]; auto.
      destruct (IHb c s2 p Hb HP2) as [HP3 Hr3].
      destruct (eval rec2 sy pp c s2 p b) as [s3 r3]; destruct (eval rec1 sy pp c tt p b) as [[] r3'].
      cbn [fst snd] in *. subst r3'. destruct r3; cbn [fst snd]; auto.
    - (* EParam *)
      destruct (nth_error (params sy) k); cbn [fst snd]; auto. destruct (get_at _ _); cbn [fst snd]; auto.
    - (* EAgg *)
      destruct (IHa EPerson s p Hd Hs) as [HP1 Hr1].
      destruct (eval rec2 sy pp EPerson s p a) as [s1 r1];
        destruct (eval rec1 sy pp EPerson tt p a) as [[] r1'].
      cbn [fst snd] in *. subst r1'. auto.
    - (* EProject *)
      destruct (IHa EGroup s p Hd Hs) as [HP1 Hr1].
      destruct (eval rec2 sy pp EGroup s p a) as [s1 r1];
        destruct (eval rec1 sy pp EGroup tt p a) as [[] r1'].
      cbn [fst snd] in *. subst r1'. auto.
    - (* ERaise *)
      destruct (existsb _ _); cbn [fst snd]; auto.
  Qed.
End Sim.

(** Two instances without machine state that agree on the relevant variables. *)
Lemma eval_ext : forall sy pp (rec1 rec2 : unit -> nat -> period -> unit * res val) n,
  (forall w q, w < n -> snd (rec1 tt w q) = snd (rec2 tt w q)) ->
  forall e c p, deps_ok (length (vars sy)) n e = true ->
  snd (eval rec1 sy pp c tt p e) = snd (eval rec2 sy pp c tt p e).
Proof.
  intros sy pp rec1 rec2 n Hrec e c p Hd.
  refine (proj2 (eval_sim sy pp rec2 rec1 (fun _ => True) n _ e c tt p Hd I)).
  intros [] w q Hw _. split; [exact I|auto].
Qed.

(** * Keys and the cache *)

Lemma date_eqb_iff a b : date_eqb a b = true <-> a = b.
Proof.
  destruct a as [[y1 m1] d1], b as [[y2 m2] d2]. unfold date_eqb.
  rewrite !andb_true_iff, !Z.eqb_eq. split; [intros [[-> ->] ->]; reflexivity|].
  intro H; inversion H; auto.
Qed.

Lemma unit_eqb_iff a b : unit_eqb a b = true <-> a = b.
Proof. destruct a, b; cbn; split; intro H; try reflexivity; try discriminate. Qed.

Lemma period_eqb_iff p q : period_eqb p q = true <-> p = q.
Proof.
  destruct p as [[u s] n], q as [[u' s'] n']. unfold period_eqb, p_unit, p_start, p_size; cbn [fst snd].
  rewrite !andb_true_iff, unit_eqb_iff, date_eqb_iff, Z.eqb_eq.
  split; [intros [[-> ->] ->]; reflexivity|]. intro H; inversion H; auto.
Qed.

Lemma key_eqb_iff a b : key_eqb a b = true <-> a = b.
Proof.
  destruct a as [v p], b as [w q]. unfold key_eqb; cbn [fst snd].
  rewrite andb_true_iff, Nat.eqb_eq, period_eqb_iff.
  split; [intros [-> ->]; reflexivity|]. intro H; inversion H; auto.
Qed.

Lemma key_eqb_refl k : key_eqb k k = true.
Proof. now apply key_eqb_iff. Qed.

Lemma find_filter {A} (f g : A -> bool) l :
  (forall x, f x = true -> g x = true) -> find f (filter g l) = find f l.
Proof.
  intro H. induction l as [|x l IH]; cbn; auto.
  destruct (g x) eqn:Eg; cbn.
  - destruct (f x); auto.
  - destruct (f x) eqn:Ef; auto. rewrite (H x Ef) in Eg. discriminate.
Qed.

Lemma lookup_put k k' a s :
  lookup k (cache (put k' a s)) = if key_eqb k k' then Some a else lookup k (cache s).
Proof.
  unfold lookup, put; cbn [cache find fst].
  destruct (key_eqb k k') eqn:E; cbn [option_map snd]; auto.
  unfold remove_key. rewrite find_filter; auto.
  intros [k2 a2] H; cbn [fst] in *. apply key_eqb_iff in H. subst k2.
  destruct (key_eqb k' k) eqn:E2; auto. apply key_eqb_iff in E2. subst k'.
  rewrite key_eqb_refl in E. discriminate.
Qed.

Lemma let_pair_snd {A B C} (pr : A * B) (f : B -> C) :
  snd (let '(_, r) := pr in (tt, f r)) = f (snd pr).
Proof. now destruct pr. Qed.

(** * The machine refines the meaning *)

Section Refine.
  Variable sy : sys.
  Variable pp : popu.
  Variable inp : inputs.
  Hypothesis Hranked : ranked sy = true.
  Hypothesis Hloops : 1 <= max_loops sy.

  Definition D (v : nat) (p : period) : res val := snd (den (S v) sy pp inp tt v p).

  Lemma den_fuel : forall v f1 f2 p, v < f1 -> v < f2 ->
    snd (den f1 sy pp inp tt v p) = snd (den f2 sy pp inp tt v p).
  Proof.
    induction v as [v IH] using lt_wf_ind. intros f1 f2 p H1 H2.
    destruct f1 as [|f1]; [lia|]. destruct f2 as [|f2]; [lia|]. cbn [den].
    destruct (nth_error (vars sy) v) as [x|] eqn:Ex; auto.
    destruct (check_consistency x p); auto.
    destruct (v_neutral x); auto.
    destruct (lookup _ inp); auto.
    destruct (formula_at x p) as [[e|]|] eqn:Ef; auto.
    rewrite !let_pair_snd. f_equal.
    apply eval_ext with (n := v).
    - intros w q Hw. apply IH; lia.
    - eapply formula_at_deps; eauto. now apply ranked_nth.
  Qed.

  Definition Inv (s : st) : Prop :=
    (forall v x q a, nth_error (vars sy) v = Some x -> v_neutral x = false ->
       lookup (v, q) (cache s) = Some a ->
       forall p, norm x p = q -> check_consistency x p = Ok tt -> D v p = Ok a)
    /\ (forall k a, lookup k inp = Some a -> lookup k (cache s) = Some a)
    /\ invalid s = [].

  Definition above (v : nat) (stk : list key) : Prop := forall k, In k stk -> v < fst k.

  Lemma prev_nil v stk : above v stk -> prev_periods v stk = [].
  Proof.
    unfold prev_periods. induction stk as [|k r IH]; intro H; cbn; auto.
    assert (v < fst k) by (apply H; now left).
    destruct (Nat.eqb_spec (fst k) v); [lia|]. apply IH. intros k' Hk. apply H. now right.
  Qed.

  Lemma purge_clean s : invalid s = [] ->
    cache (purge sy s) = cache s /\ stack (purge sy s) = stack s /\ invalid (purge sy s) = [].
  Proof. intro H. unfold purge. destruct (stack s) eqn:E; rewrite ?H; cbn; auto. Qed.

  (** eternal variables carry no formula in a ranked system *)
  Lemma eternal_no_formula v x p :
    nth_error (vars sy) v = Some x -> unit_eqb (v_unit x) Eternity = true -> formula_at x p = Ok None.
  Proof.
    intros Ex Hu. pose proof (ranked_nth sy v x Hranked Ex) as Hv. unfold var_ok in Hv.
    apply andb_true_iff in Hv as [_ Hv]. rewrite Hu in Hv. cbn in Hv.
    unfold formula_at. destruct (v_formulas x); [reflexivity|discriminate].
  Qed.

  Lemma D_unfold v p x : nth_error (vars sy) v = Some x ->
    D v p =
    match check_consistency x p with
    | Err e => Err e
    | Ok _ =>
        if v_neutral x then Ok (default_array pp x)
        else match lookup (v, norm x p) inp with
             | Some a => Ok a
             | None =>
                 match formula_at x p with
                 | Err e => Err e
                 | Ok None => Ok (default_array pp x)
                 | Ok (Some e) => rmap (cast x) (snd (eval (den v sy pp inp) sy pp (v_ent x) tt p e))
                 end
             end
    end.
  Proof.
    intro Ex. unfold D. cbn [den]. rewrite Ex.
    destruct (check_consistency x p); auto.
    destruct (v_neutral x); auto.
    destruct (lookup _ inp); auto.
    destruct (formula_at x p) as [[e|]|]; auto.
    now rewrite let_pair_snd.
  Qed.

  Lemma check_consistency_tt x p u : check_consistency x p = Ok u -> check_consistency x p = Ok tt.
  Proof. now destruct u. Qed.

  (** storing the meaning of (v, p) preserves the invariant *)
  Lemma Inv_put v x p a s :
    nth_error (vars sy) v = Some x -> v_neutral x = false -> check_consistency x p = Ok tt ->
    lookup (v, norm x p) (cache s) = None ->
    D v p = Ok a -> Inv s -> Inv (put_in_cache x v p a s).
  Proof.
    intros Ex Hn Hc Hnone HD (I1 & I2 & I3). unfold put_in_cache.
    destruct (v_nostore x); [now repeat split|].
    repeat split; [| |exact I3].
    - intros v' x' q b Ex' Hn' Hl p' Hq Hc'. rewrite lookup_put in Hl.
      destruct (key_eqb (v', q) (v, norm x p)) eqn:E.
      + apply key_eqb_iff in E. subst q. inversion E as [[Hv Hq]]. subst v'.
        rewrite Ex in Ex'. inversion Ex'; subst x'.
        inversion Hl; subst b.
        unfold norm in Hq. destruct (unit_eqb (v_unit x) Eternity) eqn:Eu.
        * (* eternal: the meaning does not depend on the period *)
          rewrite <- HD. rewrite !(D_unfold _ _ x Ex). rewrite Hc, Hc', Hn.
          unfold norm. rewrite Eu.
          rewrite (eternal_no_formula v x p' Ex Eu), (eternal_no_formula v x p Ex Eu). reflexivity.
        * now subst p'.
      + eapply I1; eauto.
    - intros k b Hk. rewrite lookup_put.
      destruct (key_eqb k (v, norm x p)) eqn:E; [|now apply I2].
      apply key_eqb_iff in E. subst k. apply I2 in Hk. congruence.
  Qed.

  Theorem calc_refines : forall v fuel p s,
    v < fuel -> Inv s -> above v (stack s) ->
    snd (calc fuel sy pp s v p) = D v p
    /\ Inv (fst (calc fuel sy pp s v p))
    /\ stack (fst (calc fuel sy pp s v p)) = stack s.
  Proof.
    induction v as [v IH] using lt_wf_ind. intros fuel p s Hf HI Hab.
    destruct fuel as [|f]; [lia|]. cbn [calc].
    set (s0 := push (v, p) s).
    assert (HI0 : Inv s0) by exact HI.
    assert (Hst0 : stack s0 = (v, p) :: stack s) by reflexivity.
    (* what is needed of the body *)
    assert (Hbody : snd (calc_body (calc f sy pp) sy pp s0 v p) = D v p
                    /\ Inv (fst (calc_body (calc f sy pp) sy pp s0 v p))
                    /\ stack (fst (calc_body (calc f sy pp) sy pp s0 v p)) = (v, p) :: stack s).
    { unfold calc_body.
      destruct (nth_error (vars sy) v) as [x|] eqn:Ex.
      2:{ cbn [fst snd]. split; [|split; auto]. unfold D. cbn [den]. now rewrite Ex. }
      rewrite (D_unfold v p x Ex).
      destruct (check_consistency x p) as [u|e] eqn:Ec; [|cbn [fst snd]; auto].
      apply check_consistency_tt in Ec.
      destruct HI0 as (I1 & I2 & I3).
      unfold get_array. destruct (v_neutral x) eqn:En.
      { rewrite I3. cbn [existsb fst snd]. repeat split; auto. }
      destruct (lookup (v, norm x p) (cache s0)) as [a|] eqn:El.
      { rewrite I3. cbn [existsb fst snd].
        assert (HD := I1 v x (norm x p) a Ex En El p eq_refl Ec).
        rewrite (D_unfold v p x Ex), Ec, En in HD. rewrite HD. repeat split; auto. }
      assert (Hinp : lookup (v, norm x p) inp = None).
      { destruct (lookup (v, norm x p) inp) eqn:E; auto. apply I2 in E. congruence. }
      rewrite Hinp.
      rewrite Hst0. cbn [tl]. rewrite (prev_nil v (stack s) Hab). cbn [existsb length].
      destruct (Nat.leb_spec (max_loops sy) 0) as [Hl|_]; [lia|].
      destruct (formula_at x p) as [[e|]|er] eqn:Ef; [| |cbn [fst snd]; repeat split; auto].
      - (* a formula runs *)
        pose (P := fun s' : st => Inv s' /\ stack s' = (v, p) :: stack s).
        assert (Hrec : forall s' w q, w < v -> P s' ->
                  P (fst (calc f sy pp s' w q)) /\
                  snd (calc f sy pp s' w q) = snd (den v sy pp inp tt w q)).
        { intros s' w q Hw [HIs Hss].
          assert (Habw : above w (stack s')).
          { rewrite Hss. intros k [<-|Hk]; cbn [fst]; [lia|]. specialize (Hab k Hk). lia. }
          destruct (IH w Hw f q s' ltac:(lia) HIs Habw) as (R1 & R2 & R3).
          split; [split; [exact R2|congruence]|].
          rewrite R1. unfold D. apply den_fuel; lia. }
        assert (Hd : deps_ok (length (vars sy)) v e = true).
        { eapply formula_at_deps; eauto. now apply ranked_nth. }
        destruct (eval_sim sy pp (den v sy pp inp) (calc f sy pp) P v Hrec e (v_ent x) s0 p Hd
                    (conj (conj I1 (conj I2 I3)) Hst0)) as [[HI1 Hs1] Hr1].
        destruct (eval (calc f sy pp) sy pp (v_ent x) s0 p e) as [s1 r1]. cbn [fst snd] in *.
        rewrite <- Hr1. destruct r1 as [a|er]; cbn [fst snd rmap]; [|split; [reflexivity|split; auto]].
        split; [reflexivity|split].
        + destruct (v_nostore x) eqn:Ens.
          { unfold put_in_cache. rewrite Ens. exact HI1. }
          (* the entry may have been filled meanwhile only by a request for (v, .), impossible
             here; we re-establish the invariant through the general put lemma, which needs
             the entry to be absent: if it is present it already equals the meaning *)
          destruct (lookup (v, norm x p) (cache s1)) as [b|] eqn:El1.
          * destruct HI1 as (J1 & J2 & J3).
            assert (HDb := J1 v x (norm x p) b Ex En El1 p eq_refl Ec).
            assert (HDa : D v p = Ok (cast x a)).
            { rewrite (D_unfold v p x Ex), Ec, En, Hinp, Ef, <- Hr1. reflexivity. }
            assert (b = cast x a) by congruence. subst b.
            unfold put_in_cache. rewrite Ens.
            repeat split; [| |exact J3].
            -- intros v' x' q c Ex' Hn' Hl p' Hq Hc'. rewrite lookup_put in Hl.
               destruct (key_eqb (v', q) (v, norm x p)) eqn:E.
               ++ apply key_eqb_iff in E. inversion E; subst v' q. inversion Hl; subst c.
                  eapply J1; eauto.
               ++ eapply J1; eauto.
            -- intros k c Hk. rewrite lookup_put.
               destruct (key_eqb k (v, norm x p)) eqn:E; [|now apply J2].
               apply key_eqb_iff in E. subst k. apply J2 in Hk. congruence.
          * apply (Inv_put v x p _ s1 Ex En Ec El1); [|exact HI1].
            rewrite (D_unfold v p x Ex), Ec, En, Hinp, Ef, <- Hr1. reflexivity.
        + unfold put_in_cache. destruct (v_nostore x); auto.
      - (* no formula: the default is stored *)
        cbn [fst snd]. split; [reflexivity|split].
        + apply (Inv_put v x p _ s0 Ex En Ec El); [|now repeat split].
          rewrite (D_unfold v p x Ex), Ec, En, Hinp, Ef. reflexivity.
        + unfold put_in_cache. destruct (v_nostore x); auto. }
    destruct Hbody as (B1 & B2 & B3).
    destruct (calc_body (calc f sy pp) sy pp s0 v p) as [s1 r]. cbn [fst snd] in *.
    assert (Hpop : invalid (pop s1) = []) by (destruct B2 as (_ & _ & ?); auto).
    destruct (purge_clean (pop s1) Hpop) as (C1 & C2 & C3).
    repeat split; auto.
    - destruct B2 as (J1 & J2 & J3). intros v' x' q a Ex' Hn' Hl. rewrite C1 in Hl. eapply J1; eauto.
    - destruct B2 as (J1 & J2 & J3). intros k a Hk. rewrite C1. now apply J2.
    - rewrite C2. unfold pop; cbn [stack]. now rewrite B3.
  Qed.
End Refine.

(** * Top-level statements *)

Section Top.
  Variable sy : sys.
  Variable pp : popu.
  Variable inp : inputs.
  Hypothesis Hranked : ranked sy = true.
  Hypothesis Hloops : 1 <= max_loops sy.

  Lemma Inv_init : Inv sy pp inp (init inp).
  Proof.
    repeat split; auto.
    intros v x q a Ex Hn Hl p Hq Hc. cbn [init cache] in Hl.
    rewrite (D_unfold sy pp inp v p x Ex), Hc, Hn, Hq, Hl. reflexivity.
  Qed.

  Lemma sem_D v p : sem sy pp inp v p = D sy pp inp v p.
  Proof.
    unfold sem, sem_rec, D.
    destruct (Nat.lt_ge_cases v (length (vars sy))) as [Hv|Hv].
    - apply den_fuel; auto; lia.
    - cbn [den]. apply nth_error_None in Hv. now rewrite Hv.
  Qed.

  Lemma enough_fuel_gt v : v < length (vars sy) -> v < enough_fuel sy.
  Proof. unfold enough_fuel. intro H. nia. Qed.

  Definition Top (s : st) : Prop := Inv sy pp inp s /\ stack s = [].

  Lemma calc_top : forall s w q, w < length (vars sy) -> Top s ->
    Top (fst (calc (enough_fuel sy) sy pp s w q))
    /\ snd (calc (enough_fuel sy) sy pp s w q) = snd (sem_rec sy pp inp tt w q).
  Proof.
    intros s w q Hw [HI Hs].
    assert (Hab : above w (stack s)) by (rewrite Hs; intros k []).
    destruct (calc_refines sy pp inp Hranked Hloops w (enough_fuel sy) q s
                (enough_fuel_gt w Hw) HI Hab) as (R1 & R2 & R3).
    split; [split; [exact R2|congruence]|].
    rewrite R1. symmetry. apply sem_D.
  Qed.

  Theorem calculate_refines_meaning : forall s v p, Top s ->
    snd (calc (enough_fuel sy) sy pp s v p) = sem sy pp inp v p
    /\ Top (fst (calc (enough_fuel sy) sy pp s v p)).
  Proof.
    intros s v p HT.
    destruct (Nat.lt_ge_cases v (length (vars sy))) as [Hv|Hv].
    - destruct (calc_top s v p Hv HT) as [H1 H2]. split; auto.
    - assert (Hn : nth_error (vars sy) v = None) by now apply nth_error_None.
      destruct HT as [HI Hs]. unfold enough_fuel, sem, sem_rec. cbn [calc den]. unfold calc_body.
      rewrite Hn. cbn [fst snd].
      assert (Hpop : invalid (pop (push (v, p) s)) = []) by (destruct HI as (_ & _ & ?); auto).
      destruct (purge_clean sy (pop (push (v, p) s)) Hpop) as (C1 & C2 & C3).
      split; [reflexivity|]. split; [|rewrite C2; exact Hs].
      destruct HI as (J1 & J2 & J3). repeat split; auto.
      + intros v' x' q a Ex' Hn' Hl. rewrite C1 in Hl. eapply J1; eauto.
      + intros k a Hk. rewrite C1. now apply J2.
  Qed.

  Theorem step_refines_meaning : forall s r, is_calc_request r = true -> Top s ->
    snd (step (enough_fuel sy) sy pp s r) = sem_answer sy pp inp r
    /\ Top (fst (step (enough_fuel sy) sy pp s r)).
  Proof.
    intros s r Hr HT. destruct r as [v p|v p|v p|v p a|v p|v p|k on]; try discriminate; cbn [step sem_answer].
    - destruct (calculate_refines_meaning s v p HT) as [H1 H2].
      destruct (calc (enough_fuel sy) sy pp s v p) as [s1 a]. cbn [fst snd] in *. now subst a.
    - destruct (nth_error (vars sy) v) as [x|] eqn:Ex; [|auto].
      assert (Hv : v < length (vars sy)) by (apply nth_error_Some; congruence).
      destruct (calc_add_sim (sem_rec sy pp inp) (calc (enough_fuel sy) sy pp) Top (length (vars sy))
                  calc_top v x p s Hv HT) as [H1 H2].
      destruct (calc_add (calc (enough_fuel sy) sy pp) s v x p) as [s1 a]. cbn [fst snd] in *.
      now rewrite H2.
    - destruct (nth_error (vars sy) v) as [x|] eqn:Ex; [|auto].
      assert (Hv : v < length (vars sy)) by (apply nth_error_Some; congruence).
      destruct (calc_divide_sim (sem_rec sy pp inp) (calc (enough_fuel sy) sy pp) Top (length (vars sy))
                  calc_top v x p s Hv HT) as [H1 H2].
      destruct (calc_divide (calc (enough_fuel sy) sy pp) s v x p) as [s1 a]. cbn [fst snd] in *.
      now rewrite H2.
  Qed.

  (** Any sequence of calculation requests: every answer is the meaning of its request,
      whatever was requested before. *)
  Theorem run_refines_meaning : forall rs s, forallb is_calc_request rs = true -> Top s ->
    snd (run (enough_fuel sy) sy pp s rs) = map (sem_answer sy pp inp) rs
    /\ Top (fst (run (enough_fuel sy) sy pp s rs)).
  Proof.
    induction rs as [|r rs IH]; intros s Hrs HT; cbn [run map]; [auto|].
    cbn [forallb] in Hrs. apply andb_true_iff in Hrs as [Hr Hrs].
    destruct (step_refines_meaning s r Hr HT) as [H1 H2].
    destruct (step (enough_fuel sy) sy pp s r) as [s1 a]. cbn [fst snd] in *.
    assert (Hsys : sys_after sy r = sy) by (destruct r; try discriminate; reflexivity).
    rewrite Hsys.
    destruct (IH s1 Hrs H2) as [H3 H4].
    destruct (run (enough_fuel sy) sy pp s1 rs) as [s2 l]. cbn [fst snd] in *.
    split; [now rewrite H1, H3|exact H4].
  Qed.

  Lemma Top_init : Top (init inp).
  Proof. split; [apply Inv_init|reflexivity]. Qed.
End Top.

(** * Facts about the meaning itself *)

Lemma latest_formula_last : forall fs d acc e,
  latest_formula fs d acc = Some e ->
  (acc = Some e /\ forall s e', In (s, e') fs -> date_leb s d = false)
  \/ exists l1 s l2, fs = l1 ++ (s, e) :: l2 /\ date_leb s d = true
                     /\ forall s' e', In (s', e') l2 -> date_leb s' d = false.
Proof.
  induction fs as [|[s e'] r IH]; intros d acc e H; cbn [latest_formula] in H.
  - left. split; auto. intros ? ? [].
  - destruct (date_leb s d) eqn:E.
    + apply IH in H as [[H1 H2]|(l1 & s1 & l2 & H1 & H2 & H3)].
      * inversion H1; subst e'. right. exists [], s, r. repeat split; auto.
      * right. exists ((s, e') :: l1), s1, l2. subst r. repeat split; auto.
    + apply IH in H as [[H1 H2]|(l1 & s1 & l2 & H1 & H2 & H3)].
      * left. split; auto. intros s0 e0 [H0|H0]; [inversion H0; now subst|eauto].
      * right. exists ((s, e') :: l1), s1, l2. subst r. repeat split; auto.
Qed.

Lemma latest_formula_none : forall fs d,
  latest_formula fs d None = None -> forall s e, In (s, e) fs -> date_leb s d = false.
Proof.
  intros fs d. assert (G : forall acc, latest_formula fs d acc = None ->
                          acc = None /\ forall s e, In (s, e) fs -> date_leb s d = false).
  { induction fs as [|[s e'] r IH]; intros acc H; cbn [latest_formula] in H.
    - split; auto. intros ? ? [].
    - destruct (date_leb s d) eqn:E.
      + apply IH in H as [H _]. discriminate.
      + apply IH in H as [H1 H2]. split; auto.
        intros s0 e0 [H0|H0]; [inversion H0; now subst|eauto]. }
  intros H. exact (proj2 (G None H)).
Qed.

Lemma cast_bool_01 x a : v_type x = TBool -> Forall (fun z => z = 0%Z \/ z = 1%Z) (cast x a).
Proof.
  intro H. unfold cast. rewrite H. induction a as [|z a IH]; cbn; constructor; auto.
  destruct (z =? 0)%Z; auto.
Qed.

(** * Cycles *)

Lemma prev_periods_in v p stk : In (v, p) stk -> In p (prev_periods v stk).
Proof.
  unfold prev_periods. induction stk as [|k r IH]; intros H; [destruct H|].
  destruct H as [H|H]; cbn [filter].
  - subst k. cbn [fst]. rewrite Nat.eqb_refl. now left.
  - destruct (Nat.eqb (fst k) v); [right|]; auto.
Qed.

Lemma existsb_period_in p l : In p l -> existsb (period_eqb p) l = true.
Proof. intro H. apply existsb_exists. exists p. split; auto. now apply period_eqb_iff. Qed.

(** Re-entering (v, p) while (v, p) is being computed: circular-definition error, and the
    simulation state is exactly what it was. *)
Lemma calc_cycle : forall fuel sy pp s v p x,
  nth_error (vars sy) v = Some x -> check_consistency x p = Ok tt ->
  get_array pp x s v p = None -> In (v, p) (stack s) ->
  calc (S fuel) sy pp s v p = (s, Err ECycle).
Proof.
  intros fuel sy pp s v p x Ex Ec Eg Hin. cbn [calc]. unfold calc_body. rewrite Ex, Ec.
  replace (get_array pp x (push (v, p) s) v p) with (get_array pp x s v p) by reflexivity.
  rewrite Eg. cbn [push stack tl].
  rewrite (existsb_period_in p _ (prev_periods_in v p _ Hin)).
  unfold purge, pop. cbn [stack tl cache invalid].
  destruct s as [c stk inv]. cbn [stack] in *. destruct stk; [destruct Hin|reflexivity].
Qed.
