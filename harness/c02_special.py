"""Oracle-only streams of C02 for what the engine model's integer vectors do not carry:

  values   float / int / bool variables whose formulas produce special numeric values
           (64-bit integers above 2**31, float64 values that are not float32 values, -0.0,
           +/-inf, NaN): every request is answered bit for bit the same in the given order,
           in a permuted order, when asked again, and on a fresh simulation;
  history  a daily variable with inputs on a few days and a formula elsewhere, summed over
           a long daily history (the first case of a run over more than 4096 days): the
           answers asked afterwards and the inputs read back are those of a fresh simulation.

The Coq side receives CSkip for these cases (stated in c02.ASSUMPTIONS)."""
from __future__ import annotations

import warnings

import numpy

from openfisca_core import periods
from openfisca_core.entities import build_entity
from openfisca_core.periods import DateUnit
from openfisca_core.simulations.simulation_builder import SimulationBuilder
from openfisca_core.taxbenefitsystems import TaxBenefitSystem
from openfisca_core.variables import Variable

POOL = ["0.0", "-0.0", "1.5", "0.1", "30000000.0", "16777217.0", "21474836.47", "-21474836.48", "1e30", "-1e30",
        "inf", "-inf", "nan", "3.0", "1e-45"]
VARS = ["cents", "rich", "ratio", "f64", "total", "share", "neg"]
YEARS = [2018, 2019]


def gen(rng, k):
    if k % 12 == 0:
        return gen_history(rng, long=(k == 0))
    n = rng.randint(1, 4)
    nh = rng.randint(1, min(2, n))
    ids = [rng.randrange(nh) for _ in range(n)]
    ids[:nh] = range(nh)
    wages = {str(y): [rng.choice(POOL) for _ in range(n)] for y in YEARS}
    reqs = [[rng.choice(VARS), rng.choice(YEARS)] for _ in range(rng.randint(3, 7))]
    perm = list(range(len(reqs)))
    rng.shuffle(perm)
    return {"special": "values", "n": n, "ids": ids, "nh": nh, "wages": wages, "scale": rng.choice([1, 100, 1000]),
            "threshold": rng.choice([0, 100000000, 2147483647]), "offset": rng.choice(POOL[:8]),
            "requests": reqs, "perm": perm}


def gen_history(rng, long):
    ndays = rng.choice([4200, 4500]) if long else rng.randint(20, 500)
    days = sorted({rng.randrange(ndays) for _ in range(rng.randint(1, 4))} | {0})
    return {"special": "history", "ndays": ndays, "input_days": days,
            "inputs": [[rng.randint(2, 60), rng.randint(2, 60)] for _ in days],
            "questions": sorted({rng.randrange(ndays) for _ in range(4)} | set(days[:2])),
            "reader_first": rng.random() < 0.5}


def run(case):
    with warnings.catch_warnings(), numpy.errstate(all="ignore"):
        warnings.simplefilter("ignore")
        return _values(case) if case["special"] == "values" else _history(case)


# ---- values -------------------------------------------------------------------------------

def _values_system(case):
    person = build_entity(key="person", plural="persons", label="", is_person=True)
    household = build_entity(key="household", plural="households", label="", roles=[{"key": "member", "plural": "members"}])
    scale, thr, off = case["scale"], case["threshold"], float(case["offset"])

    class wage(Variable):
        value_type = float
        entity = person
        definition_period = DateUnit.YEAR

    class cents(Variable):
        value_type = int
        entity = person
        definition_period = DateUnit.YEAR

        def formula(p, period):
            w = numpy.clip(numpy.nan_to_num(p("wage", period).astype(numpy.float64), nan=0.0), -1e12, 1e12)
            return numpy.round(w).astype(numpy.int64) * scale

    class rich(Variable):
        value_type = bool
        entity = person
        definition_period = DateUnit.YEAR

        def formula(p, period):
            return p("cents", period) > thr

    class ratio(Variable):
        value_type = float
        entity = person
        definition_period = DateUnit.YEAR

        def formula(p, period):
            w = p("wage", period)
            return w / (w - numpy.float32(off))

    class f64(Variable):
        value_type = float
        entity = person
        definition_period = DateUnit.YEAR

        def formula(p, period):
            return p("wage", period).astype(numpy.float64) * 0.1 + p("cents", period)

    class total(Variable):
        value_type = float
        entity = household
        definition_period = DateUnit.YEAR

        def formula(h, period):
            return h.sum(h.members("wage", period))

    class share(Variable):
        value_type = float
        entity = person
        definition_period = DateUnit.YEAR

        def formula(p, period):
            return p("wage", period) / p.household("total", period)

    class neg(Variable):
        value_type = float
        entity = person
        definition_period = DateUnit.YEAR

        def formula(p, period):
            return -p("wage", period) * (p("rich", period) + 0.0)

    tbs = TaxBenefitSystem([person, household])
    for c in (wage, cents, rich, ratio, f64, total, share, neg):
        tbs.add_variable(c)
    return tbs


def _values_sim(tbs, case):
    n = case["n"]
    sb = SimulationBuilder()
    sb.create_entities(tbs)
    sb.declare_person_entity("person", [f"p{i}" for i in range(n)])
    inst = sb.declare_entity("household", [f"h{i}" for i in range(case["nh"])])
    sb.join_with_persons(inst, [f"h{i}" for i in case["ids"]], ["member"] * n)
    sim = sb.build(tbs)
    for y, vals in case["wages"].items():
        sim.set_input("wage", periods.period(int(y)), numpy.array([float(v) for v in vals], dtype=numpy.float32))
    return sim


def _ask(sim, name, year):
    try:
        a = numpy.asarray(sim.calculate(name, periods.period(year)))
        return [str(a.dtype), a.tobytes().hex(), [repr(x) for x in a.tolist()]]
    except Exception as e:  # noqa: BLE001
        return ["raised", type(e).__name__, str(e)[:80]]


def _values(case):
    tbs = _values_system(case)
    reqs = case["requests"]
    sim = _values_sim(tbs, case)
    given = [_ask(sim, v, y) for v, y in reqs]
    again = [_ask(sim, v, y) for v, y in reqs]
    stack = len(sim.tracer.stack)
    sim2 = _values_sim(tbs, case)
    perm = {}
    for j in case["perm"]:
        perm[j] = _ask(sim2, *reqs[j])
    fresh = [_ask(_values_sim(tbs, case), v, y) for v, y in reqs]
    problems = []
    for j, (v, y) in enumerate(reqs):
        for label, other in (("when asked again on the same simulation", again[j]),
                             (f"when the requests are made in order {case['perm']}", perm[j]),
                             ("on a fresh simulation with the same inputs", fresh[j])):
            if other[:2] != given[j][:2]:
                problems.append(f"calculate({v!r}, {y}) returns {given[j][0]} {given[j][2]} in the given order and "
                                f"{other[0]} {other[2]} {label}")
                break
    return {"special": problems, "stack": stack, "ran": len(reqs)}


# ---- history ------------------------------------------------------------------------------

def _history(case):
    person = build_entity(key="person", plural="persons", label="", is_person=True)

    class rate(Variable):
        value_type = int
        entity = person
        definition_period = DateUnit.DAY

        def formula(p, period):
            return p.filled_array(1)

    class cost(Variable):
        value_type = int
        entity = person
        definition_period = DateUnit.DAY

        def formula(p, period):
            return 10 * p("rate", period)

    tbs = TaxBenefitSystem([person])
    tbs.add_variable(rate)
    tbs.add_variable(cost)
    start = periods.period("day:2000-01-01:1")
    day = lambda k: start.offset(k, DateUnit.DAY)  # noqa: E731

    def make():
        sb = SimulationBuilder()
        sb.create_entities(tbs)
        sb.declare_person_entity("person", ["p0", "p1"])
        sim = sb.build(tbs)
        for k, v in zip(case["input_days"], case["inputs"]):
            sim.set_input("rate", day(k), numpy.array(v))
        return sim

    whole = periods.period(f"day:2000-01-01:{case['ndays']}")
    inputs = dict(zip(case["input_days"], case["inputs"]))
    expected = [case["ndays"] - len(inputs) + sum(v[i] for v in inputs.values()) for i in range(2)]
    sim = make()
    problems = []
    names = ["cost", "rate"] if case["reader_first"] else ["rate", "cost"]
    for name in names:
        tot = sim.calculate_add(name, whole).tolist()
        want = expected if name == "rate" else [10 * x for x in expected]
        if tot != want:
            problems.append(f"calculate_add({name!r}, {whole}) returns {tot}; the sum of the given inputs and the "
                            f"formula's values on the other days is {want}")
    fresh = make()
    for k in case["questions"]:
        for name in ("rate", "cost"):
            a = sim.calculate(name, day(k)).tolist()
            f = fresh.calculate(name, day(k)).tolist()
            if a != f:
                problems.append(f"calculate({name!r}, {day(k)}) returns {a} after the history was summed and {f} on a "
                                "fresh simulation with the same inputs")
    for k, v in inputs.items():
        kept = sim.get_array("rate", day(k))
        if kept is None or kept.tolist() != v:
            problems.append(f"the input rate@{day(k)} = {v} is read back as {None if kept is None else kept.tolist()} "
                            "after the history was summed")
    return {"special": problems[:4], "stack": len(sim.tracer.stack), "ran": case["ndays"]}
