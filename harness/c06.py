"""C06 - a parameter's value at a date is its latest entry; edits touch only their span.

Cases are (a) one parameter built from dict data, a sequence of update() calls and a
list of query dates, observed after construction and after every update, and (b) a
parameter tree (nodes, leaves, scales) evaluated at a list of dates, and (c) a LIVE tree
read at a list of dates, edited through its nodes (node.child...update(...)) and read again
at the same dates, any number of times: an evaluation after an edit must show the edit, and
(d) a flat group (up to several hundred members, some undefined at the date) evaluated at a
date and asked for vectors of member names: the answer is the members' values when every
requested member is defined at that date, and no answer at all otherwise.  The implementation
driver uses the real Parameter / ParameterNode / ParameterScale classes.  The oracle
evaluates the statement of the property on the implementation's answers with datetime
dates and naive loops: value at a date = value of the latest entry on or before it;
after an update the new value inside the span, the previous answer outside; a node at a
date exposes exactly the members defined at that date; a scale bracket contributes iff
its threshold and its rate/amount are defined.
"""
from __future__ import annotations

import calendar
import datetime
import fractions

from openfisca_core import periods
from openfisca_core.parameters import Parameter, ParameterNode
from openfisca_core.periods import DateUnit, Instant, Period

from common import Err, cbool, clist, copt, cstr, cz, errkind

PROP = "C06"
COQ_HEADER = "From Verif Require Import Cal Period Param Corr_C06."
COQ_RUN = "Corr_C06.run"
SHARD = 150
ANCHORS = ["openfisca_core/parameters/parameter.py", "openfisca_core/parameters/at_instant_like.py",
           "openfisca_core/parameters/parameter_at_instant.py", "openfisca_core/parameters/parameter_node.py",
           "openfisca_core/parameters/parameter_node_at_instant.py", "openfisca_core/parameters/parameter_scale.py",
           "openfisca_core/parameters/parameter_scale_bracket.py", "openfisca_core/parameters/helpers.py",
           "openfisca_core/parameters/config.py", "openfisca_core/taxscales/rate_tax_scale_like.py",
           "openfisca_core/taxscales/amount_tax_scale_like.py"]
RULE = ("(a) histories of 0-8 dated entries (null values, 'expected' placeholders as string and as dict, both "
        "declaration forms, shuffled key order; a separate malformed stream with bad keys / invalid entries / "
        "empty 'values') on a 45-day window or on month boundaries around year ends and leap days, followed by "
        "1-6 update() calls given as period (day/week/weekday/month/year, object or string), start+stop or start "
        "only, whose boundaries are drawn from {an entry date, an entry date +-1, before the first, after the "
        "last, anywhere} and from the boundaries of earlier updates (so equal, adjacent, enclosing, enclosed, "
        "before-first and after-last all occur), plus ill-formed calls (period together with start, no start, "
        "eternity, stop before start) and ~6-8% of the calls made with a value of a type that is not allowed (str, "
        "dict, object, tuple) - the caller catches the exception and the parameter / the tree is looked at again: a "
        "refused call must have edited nothing; queried at every entry date and update boundary +-1 day after every "
        "step, each query date written in one of the accepted spellings of that day (ISO string, Instant, date, "
        "ISO week date 'YYYY-Www-D', day/month Period starting there, tuple, list, and 'YYYY-Www' / 'YYYY-MM' / "
        "'YYYY' / int when they denote that very day; converted with datetime only) rotating over positions and "
        "steps - the answer must not depend on the spelling; (b) trees of nodes / leaves / scales whose members start at different dates, evaluated at every "
        "date of the tree +-1 day; (c) such a tree read at <= 12 of those dates (always including a date inside "
        "every later update's span), then 1-4 rounds of [1-2 update() calls on leaves reached through the nodes "
        "(children by name, scale brackets by position and field), read again at the same dates through "
        "root(date) / root.get_at_instant(Instant)]: values and membership after an edit are compared with the model "
        "and with the span statement; (a') the same as (a) on LONG histories of 30-200 entries (monthly or scattered "
        "days), queried on, just before and just after up to 35 entry dates and every update boundary; (d) flat "
        "groups of 3-512 members (mostly 256+), ~10% of them defined only from a later date and ~10% abolished "
        "(null) from that date, evaluated just before / on / after both dates and asked for vectors of names "
        "(numpy arrays): all defined, one undefined member first / in the middle, a name that is no member, a "
        "single undefined member, the whole group.  A case is non-trivial when construction succeeds and at least one update "
        "succeeds (a) or the tree has a member that is undefined at some queried date and defined at another "
        "(b) or some read differs from the read before it (c) or some vector is answered and another refused (d); distinct as the whole JSON case")
TRUSTED = ["ISO date strings of four-digit years are ordered like their proleptic Gregorian ordinals (the code "
           "compares strings, the model compares ordinals); re-checked on every generated pair of dates by the harness",
           "taxscales add_bracket is modelled by Param.add_bracket (sorted insertion, equal thresholds merged) and "
           "covered by the correspondence only"]
ASSUMPTIONS = ["parameter values are None, ints or dyadic floats (multiples of 1/4, |x| < 2^15) sent to the model as "
               "the integer 4*x; the code never computes on leaf values (it only passes them through), scale merging "
               "adds them, which is exact on these values; bool and list values are not generated",
               "dates are full YYYY-MM-DD keys with years 1000..9998; keys that match the loose INSTANT_PATTERN "
               "without being dates (2015, 2015-01, 2015-02-30) are not generated (DESIGN.md C06 scope)",
               "an update whose stop is before its start is not a date range: compared model-vs-code only, the "
               "oracle claims nothing for it (the model theorem update_spec covers it: nothing changes)"]

UCOQ = {"weekday": "Weekday", "week": "Week", "day": "Day", "month": "Month", "year": "Year", "eternity": "Eternity"}
VALID_KINDS = ("value", "value_meta", "bare")
EXPECTED_KINDS = ("expected", "expected_dict")
INVALID_KINDS = ("invalid_str", "invalid_novalue", "invalid_type", "invalid_key", "badkey")


# ---- conversions -------------------------------------------------------------------

def D(iso):
    return datetime.date.fromisoformat(iso)


def O(iso):
    return D(iso).toordinal()


def iso(o):
    return datetime.date.fromordinal(o).isoformat()


def v4(x):
    """Value as sent to the model: None, or the integer 4*x (exact on generated values)."""
    if x is None:
        return None
    fr = fractions.Fraction(x) * 4
    if fr.denominator != 1:
        raise ValueError(f"value {x!r} is not a multiple of 1/4")
    return int(fr)


def cval(x):
    return copt(v4(x), cz)


def cdate3(s):
    d = D(s)
    return f"({d.year}, {d.month}, {d.day})"


def centry(e):
    k = e["k"]
    if k == "badkey":
        return "(0, YBadKey)"
    o = cz(O(e["d"]))
    if k in VALID_KINDS:
        return f"({o}, YValue {cval(e['v'])})"
    if k in EXPECTED_KINDS:
        return f"({o}, YExpected)"
    return f"({o}, YInvalid)"


def cperiod(p):
    unit, start, size = p[0], p[1], p[2]
    if unit == "eternity":
        return "(Eternity, ((-1), (-1), (-1)), (-1))"
    return f"({UCOQ[unit]}, {cdate3(start)}, {cz(size)})"


def cupd(u):
    s = copt(u["start"], lambda x: cz(O(x)))
    e = copt(u["stop"], lambda x: cz(O(x)))
    v = cval(u["v"])
    if u["period"] is not None and (u["start"] is not None or u["stop"] is not None):
        call = f"(UMixed {cperiod(u['period'])} {s} {e} {v})"
    elif u["period"] is not None:
        call = f"(UPeriod {cperiod(u['period'])} {v})"
    else:
        call = f"(URange {s} {e} {v})"
    return f"(UBad {call})" if u.get("bad") else call


def ctree(t):
    if t["t"] == "param":
        return "(TParam (yparam " + clist([centry(e) for e in t["entries"]]) + "))"
    if t["t"] == "scale":
        brs = []
        for b in t["brackets"]:
            fields = []
            for f in ("threshold", "rate", "amount", "average_rate"):
                fields.append("None" if b.get(f) is None else
                              "(Some (yparam " + clist([centry(e) for e in b[f]["entries"]]) + "))")
            brs.append("(mk_bracket " + " ".join(fields) + ")")
        return f"(TScale (mk_scale {cbool(t['single'])} {clist(brs)}))"
    return "(TNode " + clist([f"({cstr(n)}, {ctree(c)})" for n, c in t["children"]]) + ")"


FIELD_COQ = {"threshold": "FThreshold", "rate": "FRate", "amount": "FAmount", "average_rate": "FAverageRate"}


def cpath(path):
    out = []
    for st in path:
        if st[0] == "c":
            out.append(f"(PChild {cstr(st[1])})")
        else:
            out.append(f"(PBracket {int(st[1])}%nat {FIELD_COQ[st[2]]})")
    return clist(out)


def ctop(op):
    if op["o"] == "read":
        return "TRead"
    return f"(TUpd {cpath(op['path'])} {cupd(op['u'])})"


def coq_case(c):
    qs = clist([cz(O(q)) for q in c["queries"]])
    if c["op"] == "treeops":
        return f"(KTreeOps {ctree(c['tree'])} {clist([ctop(o) for o in c['ops']])} {qs})"
    if c["op"] == "lookup":
        ch = clist([f"({cstr(n)}, (TParam (yparam {clist([centry(e) for e in es])})))" for n, es in c["members"]])
        keys = clist([clist([cstr(n) for n in key]) for key in c["keys"]])
        return f"(KLookup {ch} {qs} {keys})"
    if c["op"] == "param":
        return (f"(KParam {cbool(c['wrapped'])} {clist([centry(e) for e in c['entries']])} "
                f"{clist([cupd(u) for u in c['ups']])} {qs})")
    return f"(KTree {ctree(c['tree'])} {qs})"


# ---- implementation driver -------------------------------------------------------------

def entry_data(e):
    k, v = e["k"], e.get("v")
    if k == "value":
        return {"value": v}
    if k == "value_meta":
        return {"value": v, "metadata": {"reference": "https://law.example/" + e["d"]}}
    if k == "bare":
        return v
    if k == "expected":
        return "expected"
    if k == "expected_dict":
        return {"expected": True, "value": 12345}
    if k == "invalid_str":
        return "soon"
    if k == "invalid_novalue":
        return {"metadata": {"unit": "currency"}}
    if k == "invalid_type":
        return {"value": "12"}
    if k == "invalid_key":
        return {"value": 1, "expected": False}
    if k == "badkey":
        return 1
    raise ValueError(k)


def param_data(entries, wrapped):
    values = {e["d"]: entry_data(e) for e in entries}
    if wrapped:
        return {"description": "generated", "values": values}
    return values


def tree_data(t):
    if t["t"] == "param":
        return param_data(t["entries"], t["wrapped"])
    if t["t"] == "scale":
        data = {"brackets": [{f: param_data(b[f]["entries"], b[f]["wrapped"])
                              for f in ("threshold", "rate", "amount", "average_rate") if b.get(f) is not None}
                             for b in t["brackets"]]}
        if t["single"]:
            data["metadata"] = {"type": "single_amount"}
        return data
    data = {n: tree_data(c) for n, c in t["children"]}
    if not t["children"]:
        data["description"] = "a group without members"   # {} alone would be read as a leaf
    return data


def mk_instant(s):
    d = D(s)
    return Instant((d.year, d.month, d.day))


def mk_period(p):
    unit, start, size, as_str = p
    if unit == "eternity":
        per = periods.period(DateUnit.ETERNITY)
    else:
        per = Period((DateUnit(unit), mk_instant(start), size))
    return str(per) if as_str else per


def spellings(q):
    """Every accepted way of writing the day q ('YYYY-MM-DD') as an instant, computed with datetime only:
    the ISO string, an Instant, a datetime.date, the ISO week date with weekday, day / month periods
    starting that day, (y, m, d) tuples and lists; and, when they denote that very day, 'YYYY-Www' (a
    Monday), 'YYYY-MM' and (y, m) (first of a month), 'YYYY', the int and (y,) (1 January)."""
    d = D(q)
    wy, ww, wd = d.isocalendar()
    inst = Instant((d.year, d.month, d.day))
    special = []
    if wd == 1:
        special.append(f"{wy:04d}-W{ww:02d}")
    if d.day == 1:
        special += [f"{d.year:04d}-{d.month:02d}", (d.year, d.month)]
        if d.month == 1:
            special += [f"{d.year:04d}", d.year, (d.year,)]
    return special + [q, inst, f"{wy:04d}-W{ww:02d}-{wd}", d, Period((DateUnit.DAY, inst, 1)),
                      (d.year, d.month, d.day), f"{wy:04d}-W{ww:02d}-{wd}", Period((DateUnit.MONTH, inst, 3)),
                      [d.year, d.month, d.day]]


def spell(q, n):
    """The n-th spelling of the day q (the answer must not depend on which one is used)."""
    opts = spellings(q)
    return opts[n % len(opts)]


def snapshot(p, queries, k):
    vl = [[O(x.instant_str), v4(x.value)] for x in p.values_list]
    ans = []
    for j, q in enumerate(queries):
        arg = spell(q, 2 * j + 5 * k)
        r = p.get_at_instant(arg) if (j + k) % 2 else p(arg)
        ans.append(v4(r))
    return [vl, ans]


SCALE_KIND = {"SingleAmountTaxScale": 0, "MarginalAmountTaxScale": 1, "LinearAverageRateTaxScale": 2,
              "MarginalRateTaxScale": 3}


def view(x):
    name = type(x).__name__
    if name == "ParameterNodeAtInstant":
        return ["node", [[n, view(x[n])] for n in x]]
    if name in SCALE_KIND:
        k = SCALE_KIND[name]
        xs = x.amounts if k in (0, 1) else x.rates
        return ["scale", k, [[v4(t), v4(r)] for t, r in zip(x.thresholds, xs)]]
    return v4(x)


def bad_value(tag):
    """A value of a type that is not allowed for a parameter (config.ALLOWED_PARAM_TYPES)."""
    return {"str": "12", "dict": {"value": 1}, "object": object(), "tuple": (1, 2)}[tag]


def update_kwargs(u):
    kw = {"value": bad_value(u["bad"]) if u.get("bad") else u["v"]}
    if u["period"] is not None:
        kw["period"] = mk_period(u["period"])
    if u["start"] is not None:
        kw["start"] = mk_instant(u["start"])
    if u["stop"] is not None:
        kw["stop"] = mk_instant(u["stop"])
    return kw


def leaf_at(root, path):
    """The Parameter object reached through the nodes, as user code reaches it."""
    x = root
    for st in path:
        if st[0] == "c":
            x = getattr(x, st[1]) if len(path) % 2 else x.children[st[1]]
        else:
            x = x.brackets[st[1]].children[st[2]]
    return x


def run_treeops(c):
    root = ParameterNode("root", data=tree_data(c["tree"]))
    out = []
    for k, op in enumerate(c["ops"]):
        if op["o"] == "read":
            row = []
            for j, q in enumerate(c["queries"]):
                arg = spell(q, 3 * j + k + len(c["queries"]))
                at = root(arg) if (j + k) % 2 else root.get_at_instant(arg)
                row.append(view(at))
            out.append(row)
            continue
        try:
            leaf_at(root, op["path"]).update(**update_kwargs(op["u"]))
        except Exception as e:  # noqa: BLE001 - a refused update is an observation
            out.append(Err(errkind(e), f"{type(e).__name__}: {e}"[:200]))
            continue
        out.append("ok")
    return out


def run_lookup(c):
    import numpy
    root = ParameterNode("root", data={n: param_data(es, False) for n, es in c["members"]})
    out = []
    for j, q in enumerate(c["queries"]):
        at = root(spell(q, j + len(c["keys"])))
        row = []
        for key in c["keys"]:
            try:
                r = at[numpy.array(key)]
                row.append([v4(float(x)) for x in r])
            except Exception as e:  # noqa: BLE001 - a refused lookup is an observation
                row.append(Err(errkind(e), f"{type(e).__name__}: {e}"[:200]))
        out.append(row)
    return out


def run_impl(c):
    if c["op"] == "treeops":
        return run_treeops(c)
    if c["op"] == "lookup":
        return run_lookup(c)
    if c["op"] == "param":
        p = Parameter("p", param_data(c["entries"], c["wrapped"]))
        out = [snapshot(p, c["queries"], 0)]
        for i, u in enumerate(c["ups"]):
            try:
                p.update(**update_kwargs(u))
            except Exception as e:  # noqa: BLE001 - a refused update is an observation
                err = Err(errkind(e), f"{type(e).__name__}: {e}"[:200])
                # after a call with an ill-typed value the caller carries on: look at the parameter again
                out.append([err, snapshot(p, c["queries"], i + 1)] if u.get("bad") else err)
                continue
            out.append(snapshot(p, c["queries"], i + 1))
        return out
    root = ParameterNode("root", data=tree_data(c["tree"]))
    out = []
    for j, q in enumerate(c["queries"]):
        arg = spell(q, 2 * j + len(c["queries"]))
        at = root(arg) if j % 2 else root.get_at_instant(arg)
        out.append(view(at))
    return out


# ---- the statement, evaluated naively on the implementation's answers ---------------------------

def addm(d, n):
    t = d.year * 12 + d.month - 1 + n
    y, m = divmod(t, 12)
    m += 1
    return datetime.date(y, m, min(d.day, calendar.monthrange(y, m)[1]))


def period_span(p):
    """(first day, last day) of a period, by datetime arithmetic (independent of pendulum)."""
    unit, start, size = p[0], D(p[1]), p[2]
    if unit == "year":
        end = addm(start, 12 * size)
    elif unit == "month":
        end = addm(start, size)
    elif unit == "week":
        end = start + datetime.timedelta(7 * size)
    else:
        end = start + datetime.timedelta(size)
    return start, end - datetime.timedelta(1)


def naive_value(entries, d):
    """Value of the latest non-placeholder entry on or before d; None before the first."""
    best = None
    for e in entries:
        if e["k"] in VALID_KINDS:
            k = D(e["d"])
            if k <= d and (best is None or k > best[0]):
                best = (k, v4(e["v"]))
    return None if best is None else best[1]


def update_kind(u):
    if u["period"] is not None and (u["start"] is not None or u["stop"] is not None):
        return "mixed"
    if u["period"] is not None:
        return "eternity" if u["period"][0] == "eternity" else ("period_str" if u["period"][3] else "period")
    if u["start"] is None:
        return "nostart"
    return "range" if u["stop"] is not None else "start"


def update_span(u):
    """(start, stop or None) as dates, for a well-formed call."""
    if u["period"] is not None:
        return period_span(u["period"])
    return D(u["start"]), (None if u["stop"] is None else D(u["stop"]))


def strictly_decreasing(vl):
    return all(vl[i][0] > vl[i + 1][0] for i in range(len(vl) - 1))


def malformed_data(c):
    return (c["wrapped"] and not c["entries"]) or any(e["k"] in INVALID_KINDS for e in c["entries"])


def oracle_param(c, o):
    bad = malformed_data(c)
    if isinstance(o, Err):
        return None if bad else f"construct: well-formed data refused with {o.kind} ({o.msg})"
    if bad:
        return None
    qs = [D(q) for q in c["queries"]]
    snap = o[0]
    if not strictly_decreasing(snap[0]):
        return f"order: values_list after construction is not strictly decreasing: {[iso(k) for k, _ in snap[0]]}"
    cur = [naive_value(c["entries"], q) for q in qs]
    for j, (q, exp, got) in enumerate(zip(c["queries"], cur, snap[1])):
        if exp != got:
            return (f"latest: value at {q} (asked as {spell(q, 2 * j)!r}) is {got} (x4), the latest entry on or before that date says {exp} (x4); "
                    f"entries {[(e['d'], e['k'], e.get('v')) for e in c['entries']]}")
    ordered = True
    for n, (u, step) in enumerate(zip(c["ups"], o[1:])):
        kind = update_kind(u)
        if u.get("bad"):
            if not (isinstance(step, list) and len(step) == 2 and isinstance(step[0], Err)):
                if not isinstance(step, Err):
                    cur, ordered = step[1], False  # accepted a value of a type that is not allowed: nothing is claimed
                continue
            # refused: no edit was made, so every date still has the value it had
            for j, (q, before, got) in enumerate(zip(c["queries"], cur, step[1][1])):
                if got != before:
                    return (f"refused: update {n} {u} was refused ({step[0].kind}: {step[0].msg[:80]}), yet the value "
                            f"at {q} (asked as {spell(q, 2 * j + 5 * (n + 1))!r}) changed from {before} to {got} (x4)")
            continue
        if kind in ("mixed", "nostart", "eternity"):
            if not isinstance(step, Err):
                cur, ordered = step[1], False      # accepted an ill-formed call: nothing is claimed
            continue
        s, e = update_span(u)
        if e is not None and e < s:
            if not isinstance(step, Err):
                cur, ordered = step[1], False      # not a date range: nothing is claimed
            continue
        if isinstance(step, Err):
            return f"update: call {n} {u} refused with {step.kind} ({step.msg})"
        if ordered and not strictly_decreasing(step[0]):
            return f"order: values_list after update {n} {u} is not strictly decreasing: {[iso(k) for k, _ in step[0]]}"
        new = []
        for j, (q, qd, before, got) in enumerate(zip(c["queries"], qs, cur, step[1])):
            inside = s <= qd and (e is None or qd <= e)
            exp = v4(u["v"]) if inside else before
            if got != exp:
                where = "inside" if inside else "outside"
                return (f"span: after update {n} {u} the value at {q} (asked as {spell(q, 2 * j + 5 * (n + 1))!r}; "
                        f"{where} the span) is {got} (x4), "
                        f"expected {exp} (x4)")
            new.append(exp)
        cur = new
    return None


def naive_view(t, d):
    if t["t"] == "param":
        return naive_value(t["entries"], d)
    if t["t"] == "node":
        out = []
        for n, c in t["children"]:
            v = naive_view(c, d)
            if v is not None:
                out.append([n, v])
        return ["node", out]
    return ("scale", t)


def leaf_value(t, key, d, ov):
    """Value of a leaf at d: its latest entry on or before d, overridden by every later update whose span
    holds d ([ov]: path -> list of (first day, last day or None, value x4), oldest first)."""
    val = naive_value(t["entries"], d)
    if ov:
        for s, e, v in ov.get(key, ()):
            if s <= d and (e is None or d <= e):
                val = v
    return val


def compare_view(t, d, got, path, key=(), ov=None):
    """None or a message: does the at-instant object [got] expose exactly what is defined at d?"""
    if t["t"] == "param":
        exp = leaf_value(t, key, d, ov)
        if got != exp:
            return (f"node: {path} at {d} is {got} (x4), its latest entry" +
                    (" and the updates made since say " if ov and ov.get(key) else " says ") + f"{exp} (x4)")
        return None
    if t["t"] == "node":
        if not (isinstance(got, list) and got and got[0] == "node"):
            return f"node: {path} at {d} is not a node: {got}"
        exp_names = [n for n, c in t["children"]
                     if c["t"] != "param" or leaf_value(c, key + (("c", n),), d, ov) is not None]
        got_names = [n for n, _ in got[1]]
        if got_names != exp_names:
            return f"node: {path} at {d} exposes {got_names}, the members defined at that date are {exp_names}"
        sub = dict((n, c) for n, c in t["children"])
        for n, g in got[1]:
            m = compare_view(sub[n], d, g, path + "." + n, key + (("c", n),), ov)
            if m:
                return m
        return None
    # scale: given the kind the code chose, a bracket contributes iff threshold and that field are defined
    if not (isinstance(got, list) and got and got[0] == "scale"):
        return f"scale: {path} at {d} is not a scale: {got}"
    field = {0: "amount", 1: "amount", 2: "average_rate", 3: "rate"}[got[1]]
    acc = {}
    for i, b in enumerate(t["brackets"]):
        th = None if b.get("threshold") is None else leaf_value(b["threshold"], key + (("b", i, "threshold"),), d, ov)
        x = None if b.get(field) is None else leaf_value(b[field], key + (("b", i, field),), d, ov)
        if th is not None and x is not None:
            acc[th] = acc.get(th, 0) + x
    exp = [[k, acc[k]] for k in sorted(acc)]
    if got[2] != exp:
        return (f"scale: {path} at {d} has brackets {got[2]} (x4), the brackets whose threshold and {field} are "
                f"both defined at that date give {exp} (x4)")
    return None


def path_key(path):
    return tuple(tuple(st) for st in path)


def oracle_treeops(c, o):
    if isinstance(o, Err):
        return f"node: building / evaluating a well-formed tree raised {o.kind} ({o.msg})"
    ov = {}
    nupd = 0
    for n, (op, step) in enumerate(zip(c["ops"], o)):
        if op["o"] == "upd":
            u = op["u"]
            kind = update_kind(u)
            if kind in ("mixed", "nostart", "eternity") or u.get("bad"):
                if not isinstance(step, Err):
                    return None                    # accepted an ill-formed call: nothing is claimed from here on
                continue                           # refused: no edit, the later reads must be as before
            s, e = update_span(u)
            if e is not None and e < s:
                return None                        # not a date range: nothing is claimed
            if isinstance(step, Err):
                return f"update: step {n} {op} refused with {step.kind} ({step.msg})"
            ov.setdefault(path_key(op["path"]), []).append((s, e, v4(u["v"])))
            nupd += 1
            continue
        if isinstance(step, Err):
            return f"node: step {n}: evaluating the tree raised {step.kind} ({step.msg})"
        for q, got in zip(c["queries"], step):
            m = compare_view(c["tree"], D(q), got, "root", (), ov)
            if m:
                return f"edit: at step {n}, after {nupd} update(s) {[x for x in c['ops'][:n] if x['o'] == 'upd']}: {m}"
    return None


def oracle_lookup(c, o):
    if isinstance(o, Err):
        return f"node: building / evaluating a well-formed group raised {o.kind} ({o.msg})"
    for q, row in zip(c["queries"], o):
        d = D(q)
        val = {n: naive_value(es, d) for n, es in c["members"]}
        for key, got in zip(c["keys"], row):
            missing = [n for n in key if val.get(n) is None]
            if missing:
                if not isinstance(got, Err):
                    return (f"lookup: the group at {q} answered {got[:8]}... (x4) for the names {key[:8]}..., but "
                            f"{missing[:3]} {'are' if len(missing) > 1 else 'is'} not defined at that date "
                            f"({len([n for n in val if val[n] is not None])} members are)")
                continue
            exp = [val[n] for n in key]
            if isinstance(got, Err):
                return (f"lookup: the group at {q} refused ({got.kind}: {got.msg}) the names {key[:8]}..., all "
                        f"defined at that date")
            if got != exp:
                k = next(i for i, (a, b) in enumerate(zip(got, exp)) if a != b) if len(got) == len(exp) else -1
                return (f"lookup: the group at {q} gives {got[k] if k >= 0 else got[:8]} (x4) for member "
                        f"{key[k] if k >= 0 else key[:8]}, whose latest entry says {exp[k] if k >= 0 else exp[:8]} (x4)")
    return None


def oracle(c, o):
    if c["op"] == "treeops":
        return oracle_treeops(c, o)
    if c["op"] == "lookup":
        return oracle_lookup(c, o)
    if c["op"] == "param":
        return oracle_param(c, o)
    if isinstance(o, Err):
        return f"node: evaluating a well-formed tree raised {o.kind} ({o.msg})"
    for q, got in zip(c["queries"], o):
        m = compare_view(c["tree"], D(q), got, "root")
        if m:
            return m
    return None


def tree_flips(t, dates):
    """Does some leaf change between undefined and defined over the queried dates?"""
    if t["t"] == "param":
        vals = {naive_value(t["entries"], d) is None for d in dates}
        return len(vals) == 2
    if t["t"] == "node":
        return any(tree_flips(c, dates) for _, c in t["children"])
    return any(tree_flips(b[f], dates) for b in t["brackets"] for f in b if b.get(f) is not None)


def nontrivial(c, o):
    if isinstance(o, Err):
        return False
    if c["op"] == "param":
        return any(not isinstance(s, Err) and not (isinstance(s, list) and s and isinstance(s[0], Err)) for s in o[1:])
    if c["op"] == "treeops":
        reads = [s for s in o if isinstance(s, list)]
        return any(a != b for a, b in zip(reads, reads[1:]))
    if c["op"] == "lookup":
        flat = [g for row in o for g in row]
        return any(isinstance(g, Err) for g in flat) and any(not isinstance(g, Err) for g in flat)
    return tree_flips(c["tree"], [D(q) for q in c["queries"]])


def rel(x, dates):
    if not dates:
        return "nohist"
    if x in dates:
        return "eq"
    if x < dates[0]:
        return "before"
    if x > dates[-1]:
        return "after"
    if (x - datetime.timedelta(1)) in dates or (x + datetime.timedelta(1)) in dates:
        return "adj"
    return "mid"


def classify(c, o):
    if c["op"] == "tree":
        return "tree"
    if c["op"] == "treeops":
        if isinstance(o, Err):
            return "treeops:refused"
        where = sorted({"scale" if op["path"][-1][0] == "b" else ("nested" if len(op["path"]) > 1 else "top")
                        for op in c["ops"] if op["o"] == "upd"})
        return "treeops:" + "+".join(where)
    if c["op"] == "lookup":
        n = len(c["members"])
        return "lookup:" + ("<256" if n < 256 else "256+")
    if isinstance(o, Err):
        return "param:refused:" + o.kind
    if len(c["entries"]) >= 30:
        return "param-long:" + ("<=32" if len(c["entries"]) <= 32 else "33-64" if len(c["entries"]) <= 64 else "65+")
    if not c["ups"]:
        return "param:no-update"
    u = c["ups"][0]
    kind = update_kind(u)
    if any(x.get("bad") for x in c["ups"]):
        return "param:ill-typed-value"
    if kind in ("mixed", "nostart", "eternity"):
        return "param:" + kind
    dates = sorted(D(e["d"]) for e in c["entries"] if e["k"] in VALID_KINDS)
    s, e = update_span(u)
    if e is not None and e < s:
        return "param:stop-before-start"
    return f"param:{kind}:{rel(s, dates)}/{'open' if e is None else rel(e + datetime.timedelta(1), dates)}"


# ---- generation -------------------------------------------------------------------------

LO_ORD = datetime.date(1000, 1, 1).toordinal()
HI_ORD = datetime.date(9998, 12, 31).toordinal()
BASES = ["2000-01-01", "2015-12-10", "2016-02-05", "2019-12-20", "1999-12-01", "2024-02-10", "2013-06-01",
         "1000-02-01", "9997-11-20"]
VALUES = [None, None, None, 0, 1, 2, 3, 7, 10, -5, 4.5, 0.25, 100, 1000.75, -0.5, 550, 600]
NEWVALUES = [None, 20, 30.5, 11, 42, 0, -1, 0.75, 99, 12.25]


def month_dates(rng, base):
    """First / second / last days of months around the base date (24 months)."""
    b = D(base)
    first = datetime.date(b.year, 1, 1)
    if b.year >= 9997:
        first = datetime.date(9996, 1, 1)
    out = set()
    for k in range(24):
        m0 = addm(first, k)
        out.add(m0)
        out.add(m0 + datetime.timedelta(1))
        out.add(m0 - datetime.timedelta(1))
    return sorted(x.toordinal() for x in out if LO_ORD <= x.toordinal() <= HI_ORD - 800)


def gen_entries(rng, ords, allow_invalid):
    entries = []
    for o in ords:
        r = rng.random()
        if r < 0.45:
            k = "value"
        elif r < 0.55:
            k = "value_meta"
        elif r < 0.80:
            k = "bare"
        elif r < 0.92:
            k = "expected"
        else:
            k = "expected_dict"
        e = {"d": iso(o), "k": k}
        if k in VALID_KINDS:
            e["v"] = rng.choice(VALUES)
        entries.append(e)
    if allow_invalid:
        for _ in range(rng.choice([1, 1, 2])):
            k = rng.choice(INVALID_KINDS)
            if k == "badkey":
                e = {"d": rng.choice(["2015-13-01", "soon", "01-01-2015", "2015-1-1", "20150101", "2015-01-32", "values"]),
                     "k": k}
                if any(x["d"] == e["d"] for x in entries):
                    continue
                entries.append(e)
            elif any(x["k"] != "badkey" for x in entries):
                rng.choice([x for x in entries if x["k"] != "badkey"])["k"] = k
            else:
                entries.append({"d": "2014-07-01", "k": k})
    rng.shuffle(entries)
    return entries


def pick(rng, dates, lo, hi):
    r = rng.random()
    if dates and r < 0.30:
        return rng.choice(dates)
    if dates and r < 0.55:
        return rng.choice(dates) + rng.choice([-1, 1])
    if dates and r < 0.65:
        return min(dates) - rng.randrange(1, 6)
    if dates and r < 0.75:
        return max(dates) + rng.randrange(1, 6)
    return rng.randrange(lo, hi)


def period_roundtrips(p):
    """Does the textual form of the period denote the same days?  (Otherwise the object is passed.)"""
    try:
        obj = Period((DateUnit(p[0]), mk_instant(p[1]), p[2]))
        back = periods.period(str(obj))
        return back.start == obj.start and back.stop == obj.stop
    except Exception:  # noqa: BLE001
        return False


def gen_update(rng, dates, lo, hi, layout, ill):
    """One update() call.  [dates]: ordinals of entries and of earlier boundaries."""
    v = rng.choice(NEWVALUES)
    if ill and rng.random() < 0.5:
        k = rng.choice(["mixed", "nostart", "eternity", "mixed_stop"])
        a = pick(rng, dates, lo, hi)
        if k == "mixed":
            return {"period": ["day", iso(a), 3, False], "start": iso(a), "stop": None, "v": v}
        if k == "mixed_stop":
            return {"period": ["month", iso(a), 1, False], "start": None, "stop": iso(a + 3), "v": v}
        if k == "nostart":
            return {"period": None, "start": None, "stop": rng.choice([None, iso(a)]), "v": v}
        return {"period": ["eternity", None, -1, False], "start": None, "stop": None, "v": v}
    a, b = sorted((pick(rng, dates, lo, hi), pick(rng, dates, lo, hi)))
    if rng.random() < 0.15:
        b = a                                    # one-day span
    elif rng.random() < 0.3:
        b = max(a, b - 1)                        # stop the day before a boundary: stop+1 hits it
    mode = rng.choice(["period", "period", "range", "range", "start"])
    if mode == "start":
        return {"period": None, "start": iso(a), "stop": None, "v": v}
    if mode == "range":
        if ill:
            a, b = b + rng.choice([0, 1, 1, 2, 5]), a  # stop before start (or the same day)
        return {"period": None, "start": iso(a), "stop": iso(b), "v": v}
    da = datetime.date.fromordinal(a)
    r = rng.random()
    if layout == "months" and r < 0.45:
        p = ["month", datetime.date(da.year, da.month, 1).isoformat() if rng.random() < 0.8 else iso(a),
             rng.choice([1, 1, 2, 3, 6, 12, 13])]
    elif layout == "months" and r < 0.65:
        p = ["year", datetime.date(da.year, 1, 1).isoformat() if rng.random() < 0.7 else
             datetime.date(da.year, da.month, 1).isoformat(), rng.choice([1, 1, 2])]
    elif r < 0.75:
        p = ["day", iso(a), b - a + 1]
    elif r < 0.85:
        p = ["weekday", iso(a), b - a + 1]
    else:
        p = ["week", iso(a), max(1, (b - a + 1) // 7)]
    if datetime.date.fromordinal(a).year >= 9997 and p[0] in ("year", "month"):
        p = ["day", iso(a), b - a + 1]
    if ill and rng.random() < 0.3:
        p[2] = rng.choice([0, -1])               # a period of no day: stop before start
    p.append(bool(rng.random() < 0.3 and period_roundtrips(p)))
    return {"period": p, "start": None, "stop": None, "v": v}


def maybe_bad(rng, u, prob):
    """With probability [prob], the call is made with a value of a type that is not allowed."""
    if rng.random() < prob:
        u["bad"] = rng.choice(["str", "str", "dict", "object", "tuple"])
    return u


def boundaries(u):
    """Ordinals at which the update may have put an entry."""
    kind = update_kind(u)
    if kind in ("mixed", "nostart", "eternity"):
        return []
    s, e = update_span(u)
    out = [s.toordinal()]
    if e is not None:
        out.append(e.toordinal() + 1)
    return [x for x in out if LO_ORD <= x <= HI_ORD]


def queries_for(points, rng, far=True):
    qs = set()
    for x in points:
        qs.update((x - 1, x, x + 1))
    if far and rng.random() < 0.3:
        qs.add(LO_ORD)
        qs.add(HI_ORD)
    return [iso(x) for x in sorted(qs) if LO_ORD <= x <= HI_ORD]


def gen_param_case(rng, malformed=False):
    base = rng.choice(BASES)
    layout = rng.choice(["days", "days", "months"])
    n = rng.choice([0, 1, 1, 2, 2, 3, 3, 4, 4, 5, 6, 7, 8])
    if layout == "days":
        lo = O(base)
        pool = list(range(lo, lo + 45))
    else:
        pool = month_dates(rng, base)
        lo = pool[0]
    hi = pool[-1] + 1
    ords = sorted(rng.sample(pool, n))
    entries = gen_entries(rng, ords, allow_invalid=malformed and rng.random() < 0.7)
    wrapped = rng.random() < 0.5
    if wrapped and not entries and not malformed:
        wrapped = False
    dates = [O(e["d"]) for e in entries if e["k"] in VALID_KINDS]
    ups = []
    for _ in range(rng.choice([1, 1, 2, 2, 3, 3, 4, 5, 6])):
        u = gen_update(rng, dates, lo - 3, hi + 3, layout, ill=(malformed or rng.random() < 0.04) and rng.random() < 0.5)
        ups.append(maybe_bad(rng, u, 0.06))
        dates = dates + boundaries(u)
    points = set(dates) | {O(e["d"]) for e in entries if e["k"] in EXPECTED_KINDS}
    return {"op": "param", "wrapped": wrapped, "entries": entries, "ups": ups, "queries": queries_for(points, rng)}


def gen_leaf(rng, pool, nmax=4, always=False):
    n = rng.choice([1, 1, 2, 2, 3, nmax]) if always else rng.choice([0, 1, 1, 2, 2, 3, nmax])
    ords = sorted(rng.sample(pool, min(n, len(pool))))
    entries = gen_entries(rng, ords, allow_invalid=False)
    return {"t": "param", "wrapped": bool(entries) and rng.random() < 0.5, "entries": entries}


def gen_scale(rng, pool):
    main = rng.choice(["rate", "rate", "rate", "amount", "amount", "average_rate", "mixed"])
    single = rng.random() < (0.4 if main == "amount" else 0.08)
    brackets = []
    thr = 0
    for i in range(rng.choice([0, 1, 2, 2, 3, 3, 4])):
        b = {}
        if rng.random() < 0.9:
            leaf = gen_leaf(rng, pool, 3, always=True)
            for e in leaf["entries"]:
                if e["k"] in VALID_KINDS and e["v"] is not None:
                    thr += rng.choice([0, 5, 10, 10, 100, 0.5])       # mostly increasing, sometimes equal
                    e["v"] = thr if rng.random() < 0.9 else rng.choice([0, 10, 5])
            b["threshold"] = leaf
        fields = [main] if main != "mixed" else rng.sample(["rate", "amount", "average_rate"], rng.choice([1, 2]))
        if rng.random() < 0.1:
            fields = []
        for f in fields:
            leaf = gen_leaf(rng, pool, 3, always=True)
            for e in leaf["entries"]:
                if e["k"] in VALID_KINDS and e["v"] is not None:
                    e["v"] = rng.choice([0, 0.25, 0.5, 0.75, 1, 10, 200, -0.25])
            b[f] = leaf
        brackets.append(b)
    return {"t": "scale", "single": bool(single), "brackets": brackets}


NAMES = ["amount", "rate_a", "b", "min_age", "c2", "zone_1", "x", "housing", "k9", "d"]


def gen_node(rng, pool, depth):
    names = rng.sample(NAMES, rng.choice([0, 1, 2, 3, 3, 4, 5]) if depth else rng.choice([2, 3, 4, 5]))
    children = []
    for n in names:
        r = rng.random()
        if r < 0.6 or depth >= 2:
            children.append([n, gen_leaf(rng, pool)])
        elif r < 0.8:
            children.append([n, gen_node(rng, pool, depth + 1)])
        else:
            children.append([n, gen_scale(rng, pool)])
    return {"t": "node", "children": children}


def tree_dates(t, acc):
    if t["t"] == "param":
        acc.update(O(e["d"]) for e in t["entries"])
    elif t["t"] == "node":
        for _, c in t["children"]:
            tree_dates(c, acc)
    else:
        for b in t["brackets"]:
            for f in b:
                if b[f] is not None:
                    tree_dates(b[f], acc)
    return acc


def gen_tree_case(rng):
    base = rng.choice(BASES[:7])
    lo = O(base)
    pool = list(range(lo, lo + 30)) if rng.random() < 0.6 else month_dates(rng, base)[:30]
    tree = gen_node(rng, pool, 0)
    qs = queries_for(tree_dates(tree, set()), rng, far=False)
    if len(qs) > 14:
        qs = sorted(rng.sample(qs, 14))
    if not qs:
        qs = [base]
    return {"op": "tree", "tree": tree, "queries": qs}


def tree_leaves(t, key, acc):
    """Paths of all leaves (as lists, JSON-able)."""
    if t["t"] == "param":
        acc.append(list(key))
    elif t["t"] == "node":
        for n, c in t["children"]:
            tree_leaves(c, key + [["c", n]], acc)
    else:
        for i, b in enumerate(t["brackets"]):
            for f in ("threshold", "rate", "amount", "average_rate"):
                if b.get(f) is not None:
                    acc.append(key + [["b", i, f]])
    return acc


def gen_treeops_case(rng):
    base = rng.choice(BASES[:7])
    lo = O(base)
    pool = list(range(lo, lo + 30)) if rng.random() < 0.7 else month_dates(rng, base)[:30]
    while True:
        tree = gen_node(rng, pool, 0)
        leaves = tree_leaves(tree, [], [])
        if leaves:
            break
    nested = [p for p in leaves if len(p) > 1]
    dates = sorted(tree_dates(tree, set())) or [lo]
    ops = [{"o": "read"}] if rng.random() < 0.9 else []
    must = set()
    for _ in range(rng.choice([1, 1, 2, 2, 3, 4])):
        for _ in range(rng.choice([1, 1, 1, 2])):
            path = rng.choice(nested) if nested and rng.random() < 0.4 else rng.choice(leaves)
            r = rng.random()
            if r < 0.04:
                a = iso(rng.choice(dates))
                u = {"period": ["day", a, 3, False], "start": a, "stop": None, "v": 1}            # refused
            elif r < 0.07:
                u = {"period": None, "start": None, "stop": iso(rng.choice(dates)), "v": 1}        # refused
            else:
                u = gen_update(rng, dates, pool[0] - 3, pool[-1] + 4, "days", ill=False)
                if path[-1][0] == "b" and u["v"] is not None and rng.random() < 0.7:
                    u["v"] = rng.choice([0, 0.25, 0.5, 1, 10, 50, 100])
                maybe_bad(rng, u, 0.08)
            bs = boundaries(u)
            dates = sorted(set(dates) | set(bs))
            if bs:
                must.add(bs[0])                                                                    # a date inside the span
            ops.append({"o": "upd", "path": path, "u": u})
        ops.append({"o": "read"})
    qs = queries_for(dates, rng, far=False)
    keep = {iso(x) for x in must}
    if len(qs) > 12:
        rest = [q for q in qs if q not in keep]
        qs = sorted(set(rng.sample(rest, max(0, 12 - len(keep)))) | (keep & set(qs)))
    return {"op": "treeops", "tree": tree, "ops": ops, "queries": qs or [base]}


def gen_long_param_case(rng):
    """A long history (around and well above 32 entries), monthly or on scattered days, then a few updates."""
    n = rng.choice([30, 31, 32, 33, 33, 34, 35, 40, 48, 63, 64, 65, 66, 80, 100, 127, 128, 129, 150, 200])
    base = rng.choice(["1990-01-01", "2000-01-01", "2005-07-01", "1000-02-01", "2012-03-15"])
    lo = O(base)
    if rng.random() < 0.5:
        b = D(base)
        pool = [addm(datetime.date(b.year, b.month, 1), k).toordinal() for k in range(n + 12)]   # one entry per month
    else:
        pool = list(range(lo, lo + 4 * n))
    ords = sorted(rng.sample(pool, n))
    entries = gen_entries(rng, ords, allow_invalid=False)
    for e in entries:                                   # few placeholders, so that the length stays what was drawn
        if e["k"] in EXPECTED_KINDS and rng.random() < 0.8:
            e["k"], e["v"] = "value", rng.choice(VALUES)
    dates = [O(e["d"]) for e in entries if e["k"] in VALID_KINDS]
    lo, hi = pool[0], pool[-1] + 1
    ups = []
    ubounds = []
    for _ in range(rng.choice([0, 1, 1, 2, 2, 3])):
        near = rng.sample(dates, min(len(dates), 6)) if rng.random() < 0.6 else dates   # short spans as well as long
        u = gen_update(rng, sorted(near), lo - 3, hi + 3, "days", ill=False)
        ups.append(maybe_bad(rng, u, 0.08))
        ubounds += boundaries(u)
    sample = rng.sample(dates, min(len(dates), 35))
    points = set(sample) | set(ubounds) | {min(dates), max(dates)}
    return {"op": "param", "wrapped": rng.random() < 0.5, "entries": entries, "ups": ups,
            "queries": queries_for(points, rng, far=False)}


def gen_lookup_case(rng):
    """A flat group of numbers, some members undefined before / after a date, and vectors of names."""
    n = rng.choice([3, 8, 20, 60, 255, 256, 257, 284, 290, 300, 320, 320, 400, 400, 512])
    d0 = O(rng.choice(BASES[:7]))
    d1 = d0 + rng.choice([1, 2, 30, 200])
    style = rng.choice(["padded", "padded", "words"])
    names = set()
    while len(names) < n:
        if style == "padded":
            names.add(f"z{rng.randrange(0, 100000):05d}")
        else:
            names.add(rng.choice(["zone", "city", "m", "rate", "k"]) + "_" +
                      "".join(rng.choice("abcdefghijklmnopqrstuvwxyz0123456789") for _ in range(rng.choice([2, 3, 5]))))
    names = sorted(names)
    rng.shuffle(names)
    vals = [v for v in VALUES if v is not None]
    members, always, later, gone = [], [], [], []
    for nm in names:
        r = rng.random()
        if r < 0.10:
            es = [{"d": iso(d1), "k": rng.choice(["value", "bare"]), "v": rng.choice(vals)}]
            later.append(nm)
        elif r < 0.20:
            es = [{"d": iso(d0), "k": "value", "v": rng.choice(vals)}, {"d": iso(d1), "k": rng.choice(["value", "bare"]), "v": None}]
            gone.append(nm)
        else:
            es = [{"d": iso(d0), "k": rng.choice(["value", "bare"]), "v": rng.choice(vals)}]
            if rng.random() < 0.3:
                es.append({"d": iso(d1), "k": "value", "v": rng.choice(vals)})
            always.append(nm)
        rng.shuffle(es)
        members.append([nm, es])
    if not always:
        members[0][1] = [{"d": iso(d0), "k": "value", "v": 1}]
        always = [members[0][0]]
        later = [x for x in later if x != always[0]]
        gone = [x for x in gone if x != always[0]]

    def some(k):
        return [rng.choice(always) for _ in range(k)]

    def stranger():
        x = rng.choice(names)
        cand = rng.choice([x + "a", x[:-1], "a", "zzzzzzzz", x.upper()])
        return cand if cand not in names and cand else "no_such_member"

    sometimes = later + gone
    keys = [some(rng.choice([1, 5, 20, 40]))]
    if sometimes:
        k = some(rng.choice([2, 6, 15]))
        k.insert(rng.randrange(1, len(k) + 1), rng.choice(sometimes))
        keys.append(k)                                              # an undefined member, not first
        keys.append([rng.choice(sometimes)] + some(rng.choice([0, 3])))   # ... first
        keys.append([rng.choice(sometimes)])
    k = some(rng.choice([2, 6]))
    k.insert(rng.randrange(1, len(k) + 1), stranger())
    keys.append(k)                                                  # a name that is no member at all
    if rng.random() < 0.3:
        keys.append([stranger()] + some(2))
    if rng.random() < 0.5:
        keys.append(sorted(always))                                 # every permanent member
    if later and rng.random() < 0.5:
        keys.append(sorted(always + later))                         # defined from d1 on only
    rng.shuffle(keys)
    qpool = [d0, d1 - 1, d1, d1 + 5, d0 + 1] + ([d0 - 1] if rng.random() < 0.15 else [])
    qs = sorted({iso(x) for x in rng.sample(qpool, 3)})
    return {"op": "lookup", "members": members, "queries": qs, "keys": keys}


def check_date_order(cases):
    """The trusted-base line about ISO strings, re-checked on the dates of this run."""
    ds = set()
    for c in cases:
        ds.update(c["queries"][:6])
    ds = sorted(ds)
    for a, b in zip(ds, ds[1:]):
        if not (O(a) < O(b)):
            raise AssertionError(f"ISO order and ordinal order differ on {a}, {b}")


def generate(rng, tier):
    n_param = {"quick": 2300, "escalated": 9000, "thorough": 60000}[tier]
    n_bad = {"quick": 250, "escalated": 800, "thorough": 5000}[tier]
    n_tree = {"quick": 450, "escalated": 1500, "thorough": 10000}[tier]
    cases = [gen_param_case(rng) for _ in range(n_param)]
    cases += [gen_param_case(rng, malformed=True) for _ in range(n_bad)]
    cases += [gen_tree_case(rng) for _ in range(n_tree)]
    n_ops = {"quick": 500, "escalated": 1500, "thorough": 10000}[tier]
    cases += [gen_treeops_case(rng) for _ in range(n_ops)]
    n_long = {"quick": 60, "escalated": 200, "thorough": 1000}[tier]
    n_look = {"quick": 40, "escalated": 120, "thorough": 500}[tier]
    cases += [gen_long_param_case(rng) for _ in range(n_long)]
    cases += [gen_lookup_case(rng) for _ in range(n_look)]
    check_date_order(cases)
    return cases


# ---- failing-input search helpers ----------------------------------------------------------

def with_queries(c):
    """Recompute the query dates of a param case after its entries / updates changed."""
    import random
    points = {O(e["d"]) for e in c["entries"] if e["k"] != "badkey"}
    for u in c["ups"]:
        points.update(boundaries(u))
    c = dict(c)
    c["queries"] = queries_for(points, random.Random(0), far=False) or ["2000-01-01"]
    return c


def neighbours(c, rng):
    if c["op"] == "lookup":
        return ([dict(c, keys=[k], queries=[q]) for k in c["keys"] for q in c["queries"]][:12] +
                [gen_lookup_case(rng) for _ in range(6)])
    if c["op"] == "treeops":
        out = []
        upds = [op for op in c["ops"] if op["o"] == "upd"]
        for u in upds:
            out.append(dict(c, ops=[{"o": "read"}, u, {"o": "read"}]))
        return out + [gen_treeops_case(rng) for _ in range(10)]
    if c["op"] != "param":
        return [gen_tree_case(rng) for _ in range(10)]
    out = []
    for k in range(1, len(c["ups"]) + 1):
        out.append(with_queries(dict(c, ups=c["ups"][:k])))
    for u in c["ups"]:
        out.append(with_queries(dict(c, ups=[u])))
        for f in ("start", "stop"):
            if u.get(f):
                for delta in (-1, 1):
                    u2 = dict(u)
                    u2[f] = iso(O(u[f]) + delta)
                    out.append(with_queries(dict(c, ups=[u2])))
    return out


def shrink_treeops(c, still_fails):
    cur = c
    progress = True
    while progress:
        progress = False
        i = 0
        while i < len(cur["ops"]):
            cand = dict(cur, ops=cur["ops"][:i] + cur["ops"][i + 1:])
            if cand["ops"] and still_fails(cand):
                cur, progress = cand, True
            else:
                i += 1
        i = 0
        while len(cur["queries"]) > 1 and i < len(cur["queries"]):
            cand = dict(cur, queries=cur["queries"][:i] + cur["queries"][i + 1:])
            if still_fails(cand):
                cur, progress = cand, True
            else:
                i += 1
    return cur


def shrink_lookup(c, still_fails):
    cur = c
    for k in c["keys"]:
        for q in c["queries"]:
            cand = dict(c, keys=[k], queries=[q])
            if still_fails(cand):
                cur = cand
                break
        if cur is not c:
            break
    key = cur["keys"][0] if len(cur["keys"]) == 1 else None
    i = 0
    while key is not None and len(key) > 1 and i < len(key):
        cand = dict(cur, keys=[key[:i] + key[i + 1:]])
        if still_fails(cand):
            cur, key = cand, cand["keys"][0]
        else:
            i += 1
    return cur


def shrink(c, still_fails):
    if c["op"] == "treeops":
        return shrink_treeops(c, still_fails)
    if c["op"] == "lookup":
        return shrink_lookup(c, still_fails)
    if c["op"] != "param":
        return None
    cur = c
    progress = True
    while progress:
        progress = False
        for key in ("ups", "entries"):
            i = 0
            while i < len(cur[key]):
                cand = dict(cur)
                cand[key] = cur[key][:i] + cur[key][i + 1:]
                if key == "entries" and cand["wrapped"] and not cand["entries"]:
                    i += 1
                    continue
                cand = with_queries(cand)
                if still_fails(cand):
                    cur, progress = cand, True
                else:
                    i += 1
    return cur
