#!/bin/sh
# Runs every registered quick check once on /repo (seed from VERIF_SEED, default 0), prints one
# line per check, and leaves the evidence files of THIS pass in evidence/ (commit them).
cd "$(dirname "$0")/.." || exit 2
rc=0
for i in 01 02 03 04 05 06 07 08 09 10 11 12 13 14 15 16 17 18 19 20; do
  out=$(./check C$i --tier quick 2>&1); code=$?
  echo "$out" | grep -E "tier=|VIOLATION" | cut -c1-220
  [ $code -ne 0 ] && { echo "C$i EXIT $code"; rc=1; }
done
python3-vt - <<'PY'
import json, jsonschema, glob
s = json.load(open('/root/.vp/EVIDENCE.schema.json'))
bad = 0
for f in sorted(glob.glob('evidence/C*.json')):
    d = json.load(open(f))
    try:
        jsonschema.validate(d, s)
    except Exception as e:
        print(f, 'INVALID', str(e)[:120]); bad += 1
    c = d['coverage']
    if c.get('discharged') != c.get('obligations') or d.get('violations'):
        print(f, 'NOT CLEAN: discharged', c.get('discharged'), 'of', c.get('obligations'), 'violations', d.get('violations')); bad += 1
jsonschema.validate(json.load(open('MANIFEST.json')), json.load(open('/root/.vp/MANIFEST.schema.json')))
print('evidence files checked:', len(glob.glob('evidence/C*.json')), 'problems:', bad)
PY
exit $rc
