"""Oracle-only streams of C03 (the Coq side receives CSkip for these cases; stated in
c03.ASSUMPTIONS):

  float      float variables whose default and inputs include +inf, -inf, NaN, -0.0: ADD must be
             the sum of the values over the pieces, DIVIDE the enclosing value over the count
  string     the request period is given as TEXT ("month:2021-01:12", "2021-02", ...): the same
             accept/reject and value claims as for Period objects, the unit/start/size being read
             from the text by the harness (grammar unit:start:size)
  subperiods Period.get_subperiods itself on very large sizes (tens of thousands of pieces)
             against the independent datetime tiling

Everything the oracle needs is computed from plain `calculate` calls on a second real
simulation and from c03's independent calendar (datetime / calendar only).
"""
from __future__ import annotations

import datetime
import warnings

import numpy

from openfisca_core import periods
from openfisca_core.entities import build_entity
from openfisca_core.periods import DateUnit
from openfisca_core.simulations.simulation_builder import SimulationBuilder
from openfisca_core.taxbenefitsystems import TaxBenefitSystem
from openfisca_core.variables import Variable

from common import Err, errkind

UNIT_OBJ = {"weekday": DateUnit.WEEKDAY, "week": DateUnit.WEEK, "day": DateUnit.DAY,
            "month": DateUnit.MONTH, "year": DateUnit.YEAR, "eternity": DateUnit.ETERNITY}
SPECIALS = ["inf", "-inf", "nan", "-0.0"]
FINITE = ["0.0", "0.5", "-2.25", "3.0", "1024.0", "-0.75", "7.0"]


def mk_period(p):
    unit, (y, m, d), size = p
    if unit == "eternity":
        return periods.period("eternity")
    return periods.Period((UNIT_OBJ[unit], periods.Instant((y, m, d)), size))


def enc(a):
    """numpy array -> list of float texts (JSON-safe, keeps inf / nan / -0.0)"""
    a = numpy.asarray(a, dtype=numpy.float64)
    if a.ndim == 0:
        a = a.reshape(1)
    return [repr(float(x)) for x in a.tolist()]


def same_floats(got, expected, rel=0.0):
    if len(got) != len(expected):
        return False
    for g, e in zip(got, expected):
        g, e = float(g), float(e)
        if g != g or e != e:
            if not (g != g and e != e):
                return False
        elif g != e:
            if rel and abs(g) != float("inf") and abs(e) != float("inf") and abs(g - e) <= rel * max(abs(g), abs(e)):
                continue
            return False
    return True


# ---------------------------------------------------------------------------------------
# generators
# ---------------------------------------------------------------------------------------

def gen_float(rng, c03):
    du, ru = rng.choice([("month", "year"), ("month", "year"), ("month", "month"), ("day", "month"),
                         ("day", "day"), ("weekday", "week"), ("week", "week"), ("year", "year")])
    mode = "add" if rng.random() < 0.75 else "div"
    n = rng.randint(1, 3)
    if mode == "add":
        size = rng.choice([1, 1, 2, 3]) if not (du == "day" and ru == "month") else 1
        q = c03.gen_q(rng, ru, size, True)
        if not c03.aligned(du, q[1]):
            q = c03.gen_q(rng, ru, size, True)
        pieces = c03.tiles(du, q)
        vdu = du
    else:
        # variable of the longer unit, requested for one shorter unit
        q = c03.gen_q(rng, du, 1, True)
        vdu = ru
        pieces = [c03.enclosing(vdu, q[1])]

    def value():
        return rng.choice(SPECIALS) if rng.random() < 0.12 else rng.choice(FINITE)

    full = rng.random() < 0.6
    inputs = []
    for t in pieces:
        if full or rng.random() < 0.7:
            inputs.append([t, [value() for _ in range(n)]])
    default = rng.choice(SPECIALS + SPECIALS + ["0.0", "1.5"])
    case = {"special": "float", "du": vdu, "mode": mode, "period": q, "count": n,
            "default": default, "inputs": inputs, "formula": None}
    if rng.random() < 0.25:
        # a formula instead of inputs: a function of the period start, special at one start
        at = rng.choice(pieces)[1]
        case["inputs"] = []
        case["formula"] = {"at": at, "value": rng.choice(SPECIALS)}
    return case


def gen_string(rng, c03):
    du = rng.choice(["year", "year", "year", "month", "month", "day"])
    mode = rng.choice(["calc", "add", "add", "div"])
    y = rng.choice([2019, 2020, 2021, 2024])
    m = rng.choice([1, 1, 2, 3, 12])
    d = rng.choice([1, 1, 15, 28])
    form = rng.random()
    if form < 0.15:
        text, q = f"{y:04d}", ["year", [y, 1, 1], 1]
    elif form < 0.3:
        text, q = f"{y:04d}-{m:02d}", ["month", [y, m, 1], 1]
    elif form < 0.4:
        text, q = f"{y:04d}-{m:02d}-{d:02d}", ["day", [y, m, d], 1]
    else:
        unit = rng.choice(["month", "month", "month", "year", "day"])
        size = rng.choice([1, 2, 3, 12, 12, 24, 36, 365, 366, 28]) if unit != "year" else rng.choice([1, 2, 3])
        # the text's date must be at least as precise as the unit (the parser refuses otherwise)
        prec = {"year": rng.choice(["y", "y", "m", "d"]), "month": rng.choice(["m", "m", "d"]), "day": "d"}[unit]
        if prec == "y":
            start, s = [y, 1, 1], f"{y:04d}"
        elif prec == "m":
            start, s = [y, m, 1], f"{y:04d}-{m:02d}"
        else:
            start, s = [y, m, d], f"{y:04d}-{m:02d}-{d:02d}"
        text, q = f"{unit}:{s}:{size}", [unit, start, size]
    return {"special": "string", "du": du, "mode": mode, "text": text, "period": q, "count": rng.randint(1, 2)}


def gen_history(rng, c03):
    """One simulation, the same ADD / DIVIDE request repeated while the inputs of its pieces change."""
    du, ru = rng.choice([("month", "year"), ("month", "year"), ("month", "month"), ("day", "month"),
                         ("weekday", "week"), ("week", "week"), ("year", "year"), ("day", "day")])
    mode = "add" if rng.random() < 0.75 else "div"
    n = rng.randint(1, 3)
    ty = rng.choice(["int", "float"])
    if mode == "add":
        size = rng.choice([1, 1, 2]) if not (du == "day" and ru == "month") else 1
        q = c03.gen_q(rng, ru, size, True)
        pieces = c03.tiles(du, q)
        vdu = du
    else:
        q = c03.gen_q(rng, du, 1, True)
        vdu = ru
        pieces = [c03.enclosing(vdu, q[1])]

    def vals():
        if ty == "int":
            return [rng.randint(-20, 90) for _ in range(n)]
        return [rng.choice([0.5, -2.25, 3.0, 12.0, 7.75, 100.0, -0.5]) for _ in range(n)]

    inputs = [[t, vals()] for t in pieces if rng.random() < 0.8]
    steps = []
    cloned = False
    for _ in range(rng.randint(2, 5)):
        r = rng.random()
        t = rng.choice(pieces)
        if r < 0.25:
            steps.append(["set", t, vals()])
        elif r < 0.45:
            steps.append(["holder-set", t, vals()])
        elif r < 0.6:
            steps.append(["delete", t if rng.random() < 0.7 else None])
        elif r < 0.7:
            steps.append(["repeat"])
        elif not cloned:
            cloned = True
            steps.append([rng.choice(["clone-set", "clone-set", "clone-holder-set", "clone-orig-set"]), t, vals()])
        else:
            steps.append(["set", t, vals()])
    return {"special": "history", "du": vdu, "mode": mode, "period": q, "count": n, "type": ty,
            "default": rng.choice([0, 0, 3, -1]), "inputs": inputs, "steps": steps}


BIG = [
    ("day", ["day", [1950, 1, 1], 32767]), ("day", ["day", [1950, 1, 1], 32768]), ("day", ["day", [1999, 12, 31], 32769]),
    ("day", ["year", [1950, 1, 1], 100]), ("day", ["year", [1930, 1, 1], 180]), ("day", ["day", [1904, 2, 29], 66000]),
    ("day", ["month", [1950, 2, 1], 1100]), ("weekday", ["week", [1950, 1, 2], 4700]),
    ("weekday", ["weekday", [1950, 1, 4], 33000]), ("weekday", ["week", [1951, 1, 1], 9400]),
    ("month", ["year", [1000, 1, 1], 2800]), ("month", ["month", [1900, 2, 1], 33000]),
    ("week", ["week", [1950, 1, 2], 33000]), ("year", ["year", [1, 1, 1], 9000]),
]


def gen_subperiods(rng, c03):
    du, q = rng.choice(BIG)
    return {"special": "subperiods", "du": du, "period": q}


def scale_case(rng, c03):
    """An ENGINE case (goes through the Coq correspondence as well): a day-defined variable
    summed over more than 32767 days."""
    which = rng.choice([["year", [1950, 1, 1], 100], ["year", [1948, 1, 1], 95], ["day", [1950, 1, 1], 33500],
                        ["year", [1960, 1, 1], 91]])
    du = "day"
    n = rng.randint(1, 2)
    vs = [
        {"ent": "person", "type": "int", "unit": "eternity", "end": None, "formulas": [], "default": 0, "neutral": False},
        {"ent": "person", "type": rng.choice(["int", "float"]), "unit": du, "end": None, "default": 0, "neutral": False,
         "formulas": [[[1, 1, 1], ["bin", "add", ["dep", 0, "same", "plain"],
                                   ["bin", "add", ["field", "day"],
                                    ["bin", "mul", ["const", 5], ["bin", "lt", ["const", 2030], ["field", "year"]]]]]]]},
    ]
    sys = {"vars": vs, "params": [], "switches": [], "max_loops": 1}
    pop = {"count": 1, "ids": [0] * n, "roles": [0] + [1] * (n - 1)}
    return {"sys": sys, "pop": pop, "cfg": {"blacklist": [1], "opt_out": True},
            "requests": [["set", 0, ["eternity", [-1, -1, -1], -1], [rng.randint(0, 3) for _ in range(n)]],
                         ["add", 1, which]]}


# ---------------------------------------------------------------------------------------
# driver
# ---------------------------------------------------------------------------------------

def _person():
    return build_entity(key="person", plural="persons", label="", is_person=True)


def _simulation(factory, count):
    person = _person()
    tbs = TaxBenefitSystem([person])
    tbs.add_variable(factory(person))
    return SimulationBuilder().build_default_simulation(tbs, count=count)


def _float_variable(case, person):
    attrs = {"value_type": float, "entity": person, "definition_period": UNIT_OBJ[case["du"]],
             "default_value": float(case["default"])}
    f = case.get("formula")
    if f:
        at, special = tuple(f["at"]), float(f["value"])

        def formula(person, period):
            s = period.start
            if (s.year, s.month, s.day) == at:
                return person.filled_array(special)
            return person.filled_array(s.month * 0.5 + s.day * 0.25)
        attrs["formula"] = formula
    return type("v", (Variable,), attrs)


def _guard(fn):
    try:
        return fn()
    except Exception as e:  # noqa: BLE001
        return Err(errkind(e), f"{type(e).__name__}: {e}"[:200])


def run_float(case, c03):
    n = case["count"]
    sims = []
    for _ in range(2):
        sim = _simulation(lambda person: _float_variable(case, person), n)
        for t, vals in case["inputs"]:
            sim.set_input("v", mk_period(t), numpy.array([float(x) for x in vals], dtype=numpy.float32))
        sims.append(sim)
    sim, ref = sims
    q = case["period"]
    if case["mode"] == "add":
        got = _guard(lambda: enc(sim.calculate_add("v", mk_period(q))))
        total = None
        pieces = c03.tiles(case["du"], q)
        for t in pieces:
            a = numpy.asarray(ref.calculate("v", mk_period(t)), dtype=numpy.float32)
            total = a if total is None else total + a
        return {"got": got, "expected": enc(total), "pieces": len(pieces)}
    cp = c03.enclosing(case["du"], q[1])
    count = c03.count_in(q[0], cp)
    got = _guard(lambda: enc(sim.calculate_divide("v", mk_period(q))))
    a = numpy.asarray(ref.calculate("v", mk_period(cp)), dtype=numpy.float32)
    return {"got": got, "expected": enc(a / numpy.float32(count)), "pieces": count}


def _int_variable(du, person):
    def formula(person, period):
        s = period.start
        return person.filled_array(s.month * 100 + s.day + (s.year - 2000))
    return type("v", (Variable,), {"value_type": int, "entity": person, "definition_period": UNIT_OBJ[du],
                                   "formula": formula})


def run_string(case, c03):
    n = case["count"]
    sim = _simulation(lambda person: _int_variable(case["du"], person), n)
    ref = _simulation(lambda person: _int_variable(case["du"], person), n)
    text, mode = case["text"], case["mode"]
    call = {"calc": sim.calculate, "add": sim.calculate_add, "div": sim.calculate_divide}[mode]
    got = _guard(lambda: enc(call("v", text)))
    cl = c03.cell_claim(case["du"], mode, case["period"])
    out = {"got": got, "claim": None}
    if cl is None:
        return out
    if cl[0] == "error":
        out["claim"] = ["error", cl[1]]
    elif cl[0] == "add":
        total = None
        for t in cl[1]:
            a = numpy.asarray(ref.calculate("v", mk_period(t)), dtype=numpy.float64)
            total = a if total is None else total + a
        out["claim"] = ["value", enc(total), len(cl[1])]
    elif cl[0] == "div":
        a = numpy.asarray(ref.calculate("v", mk_period(cl[1])), dtype=numpy.float64)
        out["claim"] = ["value", enc(a / cl[2]), cl[2]]
    return out


def run_subperiods(case, c03):
    q, du = case["period"], case["du"]
    expected = [t[1] for t in c03.tiles(du, q)]
    res = _guard(lambda: mk_period(q).get_subperiods(UNIT_OBJ[du]))
    if isinstance(res, Err):
        return {"got": res, "n_expected": len(expected)}
    got = []
    bad_shape = None
    for i, p in enumerate(res):
        s = p.start
        got.append([int(s.year), int(s.month), int(s.day)])
        if bad_shape is None and (str(p.unit.value if hasattr(p.unit, "value") else p.unit) != du or int(p.size) != 1):
            bad_shape = i
    first = next((i for i, (g, e) in enumerate(zip(got, expected)) if g != e), None)
    out = {"got": "list", "n_got": len(got), "n_expected": len(expected), "first_diff": first, "bad_shape": bad_shape}
    if first is not None:
        out["got_at"], out["expected_at"] = got[first], expected[first]
    return out


def _plain_variable(case, person):
    ty = {"int": int, "float": float}[case["type"]]
    return type("v", (Variable,), {"value_type": ty, "entity": person, "definition_period": UNIT_OBJ[case["du"]],
                                   "default_value": ty(case["default"])})


def run_history(case, c03):
    n, q, mode = case["count"], case["period"], case["mode"]
    dtype = numpy.int32 if case["type"] == "int" else numpy.float32
    if mode == "add":
        pieces = c03.tiles(case["du"], q)
        count = None
    else:
        pieces = [c03.enclosing(case["du"], q[1])]
        count = c03.count_in(q[0], pieces[0])

    def array(vals):
        return numpy.array(vals, dtype=dtype)

    def ask(sim):
        if mode == "add":
            return _guard(lambda: enc(sim.calculate_add("v", mk_period(q))))
        return _guard(lambda: enc(sim.calculate_divide("v", mk_period(q))))

    def reference(inputs):
        """what the request means for a simulation whose current inputs are `inputs`"""
        ref = _simulation(lambda person: _plain_variable(case, person), n)
        for k, vals in inputs.items():
            ref.set_input("v", mk_period(list(k_to_period(k))), array(vals))
        if mode == "add":
            total = None
            for t in pieces:
                a = numpy.asarray(ref.calculate("v", mk_period(t)), dtype=numpy.float64)
                total = a if total is None else total + a
            return enc(total)
        return enc(numpy.asarray(ref.calculate("v", mk_period(pieces[0])), dtype=numpy.float64) / count)

    def key(t):
        return (t[0], tuple(t[1]), t[2])

    def k_to_period(k):
        return [k[0], list(k[1]), k[2]]

    sim = _simulation(lambda person: _plain_variable(case, person), n)
    cur = {}
    for t, vals in case["inputs"]:
        sim.set_input("v", mk_period(t), array(vals))
        cur[key(t)] = vals
    clone, cur_clone = None, None
    out = [{"after": "the initial inputs", "who": "the simulation", "got": ask(sim), "expected": reference(cur)}]
    for i, st in enumerate(case["steps"]):
        op = st[0]
        what = f"step {i} {st}"
        if op == "set":
            sim.set_input("v", mk_period(st[1]), array(st[2]))
            cur[key(st[1])] = st[2]
        elif op == "holder-set":
            sim.persons.get_holder("v").set_input(mk_period(st[1]), array(st[2]))
            cur[key(st[1])] = st[2]
        elif op == "delete":
            if st[1] is None:
                sim.delete_arrays("v")
                cur = {}
            else:
                sim.delete_arrays("v", mk_period(st[1]))
                cur.pop(key(st[1]), None)
        elif op == "repeat":
            pass
        elif op in ("clone-set", "clone-holder-set", "clone-orig-set"):
            clone = sim.clone()
            cur_clone = dict(cur)
            if op == "clone-set":
                clone.set_input("v", mk_period(st[1]), array(st[2]))
                cur_clone[key(st[1])] = st[2]
            elif op == "clone-holder-set":
                clone.persons.get_holder("v").set_input(mk_period(st[1]), array(st[2]))
                cur_clone[key(st[1])] = st[2]
            else:
                sim.set_input("v", mk_period(st[1]), array(st[2]))
                cur[key(st[1])] = st[2]
        else:
            raise AssertionError(st)
        order = [("the clone", clone, cur_clone), ("the original", sim, cur)] if clone is not None else [("the simulation", sim, cur)]
        if op == "clone-orig-set":
            order.reverse()
        for who, s_, c_ in order:
            out.append({"after": what, "who": who, "got": ask(s_), "expected": reference(c_)})
    return out


def run(case, c03):
    with warnings.catch_warnings():
        warnings.simplefilter("ignore")
        kind = case["special"]
        if kind == "float":
            return run_float(case, c03)
        if kind == "string":
            return run_string(case, c03)
        if kind == "subperiods":
            return run_subperiods(case, c03)
        if kind == "history":
            return run_history(case, c03)
    raise AssertionError(kind)


# ---------------------------------------------------------------------------------------
# oracle
# ---------------------------------------------------------------------------------------

def oracle(case, o):
    kind = case["special"]
    if kind == "history":
        name = "ADD" if case["mode"] == "add" else "DIVIDE"
        for e in o:
            if isinstance(e["got"], Err):
                return (f"refused: {name} of a {case['du']} variable over {case['period']} on {e['who']} after "
                        f"{e['after']} is in scope but raised {e['got'].kind} ({e['got'].msg})")
            if not same_floats(e["got"], e["expected"], 0.0 if case["mode"] == "add" else 1e-6):
                meaning = ("the sum of its current values over the pieces" if case["mode"] == "add"
                           else "its current value at the enclosing definition period over the count")
                return (f"history: {name} of a {case['du']} variable over {case['period']} asked on {e['who']} after "
                        f"{e['after']} returned {e['got']}; {meaning} is {e['expected']}")
        return None
    if kind == "float":
        what = ("ADD" if case["mode"] == "add" else "DIVIDE") + f" of a float variable ({case['du']}, default {case['default']}) over {case['period']}"
        if isinstance(o["got"], Err):
            return f"refused: {what} is in scope but raised {o['got'].kind} ({o['got'].msg})"
        rel = 0.0 if case["mode"] == "add" else 1e-6
        if not same_floats(o["got"], o["expected"], rel):
            if case["mode"] == "add":
                return (f"sum: {what} returned {o['got']}, the sum of its values over the {o['pieces']} piece(s) "
                        f"is {o['expected']}")
            return (f"quotient: {what} returned {o['got']}, the value at the enclosing definition period over "
                    f"the {o['pieces']} requested unit(s) it holds is {o['expected']}")
        return None
    if kind == "string":
        cl = o["claim"]
        what = f"{case['mode']} of a {case['du']} variable for the period text {case['text']!r} (= {case['period']})"
        if cl is None:
            return None
        if cl[0] == "error":
            if not isinstance(o["got"], Err):
                return f"accepted: {what} must raise ({cl[1]}) but returned {o['got']}"
            return None
        if isinstance(o["got"], Err):
            return f"refused: {what} is in scope but raised {o['got'].kind} ({o['got'].msg})"
        if not same_floats(o["got"], cl[1], 1e-6):
            return f"sum: {what} returned {o['got']}, the independent computation over {cl[2]} piece(s) gives {cl[1]}"
        return None
    if kind == "subperiods":
        what = f"get_subperiods({case['du']}) of {case['period']}"
        if isinstance(o["got"], Err):
            return f"refused: {what} raised {o['got'].kind} ({o['got'].msg})"
        if o["n_got"] != o["n_expected"]:
            return f"pieces: {what} has {o['n_got']} pieces, the calendar has {o['n_expected']}"
        if o["first_diff"] is not None:
            return (f"pieces: {what}: piece number {o['first_diff']} starts on {o['got_at']}, the consecutive "
                    f"tiling has {o['expected_at']} there")
        if o["bad_shape"] is not None:
            return f"pieces: {what}: piece number {o['bad_shape']} is not one {case['du']} long"
        return None
    raise AssertionError(kind)


def claimed(case, o):
    if case["special"] == "string":
        return o.get("claim") is not None
    return True
