"""Fail-closed translator: re-emits the small decision tables of openfisca-core as Coq
definitions (coq/gen/Tables.v) from the *current* /repo sources, on every run.

Any syntax it does not expect raises TranslationError: the check then fails loudly
instead of proving theorems about a stale table.
"""
from __future__ import annotations

import ast
import os
import pathlib
import sys

REPO = pathlib.Path(os.environ.get("VERIF_REPO", "/repo"))

UNIT = {"WEEKDAY": "Weekday", "WEEK": "Week", "DAY": "Day", "MONTH": "Month",
        "YEAR": "Year", "ETERNITY": "Eternity"}


class TranslationError(Exception):
    pass


def _parse(rel):
    path = REPO / rel
    try:
        return ast.parse(path.read_text(), filename=str(path))
    except (OSError, SyntaxError) as e:
        raise TranslationError(f"cannot parse {rel}: {e}") from e


def _func(tree, name, cls=None):
    body = tree.body
    if cls is not None:
        found = [n for n in body if isinstance(n, ast.ClassDef) and n.name == cls]
        if len(found) != 1:
            raise TranslationError(f"class {cls} not found exactly once")
        body = found[0].body
    found = [n for n in body if isinstance(n, ast.FunctionDef) and n.name == name]
    if len(found) != 1:
        raise TranslationError(f"function {name} not found exactly once")
    return found[0]


def _single_return(fn):
    stmts = [s for s in fn.body
             if not (isinstance(s, ast.Expr) and isinstance(s.value, ast.Constant)
                     and isinstance(s.value.value, str))]
    if len(stmts) != 1 or not isinstance(stmts[0], ast.Return):
        raise TranslationError(f"{fn.name}: expected a single return statement")
    return stmts[0].value


def _unit(node):
    if (isinstance(node, ast.Attribute) and isinstance(node.value, ast.Name)
            and node.value.id == "DateUnit" and node.attr in UNIT):
        return UNIT[node.attr]
    raise TranslationError(f"expected DateUnit.<NAME>, got {ast.dump(node)}")


def unit_weights():
    tree = _parse("openfisca_core/periods/helpers.py")
    ret = _single_return(_func(tree, "unit_weights"))
    if not isinstance(ret, ast.Dict):
        raise TranslationError("unit_weights: expected a dict literal")
    out = {}
    for k, v in zip(ret.keys, ret.values):
        if not (isinstance(v, ast.Constant) and type(v.value) is int):
            raise TranslationError("unit_weights: non-integer weight")
        out[_unit(k)] = v.value
    if set(out) != set(UNIT.values()):
        raise TranslationError(f"unit_weights: units {sorted(out)}")
    # unit_weight(unit) must be the plain lookup
    ret2 = _single_return(_func(tree, "unit_weight"))
    if ast.dump(ret2) != ast.dump(ast.parse("unit_weights()[unit]").body[0].value):
        raise TranslationError("unit_weight is no longer unit_weights()[unit]")
    return out


def unit_tuple(name):
    tree = _parse("openfisca_core/periods/date_unit.py")
    fn = _func(tree, name, cls="DateUnitMeta")
    ret = _single_return(fn)
    if not isinstance(ret, ast.Tuple):
        raise TranslationError(f"{name}: expected a tuple literal")
    return [_unit(e) for e in ret.elts]


def max_spiral_loops_default():
    tree = _parse("openfisca_core/simulations/simulation.py")
    init = _func(tree, "__init__", cls="Simulation")
    vals = []
    for node in ast.walk(init):
        tgt = None
        if isinstance(node, ast.AnnAssign):
            tgt, val = node.target, node.value
        elif isinstance(node, ast.Assign) and len(node.targets) == 1:
            tgt, val = node.targets[0], node.value
        if (tgt is not None and isinstance(tgt, ast.Attribute) and tgt.attr == "max_spiral_loops"
                and isinstance(tgt.value, ast.Name) and tgt.value.id == "self"):
            if not (isinstance(val, ast.Constant) and type(val.value) is int):
                raise TranslationError("max_spiral_loops default is not an int literal")
            vals.append(val.value)
    if len(vals) != 1:
        raise TranslationError("max_spiral_loops assigned != once in Simulation.__init__")
    return vals[0]


# ----------------------------------------------------------------------------
# Decision structures (guards) -> coq/gen/Guards.v
#
# The bodies of Simulation._check_period_consistency / calculate_add /
# calculate_divide and CorePopulation.__call__ are walked statement by statement.
# Everything that is not one of the shapes listed below raises TranslationError.
# Local names (the variable, the period, the message, the chosen period, the
# denominator, the Calculate tuple) are read from the code, so renaming one is
# harmless; attribute names, operators, constants, statement order and statement
# kinds are translated (or pinned), so changing one changes coq/gen/Guards.v (or
# fails closed).
# ----------------------------------------------------------------------------

NAMED_PERIOD = {"this_year": "NThisYear", "first_month": "NFirstMonth", "first_day": "NFirstDay",
                "first_week": "NFirstWeek", "first_weekday": "NFirstWeekday"}
SIZE_FN = {"size_in_years": "SInYears", "size_in_months": "SInMonths", "size_in_days": "SInDays",
           "size_in_weeks": "SInWeeks", "size_in_weekdays": "SInWeekdays"}
ZCMP = {ast.Gt: "Z.gtb {} {}", ast.Lt: "Z.ltb {} {}", ast.GtE: "Z.geb {} {}", ast.LtE: "Z.leb {} {}",
        ast.Eq: "Z.eqb {} {}", ast.NotEq: "negb (Z.eqb {} {})"}


def _src(node):
    try:
        return ast.unparse(node)
    except Exception:  # noqa: BLE001
        return ast.dump(node)


def _where(fn, node):
    return f"{fn}: line {getattr(node, 'lineno', '?')}"


def _is(node, source, mode="eval"):
    """node is syntactically the Python text [source]"""
    want = ast.parse(source, mode=mode).body
    if mode == "exec":
        want = want[0]
    return ast.dump(node) == ast.dump(want)


def _require_import(tree, rel, module, name, level=0):
    for n in tree.body:
        if isinstance(n, ast.ImportFrom) and n.module == module and n.level == level:
            for a in n.names:
                if a.name == name and a.asname is None:
                    return
    raise TranslationError(f"{rel}: 'from {'.' * level}{module} import {name}' not found at module level")


def _no_rebinding(tree, rel, names):
    """the module-level names the guards rely on are bound by imports only"""
    for n in tree.body:
        bound = []
        if isinstance(n, (ast.FunctionDef, ast.ClassDef, ast.AsyncFunctionDef)):
            bound = [n.name]
        elif isinstance(n, ast.Assign):
            bound = [t.id for t in n.targets if isinstance(t, ast.Name)]
        elif isinstance(n, (ast.AnnAssign, ast.AugAssign)) and isinstance(n.target, ast.Name):
            bound = [n.target.id]
        elif isinstance(n, ast.Import):
            bound = [(a.asname or a.name).split(".")[0] for a in n.names]
        for b in bound:
            if b in names:
                raise TranslationError(f"{rel}: module-level name '{b}' is re-bound at line {n.lineno}")


def _body(fn):
    """statements of a function without the leading docstring"""
    b = list(fn.body)
    if (b and isinstance(b[0], ast.Expr) and isinstance(b[0].value, ast.Constant)
            and isinstance(b[0].value.value, str)):
        b = b[1:]
    return b


def _params(fn, n, what):
    a = fn.args
    if (a.posonlyargs or a.vararg or a.kwonlyargs or a.kwarg or len(a.args) != n
            or fn.decorator_list):
        raise TranslationError(f"{what}: signature changed ({_src(a)})")
    return [x.arg for x in a.args]


class _Env:
    """What a condition of the function being translated may mention: expressions (by
    their syntax) standing for an abstract input of type unit / integer / bool, the spelling
    of DateUnit and unit_weight in that module, and what a message may interpolate."""

    def __init__(self, fn, var=None, period=None, allowed=(), units=None, ints=None, bools=None,
                 date_unit="periods.DateUnit", weight="periods.unit_weight", msg_ok=()):
        self.fn, self.var, self.period, self.allowed = fn, var, period, set(allowed)
        self.used = set()
        self.date_unit, self.weight = date_unit, weight
        u, n, m = {}, {}, []
        if var is not None:
            u[f"{var}.definition_period"] = "def_unit"
            m += [f"{var}.name", f"{var}.definition_period"]
        if period is not None:
            u[f"{period}.unit"] = "req_unit"
            n[f"{period}.size"] = "size"
            m += [period]
        u.update(units or {})
        n.update(ints or {})
        key = lambda src: ast.dump(ast.parse(src, mode="eval").body)
        self.units = {key(k): v for k, v in u.items()}
        self.ints = {key(k): v for k, v in n.items()}
        self.bools = {key(k): v for k, v in (bools or {}).items()}
        self.msg_ok = {key(k) for k in list(m) + list(msg_ok)}

    def sym(self, s, node):
        if s not in self.allowed:
            raise TranslationError(f"{_where(self.fn, node)}: '{_src(node)}' is not expected in this decision")
        self.used.add(s)
        return s


def _date_unit(node, env):
    """<DateUnit>.X -> Coq constructor, or None"""
    if (isinstance(node, ast.Attribute) and node.attr in UNIT and _is(node.value, env.date_unit)):
        return UNIT[node.attr]
    return None


def _unit_expr(node, env):
    """an expression of type DateUnit, or None"""
    u = _date_unit(node, env)
    if u is not None:
        return u
    k = ast.dump(node)
    if k in env.units:
        return env.sym(env.units[k], node)
    return None


def _weight_expr(node, env):
    """unit_weight(<unit expr>), or None"""
    if (isinstance(node, ast.Call) and _is(node.func, env.weight)
            and len(node.args) == 1 and not node.keywords):
        u = _unit_expr(node.args[0], env)
        if u is None:
            raise TranslationError(f"{_where(env.fn, node)}: unit_weight of '{_src(node.args[0])}'")
        return f"(unit_weight {u})"
    return None


def _int_expr(node, env):
    """an integer input (period.size ...) or an integer literal, or None"""
    k = ast.dump(node)
    if k in env.ints:
        return env.sym(env.ints[k], node)
    if isinstance(node, ast.Constant) and type(node.value) is int:
        return f"({node.value})%Z"
    if (isinstance(node, ast.UnaryOp) and isinstance(node.op, ast.USub)
            and isinstance(node.operand, ast.Constant) and type(node.operand.value) is int):
        return f"({-node.operand.value})%Z"
    return None


def _unit_list(node, env):
    """<DateUnit>.isoformat / .isocalendar, sums of them, tuples of units -> Coq list, or None"""
    if isinstance(node, ast.Attribute) and node.attr in ("isoformat", "isocalendar") \
            and _is(node.value, env.date_unit):
        return f"units_{node.attr}"
    if isinstance(node, ast.BinOp) and isinstance(node.op, ast.Add):
        a, b = _unit_list(node.left, env), _unit_list(node.right, env)
        if a is not None and b is not None:
            return f"({a} ++ {b})"
        return None
    if isinstance(node, ast.Tuple):
        us = [_date_unit(e, env) for e in node.elts]
        if all(u is not None for u in us):
            return "[" + "; ".join(us) + "]"
    return None


def _cond(node, env):
    """a Python condition over the abstract inputs -> Coq term of type bool"""
    if ast.dump(node) in env.bools:
        return env.sym(env.bools[ast.dump(node)], node)
    if isinstance(node, ast.BoolOp):
        op = "andb" if isinstance(node.op, ast.And) else "orb"
        parts = [_cond(v, env) for v in node.values]
        out = parts[-1]
        for p in reversed(parts[:-1]):
            out = f"({op} {p} {out})"
        return out
    if isinstance(node, ast.UnaryOp) and isinstance(node.op, ast.Not):
        return f"(negb {_cond(node.operand, env)})"
    if isinstance(node, ast.Compare) and len(node.ops) == 1:
        op, l, r = node.ops[0], node.left, node.comparators[0]
        # DateUnit == / != DateUnit
        if isinstance(op, (ast.Eq, ast.NotEq)):
            a, b = _unit_expr(l, env), _unit_expr(r, env)
            if a is not None and b is not None:
                t = f"(unit_eqb {a} {b})"
                return t if isinstance(op, ast.Eq) else f"(negb {t})"
        # DateUnit in / not in (tuple of units)
        if isinstance(op, (ast.In, ast.NotIn)):
            a, lst = _unit_expr(l, env), _unit_list(r, env)
            if a is not None and lst is not None:
                t = f"(existsb (unit_eqb {a}) {lst})"
                return t if isinstance(op, ast.In) else f"(negb {t})"
        if type(op) in ZCMP:
            # unit_weight(..) <cmp> unit_weight(..)
            a, b = _weight_expr(l, env), _weight_expr(r, env)
            if a is not None and b is not None:
                return "(" + ZCMP[type(op)].format(a, b) + ")"
            # period.size <cmp> literal
            a, b = _int_expr(l, env), _int_expr(r, env)
            if a is not None and b is not None and not (a.startswith("(") and b.startswith("(")):
                return "(" + ZCMP[type(op)].format(a, b) + ")"
    raise TranslationError(f"{_where(env.fn, node)}: condition '{_src(node)}' is not of a known form")


def _message(node, env):
    """a string literal or an f-string over the known locals (cannot raise, no effect)"""
    if isinstance(node, ast.Constant) and isinstance(node.value, str):
        return True
    if isinstance(node, ast.JoinedStr):
        for v in node.values:
            if isinstance(v, ast.Constant) and isinstance(v.value, str):
                continue
            ok = (isinstance(v, ast.FormattedValue) and v.conversion == -1 and v.format_spec is None
                  and ast.dump(v.value) in env.msg_ok)
            if not ok:
                raise TranslationError(f"{_where(env.fn, v)}: message part '{_src(v)}' is not expected")
        return True
    return False


def _raises_value_error(stmts, env):
    """[msg = <message>;]* raise ValueError(<msg or message>)"""
    if not stmts or not isinstance(stmts[-1], ast.Raise):
        return False
    msgs = set()
    for s in stmts[:-1]:
        if (isinstance(s, ast.Assign) and len(s.targets) == 1 and isinstance(s.targets[0], ast.Name)
                and s.targets[0].id not in (env.var, env.period) and _message(s.value, env)):
            msgs.add(s.targets[0].id)
        else:
            raise TranslationError(f"{_where(env.fn, s)}: statement '{_src(s).splitlines()[0]}' before a raise")
    r = stmts[-1]
    e = r.exc
    if (r.cause is None and isinstance(e, ast.Call) and isinstance(e.func, ast.Name) and not e.keywords
            and len(e.args) == 1
            and ((isinstance(e.args[0], ast.Name) and e.args[0].id in msgs) or _message(e.args[0], env))):
        if e.func.id != "ValueError":
            raise TranslationError(f"{_where(env.fn, r)}: raises {e.func.id}, expected ValueError")
        return True
    raise TranslationError(f"{_where(env.fn, r)}: raise statement '{_src(r).splitlines()[0]}' is not of a known form")


def _guard_chain(stmts, env, allow_accept=False):
    """leading run of `if <cond>: raise ValueError(..)` (and, when allow_accept,
    `if <cond>: return`) -> ([(cond, raises?)], remaining statements)"""
    out = []
    i = 0
    while i < len(stmts):
        s = stmts[i]
        if not isinstance(s, ast.If):
            break
        is_ret = (len(s.body) == 1 and isinstance(s.body[0], ast.Return)
                  and (s.body[0].value is None or _is(s.body[0].value, "None")))
        if not is_ret and not (s.body and isinstance(s.body[-1], ast.Raise)):
            break                      # not a guard: the caller decides what it is
        if s.orelse:
            raise TranslationError(f"{_where(env.fn, s)}: a guard with an else branch")
        if is_ret:
            if not allow_accept:
                raise TranslationError(f"{_where(env.fn, s)}: early return among the guards")
            out.append((_cond(s.test, env), False))
        else:
            _raises_value_error(s.body, env)
            out.append((_cond(s.test, env), True))
        i += 1
    return out, stmts[i:]


def _render_chain(chain, final="false"):
    lines = []
    for k, (c, raises) in enumerate(chain):
        lines.append(f"  {'if' if k == 0 else 'else if'} {c} then {'true' if raises else 'false'}")
    lines.append(f"  else {final}." if chain else f"  {final}.")
    return "\n".join(lines)


def _choice_chain(node, env, value_of, what):
    """if/elif/else where every branch is `<target> = <value>` -> (target, Coq term)"""
    target = []

    def branch(stmts, at):
        if (len(stmts) == 1 and isinstance(stmts[0], ast.Assign) and len(stmts[0].targets) == 1
                and isinstance(stmts[0].targets[0], ast.Name)):
            target.append(stmts[0].targets[0].id)
            return value_of(stmts[0].value)
        raise TranslationError(f"{_where(env.fn, at)}: {what}: branch is not a single assignment")

    def go(n, depth):
        if not isinstance(n, ast.If):
            raise TranslationError(f"{_where(env.fn, n)}: {what}: expected an if/elif/else chain")
        c = _cond(n.test, env)
        then = branch(n.body, n)
        if len(n.orelse) == 1 and isinstance(n.orelse[0], ast.If):
            rest = go(n.orelse[0], depth + 1)
        elif n.orelse:
            rest = branch(n.orelse, n)
        else:
            raise TranslationError(f"{_where(env.fn, n)}: {what}: chain without a final else")
        return f"if {c} then {then}\n  else {rest}"

    term = go(node, 0)
    if len(set(target)) != 1:
        raise TranslationError(f"{_where(env.fn, node)}: {what}: branches assign different names {sorted(set(target))}")
    return target[0], term


SIM = "openfisca_core/simulations/simulation.py"
POP = "openfisca_core/populations/_core_population.py"


def _sim_tree():
    tree = _parse(SIM)
    _require_import(tree, SIM, "openfisca_core", "periods")
    _require_import(tree, SIM, "openfisca_core", "errors")
    _no_rebinding(tree, SIM, {"periods", "errors", "ValueError", "isinstance", "sum"})
    return tree


def _lookup_prelude(fn, what):
    """the head shared by calculate_add / calculate_divide: variable lookup, not-found
    error, period normalisation.  Returns (self, name parameter, environment, rest)."""
    me, name, per = _params(fn, 3, what)
    stmts = _body(fn)
    if (stmts and isinstance(stmts[0], ast.AnnAssign) and stmts[0].value is None
            and isinstance(stmts[0].target, ast.Name)):
        stmts = stmts[1:]              # bare local annotation: no run-time effect
    if len(stmts) < 3:
        raise TranslationError(f"{what}: body too short")
    s0 = stmts[0]
    if not (isinstance(s0, ast.Assign) and len(s0.targets) == 1 and isinstance(s0.targets[0], ast.Name)):
        raise TranslationError(f"{_where(what, s0)}: expected the variable lookup, got '{_src(s0).splitlines()[0]}'")
    var = s0.targets[0].id
    if var in (me, name, per):
        raise TranslationError(f"{_where(what, s0)}: the variable lookup overwrites a parameter")
    expect = [
        f"{var} = {me}.tax_benefit_system.get_variable({name}, check_existence=True)",
        f"if {var} is None:\n    raise errors.VariableNotFoundError({name}, {me}.tax_benefit_system)",
        f"if {per} is not None and not isinstance({per}, periods.Period):\n    {per} = periods.period({per})",
    ]
    for s, e in zip(stmts[:3], expect):
        if not _is(s, e, mode="exec"):
            raise TranslationError(f"{_where(what, s)}: expected '{e.splitlines()[0]} ...', got '{_src(s).splitlines()[0]}'")
    return me, name, var, per, stmts[3:]


def guard_check_consistency():
    what = "_check_period_consistency"
    fn = _func(_sim_tree(), what, cls="Simulation")
    _me, per, var = _params(fn, 3, what)
    env = _Env(what, var=var, period=per, allowed=("def_unit", "req_unit", "size"))
    chain, rest = _guard_chain(_body(fn), env, allow_accept=True)
    if rest:
        raise TranslationError(f"{_where(what, rest[0])}: statement '{_src(rest[0]).splitlines()[0]}' is not a guard")
    if not chain:
        raise TranslationError(f"{what}: no guard found")
    return ("(* Simulation._check_period_consistency: true = raises ValueError *)\n"
            "Definition gen_check_consistency (def_unit req_unit : unit_t) (size : Z) : bool :=\n"
            + _render_chain(chain))


def guard_add():
    what = "calculate_add"
    fn = _func(_sim_tree(), what, cls="Simulation")
    me, name, var, per, stmts = _lookup_prelude(fn, what)
    env = _Env(what, var=var, period=per, allowed=("def_unit", "req_unit"))
    chain, rest = _guard_chain(stmts, env)
    ok = False
    if len(rest) == 1 and isinstance(rest[0], ast.Return) and rest[0].value is not None:
        v = rest[0].value
        gens = getattr(v.args[0], "generators", None) if isinstance(v, ast.Call) and len(v.args) == 1 else None
        if gens and len(gens) == 1 and isinstance(gens[0].target, ast.Name):
            sub = gens[0].target.id
            ok = sub not in (me, name, var, per) and _is(
                v, f"sum({me}.calculate({name}, {sub}) for {sub} in {per}.get_subperiods({var}.definition_period))")
    if not ok:
        at = rest[0] if rest else fn
        got = _src(at).splitlines()[0] if rest else "nothing"
        raise TranslationError(f"{_where(what, at)}: after the guards, expected only 'return sum(self.calculate(name, sub) "
                               f"for sub in period.get_subperiods(variable.definition_period))', got '{got}'")
    if not chain:
        raise TranslationError(f"{what}: no guard found")
    return ("(* Simulation.calculate_add, the tests before the sum: true = raises ValueError *)\n"
            "Definition gen_add_guard (def_unit req_unit : unit_t) : bool :=\n"
            + _render_chain(chain))


def guard_divide():
    what = "calculate_divide"
    fn = _func(_sim_tree(), what, cls="Simulation")
    me, name, var, per, stmts = _lookup_prelude(fn, what)
    env = _Env(what, var=var, period=per, allowed=("def_unit", "req_unit", "size"))
    chain, rest = _guard_chain(stmts, env)
    if not chain:
        raise TranslationError(f"{what}: no guard found")
    if len(rest) != 3:
        at = rest[0] if rest else fn
        raise TranslationError(f"{_where(what, at)}: after the guards, expected the choice of the calculation "
                               f"period, the choice of the denominator and the return ({len(rest)} statements found)")

    def named(v):
        if (isinstance(v, ast.Attribute) and isinstance(v.value, ast.Name) and v.value.id == per
                and v.attr in NAMED_PERIOD):
            return NAMED_PERIOD[v.attr]
        raise TranslationError(f"{_where(what, v)}: calculation period '{_src(v)}' is not period.<this_year|first_*>")

    env1 = _Env(what, var=var, period=per, allowed=("def_unit",))
    cp, choice = _choice_chain(rest[0], env1, named, "choice of the calculation period")
    if cp in (me, name, var, per):
        raise TranslationError(f"{what}: the calculation period overwrites '{cp}'")

    def sizefn(v):
        if (isinstance(v, ast.Attribute) and isinstance(v.value, ast.Name) and v.value.id == cp
                and v.attr in SIZE_FN):
            return SIZE_FN[v.attr]
        raise TranslationError(f"{_where(what, v)}: denominator '{_src(v)}' is not <calculation period>.size_in_<unit>s")

    env2 = _Env(what, var=var, period=per, allowed=("req_unit",))
    den, denom = _choice_chain(rest[1], env2, sizefn, "choice of the denominator")
    if den in (me, name, var, per, cp):
        raise TranslationError(f"{what}: the denominator overwrites '{den}'")
    if not _is(rest[2], f"return {me}.calculate({name}, {cp}) / {den}", mode="exec"):
        raise TranslationError(f"{_where(what, rest[2])}: expected 'return self.calculate(name, <calculation period>) "
                               f"/ <denominator>', got '{_src(rest[2]).splitlines()[0]}'")
    return "\n".join([
        "(* Simulation.calculate_divide, the tests before the division: true = raises ValueError *)",
        "Definition gen_divide_guard (def_unit req_unit : unit_t) (size : Z) : bool :=",
        _render_chain(chain),
        "",
        "(* Simulation.calculate_divide: calculation_period = period.<...>, by definition unit *)",
        "Definition gen_divide_period_choice (def_unit : unit_t) : named_period :=",
        f"  {choice}.",
        "",
        "(* Simulation.calculate_divide: denominator = calculation_period.<...>, by request unit *)",
        "Definition gen_divide_denominator_choice (req_unit : unit_t) : size_fn :=",
        f"  {denom}.",
    ])


def guard_dispatch():
    what = "CorePopulation.__call__"
    tree = _parse(POP)
    _require_import(tree, POP, "collections.abc", "Sequence")
    _require_import(tree, POP, "openfisca_core", "periods")
    found = [n for n in tree.body if isinstance(n, ast.ImportFrom) and n.level == 1 and n.module is None
             and any(a.name == "types" and a.asname == "t" for a in n.names)]
    if not found:
        raise TranslationError(f"{POP}: 'from . import types as t' not found")
    for e in ("IncompatibleOptionsError", "InvalidOptionError"):
        _require_import(tree, POP, "_errors", e, level=1)
    _no_rebinding(tree, POP, {"Sequence", "periods", "t", "isinstance",
                              "IncompatibleOptionsError", "InvalidOptionError"})
    fn = _func(tree, "__call__", cls="CorePopulation")
    a = fn.args
    if (a.posonlyargs or a.vararg or a.kwonlyargs or a.kwarg or len(a.args) != 4 or fn.decorator_list
            or len(a.defaults) != 1 or not _is(a.defaults[0], "None")):
        raise TranslationError(f"{what}: signature changed ({_src(a)})")
    me, name, per, opts = [x.arg for x in a.args]
    stmts = _body(fn)
    if len(stmts) < 5:
        raise TranslationError(f"{what}: body too short")
    s1 = stmts[1]
    if not (isinstance(s1, ast.Assign) and len(s1.targets) == 1 and isinstance(s1.targets[0], ast.Name)):
        raise TranslationError(f"{_where(what, s1)}: expected '<calculate> = t.Calculate(...)'")
    c = s1.targets[0].id
    if c in (me, name, per, opts):
        raise TranslationError(f"{_where(what, s1)}: the Calculate tuple overwrites a parameter")
    expect = [
        f"if {me}.simulation is None:\n    return None",
        f"{c} = t.Calculate(variable={name}, period=periods.period({per}), option={opts})",
        f"{me}.entity.check_variable_defined_for_entity({c}.variable)",
        f"{me}.check_period_validity({c}.variable, {c}.period)",
    ]
    for s, e in zip(stmts[:4], expect):
        if not _is(s, e, mode="exec"):
            raise TranslationError(f"{_where(what, s)}: expected '{e.splitlines()[0]} ...', got '{_src(s).splitlines()[0]}'")

    def atom(node):
        if isinstance(node, ast.BoolOp):
            op = "andb" if isinstance(node.op, ast.And) else "orb"
            parts = [atom(v) for v in node.values]
            out = parts[-1]
            for p in reversed(parts[:-1]):
                out = f"({op} {p} {out})"
            return out
        if isinstance(node, ast.UnaryOp) and isinstance(node.op, ast.Not):
            return f"(negb {atom(node.operand)})"
        if _is(node, f"isinstance({c}.option, Sequence)"):
            return "is_sequence"
        for o, sym in (("ADD", "has_add"), ("DIVIDE", "has_divide")):
            if _is(node, f"t.Option.{o} in {c}.option"):
                return sym
            if _is(node, f"t.Option.{o} not in {c}.option"):
                return f"(negb {sym})"
        raise TranslationError(f"{_where(what, node)}: option test '{_src(node)}' is not of a known form")

    def outcome(s):
        for m, d in (("calculate", "DPlain"), ("calculate_add", "DAdd"), ("calculate_divide", "DDivide")):
            if _is(s, f"return {me}.simulation.{m}({c}.variable, {c}.period)", mode="exec"):
                return d
        if _is(s, f"raise IncompatibleOptionsError({name})", mode="exec"):
            return "DIncompatible"
        if _is(s, f"raise InvalidOptionError({c}.option[0], {name})", mode="exec"):
            return "DInvalid"
        raise TranslationError(f"{_where(what, s)}: outcome '{_src(s).splitlines()[0]}' is not of a known form")

    lines = []
    rest = stmts[4:]
    for k, s in enumerate(rest):
        last = k == len(rest) - 1
        if last:
            lines.append(f"  {'else ' if lines else ''}{outcome(s)}.")
        elif isinstance(s, ast.If) and not s.orelse and len(s.body) == 1:
            lines.append(f"  {'else if' if lines else 'if'} {atom(s.test)} then {outcome(s.body[0])}")
        else:
            raise TranslationError(f"{_where(what, s)}: statement '{_src(s).splitlines()[0]}' is not "
                                   f"'if <option test>: <return or raise>'")
    return "\n".join([
        "(* CorePopulation.__call__, after the checks of the variable and the period *)",
        "Definition gen_option_dispatch (has_add has_divide is_sequence : bool) : dispatch :=",
    ] + lines)


GUARDS_HEADER = [
    "(* GENERATED by harness/gen_tables.py from /repo sources - do not edit. *)",
    "From Coq Require Import ZArith List Bool.",
    "From Verif Require Import Base Tables GuardsTypes.",
    "Import ListNotations.",
    "Open Scope Z_scope.",
    "",
]


# ----------------------------------------------------------------------------
# Period.get_subperiods -> coq/gen/GuardsPeriod.v
# ----------------------------------------------------------------------------

PER = "openfisca_core/periods/period_.py"


def guard_subperiods():
    what = "get_subperiods"
    tree = _parse(PER)
    _require_import(tree, PER, None, "helpers", level=1)
    _require_import(tree, PER, "date_unit", "DateUnit", level=1)
    _no_rebinding(tree, PER, {"helpers", "DateUnit", "ValueError", "range"})
    htree = _parse("openfisca_core/periods/helpers.py")
    _func(htree, "unit_weight")            # the function Tables.unit_weight is read from
    fn = _func(tree, what, cls="Period")
    me, unit = _params(fn, 2, what)
    env = _Env(what, allowed=("self_unit", "sub_unit"), units={f"{me}.unit": "self_unit", unit: "sub_unit"},
               date_unit="DateUnit", weight="helpers.unit_weight", msg_ok=(f"{me}.unit", unit))
    chain, rest = _guard_chain(_body(fn), env)
    if not chain:
        raise TranslationError(f"{what}: no guard found")
    envc = _Env(what, allowed=("sub_unit",), units={unit: "sub_unit"}, date_unit="DateUnit",
                weight="helpers.unit_weight", msg_ok=(f"{me}.unit", unit))
    lines = []
    k = 0
    while k < len(rest) and isinstance(rest[k], ast.If):
        n = rest[k]
        if n.orelse or len(n.body) != 1 or not isinstance(n.body[0], ast.Return):
            raise TranslationError(f"{_where(what, n)}: expected 'if unit == DateUnit.X: return [...]'")
        c = _cond(n.test, envc)
        v = n.body[0].value
        plan = None
        if (isinstance(v, ast.ListComp) and len(v.generators) == 1 and not v.generators[0].ifs
                and not v.generators[0].is_async and isinstance(v.generators[0].target, ast.Name)):
            g = v.generators[0]
            i = g.target.id
            e = v.elt
            if (i not in (me, unit) and isinstance(e, ast.Call) and isinstance(e.func, ast.Attribute)
                    and e.func.attr == "offset" and isinstance(e.func.value, ast.Attribute)
                    and _is(e.func.value.value, me) and e.func.value.attr in NAMED_PERIOD
                    and len(e.args) == 2 and not e.keywords and _is(e.args[0], i)
                    and _date_unit(e.args[1], envc) is not None
                    and isinstance(g.iter, ast.Call) and _is(g.iter.func, "range") and len(g.iter.args) == 1
                    and not g.iter.keywords and isinstance(g.iter.args[0], ast.Attribute)
                    and _is(g.iter.args[0].value, me)
                    and g.iter.args[0].attr in dict(SIZE_FN, size="SSize")):
                plan = (NAMED_PERIOD[e.func.value.attr], _date_unit(e.args[1], envc),
                        dict(SIZE_FN, size="SSize")[g.iter.args[0].attr])
        if plan is None:
            raise TranslationError(f"{_where(what, n.body[0])}: expected 'return [self.<this_year|first_*>.offset(i, "
                                   f"DateUnit.X) for i in range(self.<size|size_in_*>)]', got '{_src(n.body[0]).splitlines()[0]}'")
        lines.append(f"  {'else if' if lines else 'if'} {c} then Some ({plan[0]}, {plan[1]}, {plan[2]})")
        k += 1
    if not lines:
        raise TranslationError(f"{what}: no per-unit branch found")
    if not _raises_value_error(rest[k:], env):
        at = rest[k] if k < len(rest) else fn
        raise TranslationError(f"{_where(what, at)}: after the per-unit branches, expected the final raise ValueError")
    lines.append("  else None.")
    return "\n".join([
        "(* Period.get_subperiods(unit), the test before the dispatch: true = raises ValueError *)",
        "Definition gen_subperiods_guard (self_unit sub_unit : unit_t) : bool :=",
        _render_chain(chain),
        "",
        "(* Period.get_subperiods(unit): [base.offset(i, offset unit) for i in range(count)];",
        "   None = raises ValueError *)",
        "Definition gen_subperiods_choice (sub_unit : unit_t) : option (named_period * unit_t * size_fn) :=",
    ] + lines)


def render_guards_period():
    return "\n".join(GUARDS_HEADER) + "\n" + guard_subperiods() + "\n"


# ----------------------------------------------------------------------------
# Syntax patterns with named holes (used for pinned statements and for the plans)
#
# A pattern is Python text in which the identifiers __b_x / __r_x / __m_x are holes:
#   __b_x   a local name; bound to x on first use, the same name afterwards
#   __r_x   the local name already bound to x
#   __m_x   a message: a string literal, an f-string, or a local bound to one
# Everything else must be syntactically identical.
# ----------------------------------------------------------------------------

def _pat(src, mode="exec"):
    body = ast.parse(src, mode=mode).body
    return body[0] if mode == "exec" else body


def _pmatch(pat, node, b):
    if isinstance(pat, ast.Name) and pat.id[:4] in ("__b_", "__r_", "__m_"):
        kind, key = pat.id[2], pat.id[4:]
        if kind == "m":
            if isinstance(node, ast.Name):
                return node.id in b.get("@msgs", ())
            return isinstance(node, ast.JoinedStr) or (isinstance(node, ast.Constant) and isinstance(node.value, str))
        if not isinstance(node, ast.Name) or type(pat.ctx) is not type(node.ctx):
            return False
        if key in b:
            return b[key] == node.id
        if kind == "r" or node.id in [v for k, v in b.items() if k != "@msgs"]:
            return False
        b[key] = node.id
        return True
    if type(pat) is not type(node):
        return False
    for f, pv in ast.iter_fields(pat):
        nv = getattr(node, f, None)
        if isinstance(pv, list):
            if not isinstance(nv, list) or len(pv) != len(nv):
                return False
            for x, y in zip(pv, nv):
                if isinstance(x, ast.AST):
                    if not _pmatch(x, y, b):
                        return False
                elif x != y:
                    return False
        elif isinstance(pv, ast.AST):
            if not isinstance(nv, ast.AST) or not _pmatch(pv, nv, b):
                return False
        elif pv != nv:
            return False
    return True


def _matches(src, node, b, mode="exec"):
    """match and, on success only, extend the bindings b"""
    trial = dict(b)
    if "@msgs" in trial:
        trial["@msgs"] = set(trial["@msgs"])
    if _pmatch(_pat(src, mode), node, trial):
        b.update(trial)
        return True
    return False


def _line(node):
    return _src(node).splitlines()[0]


# ----------------------------------------------------------------------------
# Holder.set_input / _set / _to_array, Simulation.set_input -> coq/gen/GuardsInput.v
# ----------------------------------------------------------------------------

HOL = "openfisca_core/holders/holder.py"
PURE_CALLS = ("join", "format", "upper")


def _pure_text(node, names, attrs):
    """an expression that only builds a text from known values (cannot fail, no effect)"""
    ok = lambda n: _pure_text(n, names, attrs)
    if isinstance(node, ast.Constant) and isinstance(node.value, (str, int)):
        return True
    if isinstance(node, ast.JoinedStr):
        return all((isinstance(v, ast.Constant) and isinstance(v.value, str))
                   or (isinstance(v, ast.FormattedValue) and v.conversion == -1 and v.format_spec is None
                       and ok(v.value)) for v in node.values)
    if isinstance(node, ast.Name):
        return node.id in names
    if isinstance(node, ast.Attribute):
        return _src(node) in attrs
    if isinstance(node, ast.Call):
        return (isinstance(node.func, ast.Attribute) and node.func.attr in PURE_CALLS and not node.keywords
                and ok(node.func.value) and all(ok(a) for a in node.args))
    if isinstance(node, (ast.List, ast.Tuple)):
        return all(ok(e) for e in node.elts)
    if isinstance(node, ast.IfExp):
        return ok(node.test) and ok(node.body) and ok(node.orelse)
    if isinstance(node, ast.Compare):
        return (ok(node.left) and all(ok(c) for c in node.comparators)
                and all(isinstance(o, (ast.Eq, ast.NotEq)) for o in node.ops))
    return False


def _raise_outcome(stmts, fn, names, attrs, table):
    """[local = <text>;]* raise <exception>(<texts>) -> the outcome table[exception]; None when
    the statements do not end in a raise"""
    if not stmts or not isinstance(stmts[-1], ast.Raise):
        return None
    names = set(names)
    for st in stmts[:-1]:
        if (isinstance(st, ast.Assign) and len(st.targets) == 1 and isinstance(st.targets[0], ast.Name)
                and st.targets[0].id not in names and _pure_text(st.value, names, attrs)):
            names.add(st.targets[0].id)
        else:
            raise TranslationError(f"{_where(fn, st)}: statement '{_line(st)}' before a raise is not the building of a message")
    r = stmts[-1]
    e = r.exc
    if (r.cause is None and isinstance(e, ast.Call) and not e.keywords and _src(e.func) in table
            and all(_pure_text(a, names, attrs) for a in e.args)):
        return table[_src(e.func)]
    raise TranslationError(f"{_where(fn, r)}: raise statement '{_line(r)}' is not of a known form "
                           f"(expected one of {sorted(table)})")


def _holder_tree():
    tree = _parse(HOL)
    for m in ("periods", "errors", "commons"):
        _require_import(tree, HOL, "openfisca_core", m)
    for m in ("os", "warnings", "numpy"):
        if not any(isinstance(n, ast.Import) and any(a.name == m and a.asname is None for a in n.names)
                   for n in tree.body):
            raise TranslationError(f"{HOL}: 'import {m}' not found at module level")
    _no_rebinding(tree, HOL, {"periods", "errors", "commons", "ValueError", "isinstance", "len", "float", "int", "str"})
    return tree


def guard_holder_eternal(tree):
    what = "Holder.__init__"
    cls = [n for n in tree.body if isinstance(n, ast.ClassDef) and n.name == "Holder"]
    if len(cls) != 1:
        raise TranslationError("class Holder not found exactly once")
    sets = [n for n in ast.walk(cls[0])
            if isinstance(n, (ast.Assign, ast.AnnAssign, ast.AugAssign))
            and any(isinstance(t, ast.Attribute) and t.attr == "_eternal"
                    for t in (n.targets if isinstance(n, ast.Assign) else [n.target]))]
    init = _func(tree, "__init__", cls="Holder")
    me = init.args.args[0].arg
    top = [n for n in _body(init) if n in sets]
    if len(sets) != 1 or len(top) != 1 or not isinstance(top[0], ast.Assign) or len(top[0].targets) != 1 \
            or _src(top[0].targets[0]) != f"{me}._eternal":
        raise TranslationError(f"{what}: self._eternal is not assigned exactly once, at the top level of __init__")
    if not any(_is(n, f"{me}.variable = {init.args.args[1].arg}", mode="exec") for n in _body(init)):
        raise TranslationError(f"{what}: self.variable is not the first parameter")
    env = _Env(what, allowed=("def_unit",), units={f"{me}.variable.definition_period": "def_unit"})
    return ("(* Holder.__init__: self._eternal *)\n"
            "Definition gen_holder_eternal (def_unit : unit_t) : bool :=\n"
            f"  {_cond(top[0].value, env)}.")


def guard_holder_set_input(tree):
    what = "Holder.set_input"
    fn = _func(tree, "set_input", cls="Holder")
    me, per, arr = _params(fn, 3, what)
    stmts = _body(fn)
    if not stmts or not _is(stmts[0], f"{per} = periods.period({per})", mode="exec"):
        raise TranslationError(f"{what}: expected '{per} = periods.period({per})' first")
    env = _Env(what, allowed=("req_unit", "eternal", "neutralized", "has_rule"),
               units={f"{per}.unit": "req_unit"},
               bools={f"{me}._eternal": "eternal", f"{me}.variable.is_neutralized": "neutralized",
                      f"{me}.variable.set_input": "has_rule"})
    names = {per, arr}
    attrs = {f"{me}.variable.name", f"{me}.variable.definition_period", "os.linesep",
             "periods.DateUnit.ETERNITY", f"{per}.unit", f"{per}.size"}
    evalstr = (f"if {me}.variable.value_type in (float, int) and isinstance({arr}, str):\n"
               f"    {arr} = commons.eval_expression({arr})")

    def outcome(body):
        o = _raise_outcome(body, what, names, attrs, {"errors.PeriodMismatchError": "SOMismatch"})
        if o is not None:
            return o
        b = {}
        if (len(body) == 2 and isinstance(body[0], ast.Assign) and len(body[0].targets) == 1
                and isinstance(body[0].targets[0], ast.Name) and body[0].targets[0].id not in names
                and _pure_text(body[0].value, names, attrs)
                and _is(body[1], f"return warnings.warn({body[0].targets[0].id}, Warning, stacklevel=2)", mode="exec")):
            return "SOIgnored"
        if len(body) == 1 and _is(body[0], f"return {me}.variable.set_input({me}, {per}, {arr})", mode="exec"):
            return "SORule"
        if len(body) == 1 and _is(body[0], f"return {me}._set({per}, {arr})", mode="exec"):
            return "SOSet"
        at = body[-1] if body else fn
        raise TranslationError(f"{_where(what, at)}: outcome '{_line(at)}' is not of a known form")

    lines = []
    rest = stmts[1:]
    for k, st in enumerate(rest):
        if k == len(rest) - 1:
            lines.append(f"  {'else ' if lines else ''}{outcome([st])}.")
        elif _is(st, evalstr, mode="exec"):
            continue                   # text input of a numeric variable: evaluated, then as below
        elif isinstance(st, ast.If) and not st.orelse:
            lines.append(f"  {'else if' if lines else 'if'} {_cond(st.test, env)} then {outcome(st.body)}")
        else:
            raise TranslationError(f"{_where(what, st)}: statement '{_line(st)}' is not 'if <test>: <outcome>'")
    return "\n".join([
        "(* Holder.set_input(period, array) *)",
        "Definition gen_holder_set_input (req_unit : unit_t) (eternal neutralized has_rule : bool) : set_outcome :=",
    ] + lines)


def guard_holder_to_array(tree):
    what = "Holder._to_array"
    fn = _func(tree, "_to_array", cls="Holder")
    me, val = _params(fn, 2, what)
    stmts = _body(fn)
    head = [f"if not isinstance({val}, numpy.ndarray):\n    {val} = numpy.asarray({val})",
            f"if {val}.ndim == 0:\n    {val} = {val}.reshape(1)"]
    for k, h in enumerate(head):
        if k >= len(stmts) or not _is(stmts[k], h, mode="exec"):
            at = stmts[k] if k < len(stmts) else fn
            raise TranslationError(f"{_where(what, at)}: expected '{h.splitlines()[0]} ...', got '{_line(at)}'")
    env = _Env(what, allowed=("len", "count"), ints={f"len({val})": "len", f"{me}.population.count": "count"})
    names = {val}
    attrs = {f"{me}.variable.name", f"{me}.population.count", f"{me}.population.entity.plural"}
    chain = []
    for st in stmts[2:]:
        if not (isinstance(st, ast.If) and not st.orelse and st.body and isinstance(st.body[-1], ast.Raise)):
            break
        # the message may also print len(value)
        body = st.body
        for b in body[:-1]:
            if not (isinstance(b, ast.Assign) and len(b.targets) == 1 and isinstance(b.targets[0], ast.Name)
                    and isinstance(b.value, (ast.JoinedStr, ast.Constant))):
                raise TranslationError(f"{_where(what, b)}: statement '{_line(b)}' before a raise")
            for v in getattr(b.value, "values", []):
                if isinstance(v, ast.FormattedValue) and not (
                        _pure_text(v.value, names, attrs) or _is(v.value, f"len({val})")):
                    raise TranslationError(f"{_where(what, v)}: message part '{_src(v)}' is not expected")
            names.add(b.targets[0].id)
        r = body[-1].exc
        if not (body[-1].cause is None and isinstance(r, ast.Call) and _is(r.func, "ValueError")
                and len(r.args) == 1 and not r.keywords and isinstance(r.args[0], ast.Name) and r.args[0].id in names):
            raise TranslationError(f"{_where(what, body[-1])}: raise statement '{_line(body[-1])}' is not raise ValueError(msg)")
        chain.append((_cond(st.test, env), True))
    if not chain:
        raise TranslationError(f"{what}: no length test found after the conversion to an array")
    return ("(* Holder._to_array: the length test; true = raises ValueError *)\n"
            "Definition gen_to_array_rejects (len count : Z) : bool :=\n" + _render_chain(chain))


def guard_holder_set(tree):
    what = "Holder._set"
    fn = _func(tree, "_set", cls="Holder")
    me, per, val = _params(fn, 3, what)
    stmts = _body(fn)
    if not stmts or not _is(stmts[0], f"{val} = {me}._to_array({val})", mode="exec"):
        raise TranslationError(f"{what}: expected '{val} = {me}._to_array({val})' first")
    env = _Env(what, allowed=("eternal", "period_is_none", "def_unit", "req_unit", "size"),
               units={f"{me}.variable.definition_period": "def_unit", f"{per}.unit": "req_unit"},
               ints={f"{per}.size": "size"},
               bools={f"{me}._eternal": "eternal", f"{per} is None": "period_is_none"})
    names = {per}
    attrs = {f"{me}.variable.name", f"{me}.variable.definition_period", "os.linesep",
             "periods.DateUnit.ETERNITY", f"{per}.unit", f"{per}.size"}
    table = {"ValueError": "SGValueError", "errors.PeriodMismatchError": "SGMismatch"}

    def is_guard(st):
        if not isinstance(st, ast.If) or st.orelse or not st.body:
            return False
        return isinstance(st.body[-1], ast.Raise) or all(is_guard(x) for x in st.body)

    def render(sts, k, ind):
        if not sts:
            return k
        st = sts[0]
        c = _cond(st.test, env)
        cont = render(sts[1:], k, ind)
        if isinstance(st.body[-1], ast.Raise):
            o = _raise_outcome(st.body, what, names, attrs, table)
            return f"if {c} then {o}\n{ind}else {cont}"
        inner = render(st.body, cont, ind + "  ")
        return f"if {c} then ({inner})\n{ind}else {cont}"

    guards = []
    for st in stmts[1:]:
        if not is_guard(st):
            break
        guards.append(st)
    if not guards:
        raise TranslationError(f"{what}: no guard found after the conversion to an array")
    # what follows must not test the period again
    for st in stmts[1 + len(guards):]:
        for n in ast.walk(st):
            if isinstance(n, (ast.Raise, ast.Return)):
                raise TranslationError(f"{_where(what, n)}: '{_line(n)}' after the guards")
    return ("(* Holder._set: the tests between the conversion to an array and the storage *)\n"
            "Definition gen_holder_set_guard (eternal period_is_none : bool) (def_unit req_unit : unit_t) "
            "(size : Z) : set_guard :=\n  " + render(guards, "SGOk", "  ") + ".")


def guard_sim_set_input():
    what = "Simulation.set_input"
    fn = _func(_sim_tree(), "set_input", cls="Simulation")
    a = fn.args
    if a.posonlyargs or a.vararg or a.kwonlyargs or a.kwarg or len(a.args) != 4 or a.defaults or fn.decorator_list:
        raise TranslationError(f"{what}: signature changed ({_src(a)})")
    me, name, per, val = [x.arg for x in a.args]
    stmts = _body(fn)
    if (stmts and isinstance(stmts[0], ast.AnnAssign) and stmts[0].value is None
            and isinstance(stmts[0].target, ast.Name)):
        stmts = stmts[1:]
    b = {"self": me, "name": name, "period": per, "value": val}
    head = ["__b_variable = __r_self.tax_benefit_system.get_variable(__r_name, check_existence=True)",
            "if __r_variable is None:\n    raise errors.VariableNotFoundError(__r_name, __r_self.tax_benefit_system)",
            "__r_period = periods.period(__r_period)"]
    for k, h in enumerate(head):
        if k >= len(stmts) or not _matches(h, stmts[k], b):
            at = stmts[k] if k < len(stmts) else fn
            raise TranslationError(f"{_where(what, at)}: expected '{h.splitlines()[0]} ...', got '{_line(at)}'")
    rest = stmts[3:]
    var = b["variable"]
    if not (len(rest) == 2 and isinstance(rest[0], ast.If) and not rest[0].orelse
            and len(rest[0].body) == 1 and _is(rest[0].body[0], "return", mode="exec")
            and _is(rest[1], f"{me}.get_holder({name}).set_input({per}, {val})", mode="exec")):
        at = rest[0] if rest else fn
        raise TranslationError(f"{_where(what, at)}: expected 'if <test>: return' and then "
                               f"'self.get_holder(name).set_input(period, value)'")
    env = _Env(what, allowed=("has_end", "start_after_end"),
               bools={f"{var}.end is not None": "has_end", f"{per}.start.date > {var}.end": "start_after_end"})
    return ("(* Simulation.set_input: true = the input is dropped (return before the holder is reached) *)\n"
            "Definition gen_sim_set_input_ignored (has_end start_after_end : bool) : bool :=\n"
            f"  if {_cond(rest[0].test, env)} then true\n  else false.")


def render_guards_input():
    tree = _holder_tree()
    parts = [guard_holder_eternal(tree), guard_sim_set_input(), guard_holder_set_input(tree),
             guard_holder_to_array(tree), guard_holder_set(tree)]
    return "\n".join(GUARDS_HEADER) + "\n" + "\n\n".join(parts) + "\n"


# ----------------------------------------------------------------------------
# Coarse plans of Simulation.calculate / _calculate / _check_for_cycle /
# purge_cache_of_invalid_values -> coq/gen/GuardsPlan.v
#
# Every statement is recognised (by a pattern with named holes) and replaced by its tag;
# if / for / try keep their structure.  The ORDER and NESTING of the tags is what is
# translated: moving a statement gives another list, an unknown statement fails closed.
# ----------------------------------------------------------------------------

def _plan(stmts, vocab, b, fn):
    out = []
    for st in stmts:
        if isinstance(st, ast.AnnAssign) and st.value is None and isinstance(st.target, ast.Name):
            continue                               # bare local annotation: no run-time effect
        if (isinstance(st, ast.Assign) and len(st.targets) == 1 and isinstance(st.targets[0], ast.Name)
                and (isinstance(st.value, ast.JoinedStr)
                     or (isinstance(st.value, ast.Constant) and isinstance(st.value.value, str)))
                and st.targets[0].id not in [v for k, v in b.items() if k != "@msgs"]):
            b.setdefault("@msgs", set()).add(st.targets[0].id)
            continue                               # the text of an error message
        for src, tag in vocab.get("stmts", []):
            if _matches(src, st, b):
                if tag is not None:
                    out.append(f"Do {tag}")
                break
        else:
            if isinstance(st, ast.If) and not st.orelse:
                for src, tag in vocab.get("tests", []):
                    if _matches(src, st.test, b, mode="eval"):
                        out.append(f"IfThen {tag} {_plan_list(_plan(st.body, vocab, b, fn))}")
                        break
                else:
                    raise TranslationError(f"{_where(fn, st)}: test '{_src(st.test)}' is not a known step")
            elif isinstance(st, ast.For) and not st.orelse:
                for src, tag in vocab.get("iters", []):
                    p = _pat(src)
                    trial = dict(b)
                    if _pmatch(p.iter, st.iter, trial) and _pmatch(p.target, st.target, trial):
                        b.update(trial)
                        out.append(f"ForEach {tag} {_plan_list(_plan(st.body, vocab, b, fn))}")
                        break
                else:
                    raise TranslationError(f"{_where(fn, st)}: loop '{_line(st)}' is not a known step")
            elif isinstance(st, ast.Try) and not st.orelse:
                body = _plan(st.body, vocab, b, fn)
                hs = []
                for h in st.handlers:
                    for src, tag in vocab.get("excs", []):
                        if h.name is None and h.type is not None and _matches(src, h.type, b, mode="eval"):
                            hs.append(f"({tag}, {_plan_list(_plan(h.body, vocab, b, fn))})")
                            break
                    else:
                        raise TranslationError(f"{_where(fn, h)}: handler '{_line(h)}' is not a known step")
                final = _plan(st.finalbody, vocab, b, fn)
                out.append(f"TryExceptFinally {_plan_list(body)} [{'; '.join(hs)}] {_plan_list(final)}")
            else:
                raise TranslationError(f"{_where(fn, st)}: statement '{_line(st)}' is not a known step")
    return out


def _plan_list(items):
    return "[" + "; ".join(items) + "]"


def _render_plan(name, comment, items):
    lines = [f"(* {comment} *)", f"Definition {name} : list step :=", "  ["]
    lines += [f"    {it}{';' if k < len(items) - 1 else ''}" for k, it in enumerate(items)]
    lines.append("  ].")
    return "\n".join(lines)


def plan_calculate(tree):
    what = "Simulation.calculate"
    fn = _func(tree, "calculate", cls="Simulation")
    me, name, per = _params(fn, 3, what)
    b = {"self": me, "name": name, "period": per}
    vocab = {
        "stmts": [
            ("if __r_period is not None and not isinstance(__r_period, periods.Period):\n"
             "    __r_period = periods.period(__r_period)", "ANormPeriod"),
            ("__r_self.tracer.record_calculation_start(__r_name, __r_period)", "APush"),
            ("__b_result = __r_self._calculate(__r_name, __r_period)", "ACalculate"),
            ("__r_self.tracer.record_calculation_result(__r_result)", "ARecordResult"),
            ("return __r_result", "AReturnResult"),
            ("__r_self.tracer.record_calculation_end()", "APop"),
            ("__r_self.purge_cache_of_invalid_values()", "APurge"),
        ],
    }
    return _render_plan("gen_calculate_plan", what, _plan(_body(fn), vocab, b, what))


def plan__calculate(tree):
    what = "Simulation._calculate"
    fn = _func(tree, "_calculate", cls="Simulation")
    me, name, per = _params(fn, 3, what)
    b = {"self": me, "name": name, "period": per}
    vocab = {
        "stmts": [
            ("__b_population = __r_self.get_variable_population(__r_name)", "AGetPopulation"),
            ("__b_holder = __r_population.get_holder(__r_name)", "AGetHolder"),
            ("__b_variable = __r_self.tax_benefit_system.get_variable(__r_name, check_existence=True)", "AGetVariable"),
            ("raise errors.VariableNotFoundError(__r_name, __r_self.tax_benefit_system)", "ARaiseNotFound"),
            ("__r_self._check_period_consistency(__r_period, __r_variable)", "ACheckConsistency"),
            ("__b_cached = __r_holder.get_array(__r_period)", "ACacheLookup"),
            ('__r_self.invalidate_cache_entry(str(__r_frame["name"]), __r_frame["period"])', "AMarkFrame"),
            ("return __r_cached", "AReturnCached"),
            ("__b_array = None", "AInitNone"),
            ("__r_self._check_for_cycle(__r_variable.name, __r_period)", "ACheckForCycle"),
            ("__b_array = __r_self._run_formula(__r_variable, __r_population, __r_period)", "ARunFormula"),
            ("__b_array = __r_holder.default_array()", "ADefaultArray"),
            ("__b_array = __r_self._cast_formula_result(__r_array, __r_variable)", "ACast"),
            ("__r_holder.put_in_cache(__r_array, __r_period)", "APutInCache"),
            ("return __r_array", "AReturnArray"),
        ],
        "tests": [
            ("__r_variable is None", "TVariableIsNone"),
            ("__r_cached is not None", "TCachedIsNotNone"),
            ("Cache(__r_name, __r_period) in __r_self.invalidated_caches", "TKeyInvalidated"),
            ("__r_array is None", "TArrayIsNone"),
        ],
        "iters": [("for __b_frame in __r_self.tracer.stack:\n    pass", "IStackFrames")],
        "excs": [("errors.SpiralError", "XSpiralError")],
    }
    return _render_plan("gen__calculate_plan", what, _plan(_body(fn), vocab, b, what))


def plan_check_for_cycle(tree):
    what = "Simulation._check_for_cycle"
    fn = _func(tree, "_check_for_cycle", cls="Simulation")
    me, var, per = _params(fn, 3, what)
    b = {"self": me, "variable": var, "period": per}
    vocab = {
        "stmts": [
            ('__b_previous = [__b_frame["period"] for __b_frame in __r_self.tracer.stack[:-1] '
             'if __b_frame["name"] == __r_variable]', "APreviousPeriodsExcludeLast"),
            ("raise errors.CycleError(__m_text)", "ARaiseCycle"),
            ("__b_spiral = len(__r_previous) >= __r_self.max_spiral_loops", "ASpiralIfLenGeMax"),
            ("__r_self.invalidate_spiral_variables(__r_variable)", "AInvalidateSpiral"),
            ("raise errors.SpiralError(__m_text, __r_variable)", "ARaiseSpiral"),
        ],
        "tests": [
            ("__r_period in __r_previous", "TPeriodInPrevious"),
            ("__r_spiral", "TSpiral"),
        ],
    }
    return _render_plan("gen_check_for_cycle_plan", what, _plan(_body(fn), vocab, b, what))


def plan_purge(tree):
    what = "Simulation.purge_cache_of_invalid_values"
    fn = _func(tree, "purge_cache_of_invalid_values", cls="Simulation")
    (me,) = _params(fn, 1, what)
    b = {"self": me}
    vocab = {
        "stmts": [
            ("return", "AReturn"),
            ("__b_holder = __r_self.get_holder(__r_entry_name)", "AGetHolderOfEntry"),
            ("__r_holder.delete_arrays(__r_entry_period)", "ADeleteArrays"),
            ("__r_self.invalidated_caches = set()", "AResetInvalidated"),
        ],
        "tests": [("__r_self.tracer.stack", "TStackNonEmpty")],
        "iters": [("for __b_entry_name, __b_entry_period in __r_self.invalidated_caches:\n    pass",
                   "IInvalidatedEntries")],
    }
    return _render_plan("gen_purge_plan", what, _plan(_body(fn), vocab, b, what))


def render_guards_plan():
    tree = _sim_tree()
    _no_rebinding(tree, SIM, {"set", "len", "str"})
    cache = [n for n in tree.body if isinstance(n, ast.ClassDef) and n.name == "Cache"]
    if len(cache) != 1:
        raise TranslationError(f"{SIM}: class Cache not found exactly once")
    parts = [plan_calculate(tree), plan__calculate(tree), plan_check_for_cycle(tree), plan_purge(tree)]
    return "\n".join(GUARDS_HEADER) + "\n" + "\n\n".join(parts) + "\n"


# ----------------------------------------------------------------------------
# InMemoryStorage / OnDiskStorage get / put / delete / get_known_periods
#   -> coq/gen/GuardsStorage.v
# ----------------------------------------------------------------------------

MEM = "openfisca_core/data_storage/in_memory_storage.py"
DSK = "openfisca_core/data_storage/on_disk_storage.py"


def _storage(rel, cls, attr, prefix, eternal_pos, put_payload, put_final, get_return):
    tree = _parse(rel)
    _require_import(tree, rel, "openfisca_core", "periods")
    _require_import(tree, rel, "openfisca_core.periods", "DateUnit")
    _no_rebinding(tree, rel, {"periods", "DateUnit", "str", "isinstance"})
    cdef = [n for n in tree.body if isinstance(n, ast.ClassDef) and n.name == cls]
    if len(cdef) != 1:
        raise TranslationError(f"{rel}: class {cls} not found exactly once")
    init = _func(tree, "__init__", cls=cls)
    me = init.args.args[0].arg
    if len(init.args.args) <= eternal_pos or init.args.args[eternal_pos].arg != "is_eternal":
        raise TranslationError(f"{cls}.__init__: parameter {eternal_pos} is not is_eternal")
    for want in (f"{me}.is_eternal = is_eternal", f"{me}.{attr} = {{}}"):
        if not any(_is(n, want, mode="exec") for n in _body(init)):
            raise TranslationError(f"{cls}.__init__: '{want}' not found")
    for fn in cdef[0].body:
        if isinstance(fn, ast.FunctionDef) and fn.name != "__init__":
            for n in ast.walk(fn):
                tg = (n.targets if isinstance(n, ast.Assign) else
                      [n.target] if isinstance(n, (ast.AnnAssign, ast.AugAssign)) else [])
                if any(isinstance(t, ast.Attribute) and t.attr == "is_eternal" for t in tg):
                    raise TranslationError(f"{cls}.{fn.name}: is_eternal is assigned outside __init__")

    def env_for(what, me, per):
        return _Env(what, allowed=("is_eternal", "period_is_none"),
                    bools={f"{me}.is_eternal": "is_eternal", f"{per} is None": "period_is_none"})

    def key(stmts, what, me, per):
        """[if <test>: period = periods.period(DateUnit.ETERNITY)]; period = periods.period(period)
        -> (key_choice term, remaining statements)"""
        term = "KGiven"
        if (stmts and isinstance(stmts[0], ast.If) and not stmts[0].orelse and len(stmts[0].body) == 1
                and _is(stmts[0].body[0], f"{per} = periods.period(DateUnit.ETERNITY)", mode="exec")):
            term = f"if {_cond(stmts[0].test, env_for(what, me, per))} then KEternity else KGiven"
            stmts = stmts[1:]
        if not stmts or not _is(stmts[0], f"{per} = periods.period({per})", mode="exec"):
            at = stmts[0] if stmts else None
            raise TranslationError(f"{what}: expected '[if ...: {per} = periods.period(DateUnit.ETERNITY)]; "
                                   f"{per} = periods.period({per})', got '{_line(at) if at is not None else 'nothing'}'")
        return term, stmts[1:]

    def expect(stmts, pats, what, b):
        if len(stmts) != len(pats):
            raise TranslationError(f"{what}: {len(stmts)} statements after the key, expected {len(pats)}")
        for st, p in zip(stmts, pats):
            if not _matches(p, st, b):
                raise TranslationError(f"{_where(what, st)}: expected '{p.splitlines()[0]} ...', got '{_line(st)}'")

    sig = "(is_eternal period_is_none : bool)"
    out = []
    # get
    what = f"{cls}.get"
    fn = _func(tree, "get", cls=cls)
    a = fn.args
    if len(a.args) != 2 or len(a.defaults) != 1 or not _is(a.defaults[0], "None") or a.vararg or a.kwarg or a.kwonlyargs:
        raise TranslationError(f"{what}: signature changed ({_src(a)})")
    me, per = a.args[0].arg, a.args[1].arg
    term, rest = key(_body(fn), what, me, per)
    expect(rest, [f"__b_values = {me}.{attr}.get({per})", "if __r_values is None:\n    return None", get_return.format(me=me)],
           what, {})
    out += [f"(* {what}: the key the value is read under *)",
            f"Definition gen_{prefix}_get_key {sig} : key_choice :=\n  {term}."]
    # put
    what = f"{cls}.put"
    fn = _func(tree, "put", cls=cls)
    me, val, per = _params(fn, 3, what)
    term, rest = key(_body(fn), what, me, per)
    b = {"value": val}
    expect(rest, [p.format(me=me, per=per) for p in put_payload] + [put_final.format(me=me, per=per, attr=attr)], what, b)
    out += ["", f"(* {what}: the key the value is stored under *)",
            f"Definition gen_{prefix}_put_key {sig} : key_choice :=\n  {term}."]
    # delete
    what = f"{cls}.delete"
    fn = _func(tree, "delete", cls=cls)
    a = fn.args
    if len(a.args) != 2 or len(a.defaults) != 1 or not _is(a.defaults[0], "None") or a.vararg or a.kwarg or a.kwonlyargs:
        raise TranslationError(f"{what}: signature changed ({_src(a)})")
    me, per = a.args[0].arg, a.args[1].arg
    stmts = _body(fn)
    if not (stmts and isinstance(stmts[0], ast.If) and not stmts[0].orelse and len(stmts[0].body) == 2
            and _is(stmts[0].body[0], f"{me}.{attr} = {{}}", mode="exec") and _is(stmts[0].body[1], "return", mode="exec")):
        raise TranslationError(f"{what}: expected 'if <test>: {me}.{attr} = {{}}; return' first")
    c_all = _cond(stmts[0].test, env_for(what, me, per))
    term, rest = key(stmts[1:], what, me, per)
    expect(rest, [f"{me}.{attr} = {{__b_item: __b_v for __b_item, __b_v in {me}.{attr}.items() "
                  f"if not {per}.contains(__b_item)}}"], what, {})
    out += ["", f"(* {what}: everything, or the entries whose period is contained in the (normalised) period *)",
            f"Definition gen_{prefix}_delete {sig} : delete_rule :=\n"
            f"  if {c_all} then DeleteAll\n  else DeleteContained ({term})."]
    # get_known_periods
    what = f"{cls}.get_known_periods"
    fn = _func(tree, "get_known_periods", cls=cls)
    (me,) = _params(fn, 1, what)
    expect(_body(fn), [f"return {me}.{attr}.keys()"], what, {})
    return "\n".join(out)


def render_guards_storage():
    mem = _storage(MEM, "InMemoryStorage", "_arrays", "memory", 1, [],
                   "{me}.{attr}[{per}] = __r_value", "return __r_values")
    dsk = _storage(DSK, "OnDiskStorage", "_files", "disk", 2,
                   ["__b_filename = str({per})",
                    '__b_path = os.path.join({me}.storage_dir, __r_filename) + ".npy"',
                    "if isinstance(__r_value, EnumArray) and __r_value.possible_values is not None:\n"
                    "    {me}._enums[{me}.storage_dir] = __r_value.possible_values\n"
                    "    __r_value = __r_value.view(numpy.ndarray)",
                    "if __r_value.dtype == object:\n    __r_value = __r_value.astype(str)",
                    "numpy.save(__r_path, __r_value)"],
                   "{me}.{attr}[{per}] = __r_path", "return {me}._decode_file(__r_values)")
    return "\n".join(GUARDS_HEADER) + "\n" + mem + "\n\n" + dsk + "\n"


# ----------------------------------------------------------------------------
# Holder.get_array / put_in_cache / _set (store selection) / delete_arrays and the
# construction of the two storages -> coq/gen/GuardsHolder.v
# ----------------------------------------------------------------------------

def render_guards_holder():
    tree = _holder_tree()
    ok = any(isinstance(n, ast.ImportFrom) and n.module == "openfisca_core" and n.level == 0
             and any(a.name == "data_storage" and a.asname == "storage" for a in n.names) for n in tree.body)
    if not ok:
        raise TranslationError(f"{HOL}: 'from openfisca_core import data_storage as storage' not found")
    _no_rebinding(tree, HOL, {"storage"})
    cls = [n for n in tree.body if isinstance(n, ast.ClassDef) and n.name == "Holder"][0]
    # both storages are built with is_eternal = self._eternal, everywhere in the class
    n_mem = n_dsk = 0
    for n in ast.walk(cls):
        if isinstance(n, ast.Call) and _src(n.func) == "storage.InMemoryStorage":
            n_mem += 1
            if not _is(n, "storage.InMemoryStorage(is_eternal=self._eternal)"):
                raise TranslationError(f"Holder: line {n.lineno}: '{_src(n)}' is not storage.InMemoryStorage(is_eternal=self._eternal)")
        if isinstance(n, ast.Call) and _src(n.func) == "storage.OnDiskStorage":
            n_dsk += 1
            b = {}
            if not _matches("storage.OnDiskStorage(__b_dir, self._eternal, preserve_storage_dir=__b_keep)", n, b, mode="eval"):
                raise TranslationError(f"Holder: line {n.lineno}: '{_src(n)}' is not storage.OnDiskStorage(<dir>, self._eternal, preserve_storage_dir=<flag>)")
    if n_mem < 1 or n_dsk < 1:
        raise TranslationError("Holder: the construction of the memory / disk storage was not found")
    init = _func(tree, "__init__", cls="Holder")
    if not any(_is(n, "self._memory_storage = storage.InMemoryStorage(is_eternal=self._eternal)", mode="exec")
               for n in _body(init)):
        raise TranslationError("Holder.__init__: self._memory_storage is not the InMemoryStorage built with self._eternal")

    out = []
    # get_array
    what = "Holder.get_array"
    fn = _func(tree, "get_array", cls="Holder")
    me, per = _params(fn, 2, what)
    stmts = _body(fn)
    bools = {f"{me}.variable.is_neutralized": "neutralized", f"{me}._disk_storage": "has_disk"}
    srcs = {f"return {me}.default_array()": "GDefault", f"return {me}._disk_storage.get({per})": "GDisk",
            "return None": "GNothing"}
    lines, b = [], {}
    for k, st in enumerate(stmts):
        env = _Env(what, allowed=("neutralized", "memory_hit", "has_disk"), bools=bools)
        if _matches(f"__b_value = {me}._memory_storage.get({per})", st, b):
            if "value" in b and b["value"] in (me, per):
                raise TranslationError(f"{_where(what, st)}: the memory lookup overwrites a parameter")
            bools[f"{b['value']} is not None"] = "memory_hit"
            srcs[f"return {b['value']}"] = "GMemory"
            continue
        body = st.body if isinstance(st, ast.If) and not st.orelse and len(st.body) == 1 else [st]
        o = [v for p, v in srcs.items() if _is(body[0], p, mode="exec")]
        if not o:
            raise TranslationError(f"{_where(what, body[0])}: outcome '{_line(body[0])}' is not of a known form")
        if isinstance(st, ast.If):
            if k == len(stmts) - 1:
                raise TranslationError(f"{what}: the last statement is conditional")
            lines.append(f"  {'else if' if lines else 'if'} {_cond(st.test, env)} then {o[0]}")
        elif k == len(stmts) - 1:
            lines.append(f"  {'else ' if lines else ''}{o[0]}.")
        else:
            raise TranslationError(f"{_where(what, st)}: unconditional '{_line(st)}' before the end")
    if "value" not in b:
        raise TranslationError(f"{what}: the memory storage is not read")
    out += ["(* Holder.get_array(period): where the answer comes from; memory_hit = the memory storage has a value *)",
            "Definition gen_holder_get_array (neutralized memory_hit has_disk : bool) : get_source :="] + lines

    # put_in_cache
    what = "Holder.put_in_cache"
    fn = _func(tree, "put_in_cache", cls="Holder")
    me, val, per = _params(fn, 3, what)
    env = _Env(what, allowed=("do_not_store", "opt_out_cache", "blacklist_nonempty", "name_in_blacklist"),
               bools={f"{me}._do_not_store": "do_not_store", f"{me}.simulation.opt_out_cache": "opt_out_cache",
                      f"{me}.simulation.tax_benefit_system.cache_blacklist": "blacklist_nonempty",
                      f"{me}.variable.name in {me}.simulation.tax_benefit_system.cache_blacklist": "name_in_blacklist"})
    stmts = _body(fn)
    lines = []
    for k, st in enumerate(stmts):
        if k == len(stmts) - 1:
            if not _is(st, f"{me}._set({per}, {val})", mode="exec"):
                raise TranslationError(f"{_where(what, st)}: expected '{me}._set({per}, {val})' last, got '{_line(st)}'")
            lines.append(f"  {'else ' if lines else ''}PSet.")
        elif (isinstance(st, ast.If) and not st.orelse and len(st.body) == 1 and _is(st.body[0], "return", mode="exec")):
            lines.append(f"  {'else if' if lines else 'if'} {_cond(st.test, env)} then PSkip")
        else:
            raise TranslationError(f"{_where(what, st)}: statement '{_line(st)}' is not 'if <test>: return'")
    out += ["", "(* Holder.put_in_cache(value, period) *)",
            "Definition gen_holder_put_in_cache (do_not_store opt_out_cache blacklist_nonempty name_in_blacklist : bool) "
            ": put_outcome :="] + lines

    # _set: which storage (the guards before are in GuardsInput.v)
    what = "Holder._set"
    fn = _func(tree, "_set", cls="Holder")
    me, per, val = _params(fn, 3, what)
    stmts = _body(fn)
    if len(stmts) < 2:
        raise TranslationError(f"{what}: body too short")
    b = {}
    sel, fin = stmts[-2], stmts[-1]
    if not (isinstance(sel, ast.Assign) and len(sel.targets) == 1 and isinstance(sel.targets[0], ast.Name)
            and sel.targets[0].id not in (me, per, val)):
        raise TranslationError(f"{_where(what, sel)}: expected '<flag> = <store selection>' before the storage, got '{_line(sel)}'")
    flag = sel.targets[0].id
    env = _Env(what, allowed=("on_disk_storable", "memory_has_value", "memory_pressure"),
               bools={f"{me}._on_disk_storable": "on_disk_storable",
                      f"{me}._memory_storage.get({per}) is None": "(negb memory_has_value)",
                      f"psutil.virtual_memory().percent >= {me}.simulation.memory_config.max_memory_occupation_pc":
                          "memory_pressure"})
    env.allowed.add("(negb memory_has_value)")
    c = _cond(sel.value, env)
    want = (f"if {flag}:\n    {me}._disk_storage.put({val}, {per})\nelse:\n    {me}._memory_storage.put({val}, {per})")
    if not _is(fin, want, mode="exec"):
        raise TranslationError(f"{_where(what, fin)}: expected 'if {flag}: disk put else: memory put', got '{_line(fin)}'")
    out += ["", "(* Holder._set: which storage receives the array *)",
            "Definition gen_holder_store_choice (on_disk_storable memory_has_value memory_pressure : bool) : store_choice :=",
            f"  if {c} then StDisk else StMemory."]

    # delete_arrays: both storages, same argument
    what = "Holder.delete_arrays"
    fn = _func(tree, "delete_arrays", cls="Holder")
    a = fn.args
    if len(a.args) != 2 or len(a.defaults) != 1 or not _is(a.defaults[0], "None"):
        raise TranslationError(f"{what}: signature changed ({_src(a)})")
    me, per = a.args[0].arg, a.args[1].arg
    want = [f"{me}._memory_storage.delete({per})", f"if {me}._disk_storage:\n    {me}._disk_storage.delete({per})"]
    stmts = _body(fn)
    if len(stmts) != 2 or not all(_is(x, w, mode="exec") for x, w in zip(stmts, want)):
        raise TranslationError(f"{what}: expected the deletion in the memory storage, then in the disk storage if any")
    return "\n".join(GUARDS_HEADER) + "\n" + "\n".join(out) + "\n"


# ----------------------------------------------------------------------------
# Variable.get_formula -> coq/gen/GuardsFormula.v
# ----------------------------------------------------------------------------

VAR = "openfisca_core/variables/variable.py"


def render_guards_formula():
    what = "Variable.get_formula"
    tree = _parse(VAR)
    _require_import(tree, VAR, "openfisca_core", "periods")
    _require_import(tree, VAR, "openfisca_core.periods", "Period")
    _no_rebinding(tree, VAR, {"periods", "Period", "reversed", "str", "isinstance", "ValueError"})
    fn = _func(tree, "get_formula", cls="Variable")
    a = fn.args
    if len(a.args) != 2 or len(a.defaults) != 1 or not _is(a.defaults[0], "None") or a.vararg or a.kwarg or a.kwonlyargs:
        raise TranslationError(f"{what}: signature changed ({_src(a)})")
    me, per = a.args[0].arg, a.args[1].arg
    stmts = [st for st in _body(fn)
             if not (isinstance(st, ast.AnnAssign) and st.value is None and isinstance(st.target, ast.Name))]
    bools = {f"{me}.formulas": "has_formulas", f"{per} is None": "period_is_none"}
    allowed = ["has_formulas", "period_is_none"]
    outcomes = {"return None": "FNone", f"return {me}.formulas.peekitem(index=0)[1]": "FOldest"}
    b = {"self": me, "period": per}
    instant_pat = ("if isinstance(__r_period, Period):\n    __b_instant = __r_period.start\n"
                   "else:\n    try:\n        __b_instant = periods.period(__r_period).start\n"
                   "    except ValueError:\n        __b_instant = periods.instant(__r_period)")
    lines = []
    stage = 0          # 0: before the instant, 1: instant known, 2: its text known
    k = 0
    while k < len(stmts):
        st = stmts[k]
        if stage == 0 and _matches(instant_pat, st, b):
            ins = b["instant"]
            bools[f"{ins} is None"] = "instant_is_none"
            bools[f"{me}.end"] = "has_end"
            bools[f"{ins}.date > {me}.end"] = "after_end"
            allowed += ["instant_is_none", "has_end", "after_end"]
            stage = 1
        elif stage == 1 and _matches("__b_text = str(__r_instant)", st, b):
            stage = 2
            break
        elif isinstance(st, ast.If) and not st.orelse and len(st.body) == 1:
            o = [v for p, v in outcomes.items() if _is(st.body[0], p, mode="exec")]
            if not o:
                raise TranslationError(f"{_where(what, st.body[0])}: outcome '{_line(st.body[0])}' is not of a known form")
            env = _Env(what, allowed=allowed, bools=bools)
            lines.append(f"  {'else if' if lines else 'if'} {_cond(st.test, env)} then {o[0]}")
        else:
            raise TranslationError(f"{_where(what, st)}: statement '{_line(st)}' is not a known step of get_formula")
        k += 1
    rest = stmts[k + 1:]
    if stage != 2 or len(rest) != 2:
        raise TranslationError(f"{what}: expected, after the tests, the text of the instant, the scan of the start dates and 'return None'")
    scan = None
    for dsrc, dtag in (("reversed(__r_self.formulas)", "ScanReversed"), ("__r_self.formulas", "ScanForward")):
        for csrc, ctag in (("<=", "CmpLe"), ("<", "CmpLt"), (">=", "CmpGe"), (">", "CmpGt")):
            p = (f"for __b_start in {dsrc}:\n    if __r_start {csrc} __r_text:\n"
                 f"        return __r_self.formulas[__r_start]")
            if _matches(p, rest[0], dict(b)):
                scan = f"ScanFirst {dtag} {ctag}"
    if scan is None:
        raise TranslationError(f"{_where(what, rest[0])}: the scan '{_line(rest[0])}' is not 'for start in [reversed](self.formulas): "
                               f"if start <cmp> text: return self.formulas[start]'")
    if not _is(rest[1], "return None", mode="exec"):
        raise TranslationError(f"{_where(what, rest[1])}: expected 'return None' after the scan")
    lines.append(f"  {'else ' if lines else ''}FScan.")
    return "\n".join(GUARDS_HEADER + [
        "(* Variable.get_formula(period): the tests before the scan of the start dates *)",
        "Definition gen_formula_guard (has_formulas period_is_none instant_is_none has_end after_end : bool) "
        ": formula_outcome :=",
    ] + lines + [
        "",
        "(* Variable.get_formula(period): the scan; nothing found = None *)",
        f"Definition gen_formula_scan : scan_rule := {scan}.",
        "",
    ])


def render_guards():
    parts = [guard_check_consistency(), guard_add(), guard_divide(), guard_dispatch()]
    return "\n".join(GUARDS_HEADER) + "\n" + "\n\n".join(parts) + "\n"


def render_guards_failure(err):
    """A Guards.v that cannot be compiled: whatever is proved against the regenerated
    guards is no longer shown to hold, and says why."""
    msg = str(err).encode("ascii", "replace").decode().replace('"', "'").replace("\n", " ")
    return "\n".join(GUARDS_HEADER + [
        "(* TRANSLATION FAILED: the source no longer has a shape the translator recognises. *)",
        "From Coq Require Import String.",
        "Open Scope string_scope.",
        f'Definition TRANSLATION_FAILED : False := "gen_tables: TRANSLATION FAILED: {msg}".',
        "",
    ])


def render():
    w = unit_weights()
    isoformat = unit_tuple("isoformat")
    isocalendar = unit_tuple("isocalendar")
    msl = max_spiral_loops_default()
    lines = [
        "(* GENERATED by harness/gen_tables.py from /repo sources - do not edit. *)",
        "From Coq Require Import ZArith List.",
        "From Verif Require Import Base.",
        "Import ListNotations.",
        "Open Scope Z_scope.",
        "",
        "(* openfisca_core/periods/helpers.py: unit_weights() *)",
        "Definition unit_weight (u : unit_t) : Z :=",
        "  match u with",
    ]
    for u in ["Weekday", "Week", "Day", "Month", "Year", "Eternity"]:
        lines.append(f"  | {u} => {w[u]}")
    lines += [
        "  end.",
        "",
        "(* openfisca_core/periods/date_unit.py: DateUnit.isoformat / DateUnit.isocalendar *)",
        f"Definition units_isoformat : list unit_t := [{'; '.join(isoformat)}].",
        f"Definition units_isocalendar : list unit_t := [{'; '.join(isocalendar)}].",
        "",
        "(* openfisca_core/simulations/simulation.py: Simulation.__init__ *)",
        f"Definition max_spiral_loops_default : Z := {msl}.",
        "",
    ]
    return "\n".join(lines)


LAST_GUARD_ERROR = None

# generated file -> renderer.  One file per group of decisions: a function that cannot be
# translated breaks only the proof obligations stated against its own file.
GENERATED = [
    ("Guards.v", lambda: render_guards()),                 # engine guards            (props/C03.v)
    ("GuardsPeriod.v", lambda: render_guards_period()),    # Period.get_subperiods    (props/C04.v)
    ("GuardsInput.v", lambda: render_guards_input()),      # set_input routing        (props/C16.v, C18.v)
    ("GuardsPlan.v", lambda: render_guards_plan()),        # order of the evaluator   (props/C18.v)
    ("GuardsStorage.v", lambda: render_guards_storage()),  # memory / disk storages   (props/C17.v)
    ("GuardsHolder.v", lambda: render_guards_holder()),    # holder: where values live (props/C17.v)
    ("GuardsFormula.v", lambda: render_guards_formula()),  # Variable.get_formula     (props/C01.v)
]


def _write(p, text):
    if not p.exists() or p.read_text() != text:
        p.parent.mkdir(parents=True, exist_ok=True)
        p.write_text(text)
        return True
    return False


def main(out_path):
    """Writes <out_path> (Tables.v) and the Guards*.v files next to it.  A table that cannot be
    translated raises TranslationError (nothing can be built).  A decision structure that
    cannot be translated leaves a Guards.v that does not compile and carries the message:
    every proof obligation stated against the regenerated guards fails, the rest of the
    development (and the model side of the correspondence) still builds."""
    global LAST_GUARD_ERROR
    p = pathlib.Path(out_path)
    changed = _write(p, render())
    LAST_GUARD_ERROR = None
    for name, fn in GENERATED:
        try:
            text = fn()
        except TranslationError as e:
            text = render_guards_failure(e)
            LAST_GUARD_ERROR = str(e)
            print(f"gen_tables: TRANSLATION FAILED ({name}): {e}", file=sys.stderr)
        changed = _write(p.parent / name, text) or changed
    return changed


if __name__ == "__main__":
    try:
        changed = main(sys.argv[1] if len(sys.argv) > 1 else "/verif/coq/gen/Tables.v")
    except TranslationError as e:
        print(f"gen_tables: TRANSLATION FAILED: {e}", file=sys.stderr)
        sys.exit(2)
    if LAST_GUARD_ERROR is not None:
        sys.exit(2)
    print("gen_tables: " + ("rewritten" if changed else "unchanged"))
