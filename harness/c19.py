"""C19 - a dumped simulation restores to the same values and entity structure.

Two streams of cases.

"eng": a rule system of harness/rules.py (compiled to REAL Variable subclasses), with or
without the group entity (persons-only tax-benefit system), a population (person ids,
group ids, memberships, roles, member-less groups including trailing ones), an optional
memory configuration that puts every array on disk, requests before the dump (inputs and
calculations), then

    dump_simulation(sim, <tmp>/dump)        (tmp = /root/scratch/c19-run-*, removed per case)
    restored = restore_simulation(<tmp>/dump, tbs)

and requests after it, run on BOTH the original and the restored simulation; the same
directory is then restored three more times (while the first restored simulation is alive,
after a restored simulation has been deleted and collected) and every one of them is
compared with the original, as is the file set of the dump directory (restore only reads:
in the model restore_simulation is a function of the file system).  The Coq
model (coq/model/Dump.v over coq/model/Engine.v) is given the same case and must reproduce
the answers, both caches, both entity structures and the number of files per variable
directory.

"rich": oracle only (the engine model has int / float / bool values and one group entity):
a fixed tax-benefit system built here with Enum, str, date, float, int and bool variables
of every definition period (eternity, year, month, day, week, weekday), two group entities
(one with sub-roles), formulas over them; same dump / restore / later-requests protocol.

The oracle is the property's text evaluated on the two real simulations, independently of
the Coq model: see oracle().
"""
from __future__ import annotations

import copy
import datetime
import gc
import hashlib
import json
import os
import random
import shutil
import tempfile
import warnings

import numpy

import rules
from common import Err, errkind

from openfisca_core import periods, populations
from openfisca_core.entities import build_entity
from openfisca_core.experimental import MemoryConfig
from openfisca_core.indexed_enums import Enum, EnumArray
from openfisca_core.parameters import ParameterNode
from openfisca_core.periods import DateUnit
from openfisca_core.simulations.simulation_builder import SimulationBuilder
from openfisca_core.taxbenefitsystems import TaxBenefitSystem
from openfisca_core.tools.simulation_dumper import dump_simulation, restore_simulation
from openfisca_core.variables import Variable

PROP = "C19"
COQ_HEADER = "From Verif Require Import Np Group Param Engine CorrEng Dump Corr_C19."
COQ_RUN = "Corr_C19.run"
SHARD = 12
ANCHORS = ["openfisca_core/tools/simulation_dumper.py", "openfisca_core/data_storage/on_disk_storage.py",
           "openfisca_core/periods/period_.py", "openfisca_core/periods/helpers.py",
           "openfisca_core/holders/holder.py", "openfisca_core/populations/group_population.py"]
RULE = ("stream 'eng' (5 of 6 cases): random rule systems of harness/rules.py (3-8 variables, every definition period "
        "incl. eternity / week / weekday, int / float / bool, dated formulas, ADD / DIVIDE, group aggregations with "
        "roles), with or without the group entity (persons-only), populations with arbitrary distinct person and "
        "group ids, interleaved memberships, roles, member-less groups (often trailing), for half of the group "
        "populations members_position set explicitly to a within-group permutation that differs from the order of "
        "appearance (value_nth_person / value_from_first_person / get_rank compared original vs restored), optionally every array on "
        "disk; inputs (incl. rolling years, every month, odd days) and calculations, then dump_simulation / "
        "restore_simulation in a scratch directory, for a third of the cases with keyword options (opt_out_cache with a "
        "non-empty cache_blacklist, trace, memory_config with variables_to_drop) that must not change what is restored (the same dump is restored four times in all, with deletion / "
        "gc.collect() of restored simulations in between, each compared with the original, and the directory's file "
        "set must not change), then further requests (calculations, inputs, deletions) on both "
        "simulations; a few dumps into a non-empty directory.  stream 'rich' (oracle only): fixed system with Enum / "
        "str / date / float / int / bool variables of all six definition periods, two group entities (sub-roles), "
        "formulas over them, a third of the int / float / date input arrays with extreme values (INT32_MIN / MAX, "
        "+-2^24+-1, type-width boundaries, +-inf, NaN, -0.0, denormals, dates 0001-01-01 .. 9999-12-31, alone or as a "
        "sentinel among small values), same protocol; plus 6 big populations (a group of 300 / 70000 members next to tiny "
        "ones, 300 / 65600 groups; sizes around 2^8 and 2^16; long arrays compared by digest).  Non-trivial: at least two arrays were dumped and restored and at least "
        "one later request returned a value; distinct by JSON text")
TRUSTED = ["harness/rules.py: compiler from rule-system terms to real Variable subclasses (formulas call the public API)",
           "harness/c19.py: field-by-field snapshot of a real simulation (holders, populations) used by the oracle",
           "restore_dump_identity is stated for any show / parse with the round trip as explicit hypothesis; "
           "restore_dump_identity_real_names instantiates it with the models of Period.__str__ / periods.period of "
           "coq/model/PeriodStr.v (C05's correspondence ties those to the implementation) and discharges the hypothesis "
           "with C05's period_roundtrip; the C19 correspondence itself runs the model with an injective encoding "
           "(enc_roundtrip) and compares file counts, not names; the real names are exercised by the oracle",
           "the file system (os.listdir, numpy.save / numpy.load) is modelled as an association list path -> content"]
ASSUMPTIONS = ["the engine model has int / float / bool values and one group entity: Enum, str and date variables, "
               "EnumArray.possible_values, dtypes, several group entities and sub-roles are covered by the ORACLE on "
               "the implementation only (stream 'rich'), not by the Coq model",
               "stored periods are unit-aligned (months and years start on day 1, weeks on Monday): Period.__str__ "
               "drops the day of a month / year period and the weekday of a week period; this is the 'storable' "
               "hypothesis of restore_dump_identity",
               "what a dump does not contain is not compared: memory configuration, trace flag, max_spiral_loops "
               "(the harness gives the restored simulation the original's max_spiral_loops), variables_to_drop / "
               "cache blacklist are not used",
               "generated values of the 'eng' stream stay below 2^22 in absolute value; inexact cases are discarded "
               "and counted (classify = 'skipped-inexact')",
               "a group entity declared without any role cannot be restored (members_role = numpy.int16(0) raises "
               "TypeError in the setter) - such an entity cannot answer members_role in the original either "
               "(flattened_roles[0]); modelled (Err EType), not generated, reported to the integrator",
               "identifiers are compared as text (the original holds a Python list, the restored a numpy array)"]

SCRATCH = "/root/scratch"
UNITS_W = ["month"] * 3 + ["year"] * 3 + ["day"] * 2 + ["eternity"] * 2 + ["week"] * 2 + ["weekday"] * 2
PROFILE = {"nvars": (3, 8), "bad": 0.02, "badreq": 0.06, "nparams": 2, "neutral": 0.06, "units": UNITS_W,
           "nreq": (3, 7)}
CYCLE_PROFILE = {"nvars": (2, 5), "spiral": 0.5, "bad": 0.0, "badreq": 0.0, "nparams": 1, "depth": 2,
                 "units": UNITS_W, "nreq": (3, 6)}
LATER = {"nreq": (2, 6), "badreq": 0.05}
EXPR_TAGS = ("const", "dep", "bin", "not", "where", "param", "agg", "nb", "project", "field", "raise")

_SKIP = set()


def _key(case):
    return json.dumps(case, sort_keys=True)


# ---------------------------------------------------------------------------------------
# generator: engine stream
# ---------------------------------------------------------------------------------------

def _personize(e):
    """expression for a persons-only system: what needs the group entity (or the harness's
    household lookup) becomes a constant"""
    tag = e[0]
    if tag in ("agg", "nb", "project", "field", "raise"):
        return ["const", 1 + len(json.dumps(e)) % 7]
    out = [tag]
    for x in e[1:]:
        if isinstance(x, list) and x and isinstance(x[0], str) and x[0] in EXPR_TAGS:
            out.append(_personize(x))
        else:
            out.append(x)
    return out


def _extra_inputs(rng, sys, pop, year):
    """inputs on aligned but unusual periods: rolling years, every month, any day, late weeks"""
    out = []
    for i, v in enumerate(sys["vars"]):
        if v["formulas"] and rng.random() < 0.7:
            continue
        if rng.random() < 0.5:
            continue
        u = v["unit"]
        if u == "year":
            p = ["year", [year, rng.choice([2, 3, 7, 11, 12]), 1], 1]
        elif u == "month":
            p = ["month", [rng.choice([year, 1999, 2024]), rng.randint(1, 12), 1], 1]
        elif u == "day":
            p = ["day", [year, rng.randint(1, 12), rng.randint(1, 28)], 1]
        elif u in ("week", "weekday"):
            d = datetime.date.fromisocalendar(rng.choice([year, 2015, 2020]), rng.choice([1, 9, 10, 51, 52]), 1)
            if rng.random() < 0.3:
                # a year with 53 ISO weeks
                d = datetime.date.fromisocalendar(2020, 53, 1)
            if u == "weekday":
                d += datetime.timedelta(days=rng.randrange(7))
            p = [u, [d.year, d.month, d.day], 1]
        else:
            p = list(rules.ETERNITY)
        out.append(["set", i, p, rules.input_values(rng, v, rules.count_for(pop, v))])
    return out


def default_positions(ids):
    seen, out = {}, []
    for g in ids:
        out.append(seen.get(g, 0))
        seen[g] = seen.get(g, 0) + 1
    return out


def explicit_positions(rng, ids):
    """members_position as a situation with explicit positions (a survey loader) sets it: within
    every group a permutation of 0..size-1 that is NOT the order of appearance; None when no
    group has two members"""
    members = {}
    for i, g in enumerate(ids):
        members.setdefault(g, []).append(i)
    if all(len(m) < 2 for m in members.values()):
        return None
    for _ in range(20):
        out = [0] * len(ids)
        for g, m in members.items():
            perm = list(range(len(m)))
            rng.shuffle(perm)
            for i, q in zip(m, perm):
                out[i] = q
        if out != default_positions(ids):
            return out
    big = max(members.values(), key=len)
    out = default_positions(ids)
    out[big[0]], out[big[1]] = out[big[1]], out[big[0]]
    return out


def gen_eng(rng, k):
    profile = CYCLE_PROFILE if k % 9 == 8 else PROFILE
    sys = rules.gen_system(rng, profile)
    pop = rules.gen_pop(rng, 6)
    persons_only = rng.random() < 0.15
    if persons_only:
        for v in sys["vars"]:
            v["ent"] = "person"
            v["formulas"] = [[s, _personize(e)] for s, e in v["formulas"]]
        pop = {"count": 0, "ids": [0] * len(pop["ids"]), "roles": [0] * len(pop["ids"])}
    else:
        r = rng.random()
        if r < 0.35:
            pop["count"] += rng.randint(1, 2)          # trailing member-less groups
        elif r < 0.45 and pop["count"] > 1:
            # first group without members
            pop["ids"] = [i if i != 0 else pop["count"] - 1 for i in pop["ids"]]
    pop["positions"] = None if persons_only or rng.random() < 0.5 else explicit_positions(rng, pop["ids"])
    n = len(pop["ids"])
    pop["pids"] = rng.sample(range(0, 40), n)
    pop["gids"] = rng.sample(range(0, 40), pop["count"])
    before = rules.gen_requests(rng, sys, pop, profile)
    year = rng.choice(rules.BASE_YEARS)
    extra = _extra_inputs(rng, sys, pop, year)
    cut = 0
    while cut < len(before) and before[cut][0] == "set":
        cut += 1
    before = before[:cut] + extra + before[cut:]
    after = rules.gen_requests(rng, sys, pop, dict(profile, **LATER))
    # later requests: mostly calculations; keep at most two of the generated inputs
    sets = [r for r in after if r[0] == "set"]
    after = [r for r in after if r[0] != "set"] + sets[:rng.randint(0, 2)]
    rng.shuffle(after)
    for v in sys["vars"]:
        v.pop("divisible", None)
    restore_opts = gen_restore_opts(rng, list(range(len(sys["vars"]))))
    return {"kind": "eng", "sys": sys, "pop": pop, "persons_only": persons_only, "restore_opts": restore_opts,
            "cfg": {"disk": rng.random() < 0.3}, "dirty": rng.random() < 0.03,
            "requests": before, "later": after}


# ---------------------------------------------------------------------------------------
# engine stream: real system / simulation
# ---------------------------------------------------------------------------------------

def build_system_persons(sys, switches):
    """rules.build_system for a tax-benefit system that has the person entity only"""
    person = build_entity(key="person", plural="persons", label="", is_person=True)
    tbs = TaxBenefitSystem([person])
    for i, v in enumerate(sys["vars"]):
        attrs = {"value_type": rules.TYPES[v["type"]], "entity": person,
                 "definition_period": rules.UNIT_OBJ[v["unit"]],
                 "default_value": rules.TYPES[v["type"]](v["default"])}
        if v.get("end"):
            y, m, d = v["end"]
            attrs["end"] = f"{y:04d}-{m:02d}-{d:02d}"
        for start, e in v["formulas"]:
            attrs[rules.formula_name(start)] = rules.make_formula(sys, switches, e, "person")
        tbs.add_variable(type(f"v{i}", (Variable,), attrs))
        if v.get("neutral"):
            tbs.neutralize_variable(f"v{i}")
    data = {}
    for k, hist in enumerate(sys.get("params", [])):
        data[f"p{k}"] = {"values": {f"{y:04d}-{m:02d}-{d:02d}": {"value": z} for (y, m, d), z in hist}}
    tbs.parameters = ParameterNode("", data=data)
    tbs._parameters_at_instant_cache = {}
    return tbs


def build_sim(tbs, pop, cfg, sys, persons_only):
    sb = SimulationBuilder()
    sb.create_entities(tbs)
    sb.declare_person_entity("person", [f"p{i}" for i in pop["pids"]])
    if not persons_only:
        hp = sb.declare_entity("household", [f"h{j}" for j in pop["gids"]])
        hp.members_entity_id = numpy.array(pop["ids"], dtype=numpy.int64)
        ent = hp.entity
        roles = {k: [x for x in ent.roles if x.key == rules.ROLE_KEYS[k]][0] for k in range(len(rules.ROLE_KEYS))}
        hp.members_role = numpy.array([roles[r] for r in pop["roles"]], dtype=object)
        if pop.get("positions") is not None:
            hp.members_position = numpy.array(pop["positions"], dtype=numpy.int64)
    sim = sb.build(tbs)
    sim.max_spiral_loops = sys.get("max_loops", 1)
    if (cfg or {}).get("disk"):
        sim.memory_config = MemoryConfig(max_memory_occupation=0)
    return sim


def _id_number(x):
    return int(str(x)[1:])


def struct_obs(sim, persons_only):
    """ids, counts, memberships, roles (row of the role table; 2 = no role), positions"""
    pp = sim.populations["person"]
    out = [[_id_number(x) for x in pp.ids], int(pp.count)]
    if persons_only:
        out.append(None)
    else:
        hp = sim.populations["household"]
        roles = []
        for r in hp.members_role:
            key = getattr(r, "key", None)
            roles.append(rules.ROLE_KEYS.index(key) if key in rules.ROLE_KEYS else len(rules.ROLE_KEYS))
        out.append([[_id_number(x) for x in hp.ids], int(hp.count),
                    [int(x) for x in hp.members_entity_id], roles,
                    [int(x) for x in hp.members_position]])
    return out


def files_obs(directory, nvars):
    per_var = []
    for v in range(nvars):
        d = os.path.join(directory, f"v{v}")
        if os.path.isdir(d):
            n = len(os.listdir(d))
            if n:
                per_var.append([v, n])
    n_ent = 0
    ed = os.path.join(directory, "__entities__")
    for sub in sorted(os.listdir(ed)):
        n_ent += len(os.listdir(os.path.join(ed, sub)))
    return [per_var, n_ent]


# ---------------------------------------------------------------------------------------
# snapshots for the oracle (both streams)
# ---------------------------------------------------------------------------------------

def compact(values):
    """long lists (the big-population stream) are compared by length and digest"""
    if not isinstance(values, list) or len(values) <= 1000:
        return values
    digest = hashlib.sha1(json.dumps(values).encode()).hexdigest()
    return ["long", len(values), digest, values[:12], values[-4:]]


def canon_array(a):
    """[class, dtype, enum description | None, values] - everything the property compares"""
    cls = type(a).__name__
    if a is None:
        return ["None", None, None, None]
    enum = None
    if isinstance(a, EnumArray):
        pv = a.possible_values
        enum = None if pv is None else [pv.__name__, [m.name for m in pv]]
        raw = a.view(numpy.ndarray)
        return [cls, str(raw.dtype), enum, compact([int(x) for x in raw.tolist()])]
    a = numpy.asarray(a)
    kind = a.dtype.kind
    if kind == "f":
        vals = [float(x).hex() for x in a.tolist()]
    elif kind in "iu":
        vals = [int(x) for x in a.tolist()]
    elif kind == "b":
        vals = [bool(x) for x in a.tolist()]
    elif kind == "M":
        vals = [str(x) for x in a]
    else:
        vals = [[type(x).__name__, str(x)] for x in a.tolist()]
    return [cls, str(a.dtype), enum, compact(vals)]


def snapshot(sim):
    """{"vars": {name: {period text: canon array}}, "entities": {key: {...}}}"""
    out = {"vars": {}, "entities": {}}
    for name in sorted(sim.tax_benefit_system.variables):
        holder = sim.get_holder(name)
        known = {}
        for p in holder.get_known_periods():
            known[json.dumps(rules.period_json(p))] = canon_array(holder.get_array(p))
        out["vars"][name] = known
    for key, pop in sim.populations.items():
        e = {"ids": [str(x) for x in pop.ids], "count": int(pop.count)}
        if not pop.entity.is_person:
            e["members_entity_id"] = [int(x) for x in pop.members_entity_id]
            e["members_entity_id_dtype"] = str(numpy.asarray(pop.members_entity_id).dtype)
            e["members_role"] = [getattr(r, "key", None) if getattr(r, "key", None) is not None else repr(r)
                                 for r in pop.members_role]
            e["members_role_is_role"] = [type(r).__name__ for r in pop.members_role]
            e["members_position"] = [int(x) for x in pop.members_position]
            # what positions are for: the position-dependent primitives
            n_members = len(e["members_entity_id"])
            probe = numpy.arange(n_members) * 10 + 7
            crit = (numpy.arange(n_members) * 7) % 5
            biggest = int(numpy.bincount(numpy.asarray(pop.members_entity_id, dtype=numpy.int64)).max()) if n_members else 0
            probes = [("value_from_first_person", lambda: pop.value_from_first_person(probe))]
            for nth in sorted({0, 1, 2, biggest // 2, max(biggest - 1, 0)}):
                probes.append((f"value_nth_person_{nth}", lambda nth=nth: pop.value_nth_person(nth, probe, -1)))
            if biggest <= 500:
                # get_rank calls value_nth_person once per position of the biggest group
                probes.append(("get_rank", lambda: pop.members.get_rank(pop, crit)))
            for label, f in probes:
                try:
                    e[label] = [int(x) for x in f()]
                except Exception as ex:  # noqa: BLE001
                    e[label] = f"{type(ex).__name__}"
        for field in list(e):
            e[field] = compact(e[field])
        out["entities"][key] = e
    return out


def compare_snapshots(a, b, what):
    """first difference between two snapshots as a message, or None"""
    for key in sorted(set(a["entities"]) | set(b["entities"])):
        ea, eb = a["entities"].get(key), b["entities"].get(key)
        if ea is None or eb is None:
            return f"structure: {what}: entity {key} is missing on one side"
        # stored fields first, then what is derived from them
        for field in sorted(set(ea) | set(eb), key=lambda f: (f.startswith("value_") or f == "get_rank", f)):
            if ea.get(field) != eb.get(field):
                return (f"structure: {what}: {key}.{field} differs: original {ea.get(field)!r}, "
                        f"restored {eb.get(field)!r}")
    for name in sorted(set(a["vars"]) | set(b["vars"])):
        ka, kb = a["vars"].get(name, {}), b["vars"].get(name, {})
        for p in sorted(set(ka) | set(kb)):
            if p not in kb:
                return f"values: {what}: {name} at {p} is held by the original only"
            if p not in ka:
                return f"values: {what}: {name} at {p} is held by the restored simulation only"
            xa, xb = ka[p], kb[p]
            if xa[3] != xb[3]:
                return f"values: {what}: {name} at {p}: original {xa[3]!r}, restored {xb[3]!r}"
            if xa[0] != xb[0] or xa[1] != xb[1] or xa[2] != xb[2]:
                return (f"type: {what}: {name} at {p}: original {xa[0]} {xa[1]} {xa[2]}, "
                        f"restored {xb[0]} {xb[1]} {xb[2]}")
    return None


# ---------------------------------------------------------------------------------------
# the protocol shared by both streams
# ---------------------------------------------------------------------------------------

def dir_listing(directory):
    """every file below the dump directory with its size, sorted"""
    out = []
    for root, _dirs, files in os.walk(directory):
        for f in files:
            path = os.path.join(root, f)
            out.append([os.path.relpath(path, directory), os.path.getsize(path)])
    return sorted(out)


def again_entry(orig, snap, number):
    """a further restore of the same dump compared with the original right away (keeping every
    snapshot would triple the size of the observations)"""
    return {"diff": compare_snapshots(orig, snap, f"restore number {number} of the same dump"),
            "arrays": sum(len(v) for v in snap["vars"].values())}


def restore_kwargs(opts, name_of):
    """keyword options for restore_simulation(directory, tbs, **kwargs) from the case's "restore_opts":
    whatever options are passed, the restored simulation must hold what was dumped"""
    if not opts:
        return {}
    kw = {}
    if opts.get("opt_out"):
        kw["opt_out_cache"] = True
    if opts.get("trace"):
        kw["trace"] = True
    if opts.get("memory"):
        kw["memory_config"] = MemoryConfig(max_memory_occupation=opts["memory"]["max"],
                                           priority_variables=[name_of(v) for v in opts["memory"].get("priority", [])],
                                           variables_to_drop=[name_of(v) for v in opts["memory"].get("drop", [])])
    return kw


def gen_restore_opts(rng, variables):
    """None (two thirds of the cases) or options passed to restore_simulation; `blacklist` becomes
    the tax-benefit system's cache_blacklist (without effect on the original: opt_out_cache is off)"""
    if rng.random() < 0.65:
        return None
    some = lambda p: [v for v in variables if rng.random() < p]  # noqa: E731
    opts = {"opt_out": rng.random() < 0.6, "blacklist": some(0.5), "trace": rng.random() < 0.4, "memory": None}
    if rng.random() < 0.5:
        opts["memory"] = {"max": rng.choice([0, 0.5, 1]), "priority": some(0.2), "drop": some(0.4)}
    return opts


def protocol(sim, tbs, dirty, before, after, request, after_dump=None, after_restore=None, kwargs=None):
    """Runs before-requests, dump, restore, after-requests.  `request(sim, r)` performs one
    request and returns a canonical answer (exceptions are mapped to Err here).
    Returns a dict; the scratch directory is removed in every case."""
    def answer(s, r):
        try:
            return request(s, r)
        except rules.Inexact:
            raise
        except Exception as e:  # noqa: BLE001
            return Err(errkind(e), f"{type(e).__name__}: {e}"[:200])

    out = {}
    os.makedirs(SCRATCH, exist_ok=True)
    tmp = tempfile.mkdtemp(prefix="c19-run-", dir=SCRATCH)
    restored = None
    try:
        out["before"] = [answer(sim, r) for r in before]
        directory = os.path.join(tmp, "dump")
        if dirty:
            os.makedirs(directory)
            with open(os.path.join(directory, "junk"), "w") as f:
                f.write("x")
        try:
            dump_simulation(sim, directory)
            out["dump"] = "ok"
        except Exception as e:  # noqa: BLE001
            out["dump"] = Err(errkind(e), f"{type(e).__name__}: {e}"[:200])
        if after_dump:
            after_dump(out, directory)
        out["orig"] = snapshot(sim)
        out["listing"] = dir_listing(directory)
        if out["dump"] == "ok":
            try:
                restored = restore_simulation(directory, tbs, **(kwargs() if kwargs else {}))
                restored.max_spiral_loops = sim.max_spiral_loops
                out["restore"] = "ok"
            except Exception as e:  # noqa: BLE001
                out["restore"] = Err(errkind(e), f"{type(e).__name__}: {e}"[:200])
        if restored is not None:
            out["rest"] = snapshot(restored)
            if after_restore:
                after_restore(out, restored)
            # A dump can be restored any number of times (once per scenario / worker / later on):
            # again while the first restored simulation is alive, and again after a restored
            # simulation has been deleted and collected.  The directory is only read.
            gc.collect()
            out["listing"] = [out["listing"], dir_listing(directory)]
            out["again"] = []
            for drop in (False, True):
                try:
                    extra = restore_simulation(directory, tbs, **(kwargs() if kwargs else {}))
                    out["again"].append(again_entry(out["orig"], snapshot(extra), len(out["again"]) + 2))
                except Exception as e:  # noqa: BLE001
                    out["again"].append(Err(errkind(e), f"{type(e).__name__}: {e}"[:200]))
                    extra = None
                if drop:
                    del extra
                    gc.collect()
                out["listing"].append(dir_listing(directory))
            extra = None
            try:
                third = restore_simulation(directory, tbs, **(kwargs() if kwargs else {}))
                out["again"].append(again_entry(out["orig"], snapshot(third), len(out["again"]) + 2))
                del third
            except Exception as e:  # noqa: BLE001
                out["again"].append(Err(errkind(e), f"{type(e).__name__}: {e}"[:200]))
            gc.collect()
            out["listing"].append(dir_listing(directory))
            out["later"] = [[answer(sim, r), answer(restored, r)] for r in after]
            out["orig_final"] = snapshot(sim)
            out["rest_final"] = snapshot(restored)
            if after_restore:
                after_restore(out, restored, final=True)
    finally:
        shutil.rmtree(tmp, ignore_errors=True)
        for s in (sim, restored):
            if s is None:
                continue
            # the holders' OnDiskStorage objects would remove their directories when collected
            for pop in s.populations.values():
                for holder in pop._holders.values():
                    if getattr(holder, "_disk_storage", None) is not None:
                        holder._disk_storage.preserve_storage_dir = True
            d = getattr(s, "_data_storage_dir", None)
            if d:
                shutil.rmtree(d, ignore_errors=True)
    return out


def run_eng(case):
    sys, pop, po = case["sys"], case["pop"], case["persons_only"]
    switches = set(sys.get("switches", []))
    with warnings.catch_warnings():
        warnings.simplefilter("ignore")
        tbs = build_system_persons(sys, switches) if po else rules.build_system(sys, switches)
        if (case.get("restore_opts") or {}).get("blacklist"):
            tbs.cache_blacklist = {f"v{v}" for v in case["restore_opts"]["blacklist"]}
        sim = build_sim(tbs, pop, case.get("cfg"), sys, po)

        def after_dump(out, directory):
            out["cache_orig"] = rules.cache_obs(sim, sys)
            out["struct_orig"] = struct_obs(sim, po)
            out["files"] = files_obs(directory, len(sys["vars"])) if out["dump"] == "ok" else None

        def after_restore(out, restored, final=False):
            if final:
                out["cache_orig_final"] = rules.cache_obs(sim, sys)
                out["cache_rest_final"] = rules.cache_obs(restored, sys)
            else:
                out["cache_rest"] = rules.cache_obs(restored, sys)
                out["struct_rest"] = struct_obs(restored, po)

        try:
            return protocol(sim, tbs, case.get("dirty"), case["requests"], case["later"],
                            lambda s, r: rules.do_request(s, sys, switches, r), after_dump, after_restore,
                            kwargs=lambda: restore_kwargs(case.get("restore_opts"), lambda v: f"v{v}"))
        except rules.Inexact:
            return "skip"


# ---------------------------------------------------------------------------------------
# rich stream (oracle only)
# ---------------------------------------------------------------------------------------

class Housing(Enum):
    owner = "Owner"
    tenant = "Tenant"
    free_lodger = "Free lodger"
    homeless = "Homeless"


class Status(Enum):
    single = "Single"
    couple = "Couple"


RICH_INPUTS = {
    # name: (entity, type tag, definition period)
    "housing": ("person", "enum:Housing", "month"),
    "status": ("household", "enum:Status", "eternity"),
    "nickname": ("person", "str", "year"),
    "motto": ("club", "str", "eternity"),
    "street": ("household", "str", "week"),
    "birth": ("person", "date", "eternity"),
    "moved": ("household", "date", "month"),
    "checked": ("club", "date", "weekday"),
    "wage": ("person", "float", "month"),
    "rent": ("household", "float", "day"),
    "hours": ("person", "int", "week"),
    "present": ("person", "bool", "weekday"),
    "fee": ("club", "int", "year"),
    "height": ("person", "float", "eternity"),
}
RICH_FORMULAS = {
    "n_owners": ("household", "month"), "wage_year": ("person", "year"), "born_before_2000": ("person", "eternity"),
    "size_word": ("household", "year"), "club_size": ("club", "year"), "president_wage": ("club", "month"),
    "housing_next": ("person", "month"), "week_hours": ("household", "week"), "first_parent_present": ("household", "weekday"),
    "moved_or_birth": ("person", "month"), "rent_month": ("household", "month"),
}
RICH_ENTITY_COUNT = {"person": "n", "household": "hh", "club": "cl"}
HH_ROLES = ["first_parent", "second_parent", "child"]
CLUB_ROLES = ["president", "member"]


def build_rich_system():
    person = build_entity(key="person", plural="persons", label="", is_person=True)
    household = build_entity(key="household", plural="households", label="", roles=[
        {"key": "parent", "plural": "parents", "subroles": ["first_parent", "second_parent"]},
        {"key": "child", "plural": "children"},
    ])
    club = build_entity(key="club", plural="clubs", label="", roles=[
        {"key": "president", "plural": "presidents", "max": 1},
        {"key": "member", "plural": "members"},
    ])
    ents = {"person": person, "household": household, "club": club}
    tbs = TaxBenefitSystem([person, household, club])
    pytype = {"str": str, "date": datetime.date, "float": float, "int": int, "bool": bool}
    unit = rules.UNIT_OBJ

    def add(name, ent, vt, du, **extra):
        attrs = {"value_type": vt, "entity": ents[ent], "definition_period": unit[du]}
        attrs.update(extra)
        tbs.add_variable(type(name, (Variable,), attrs))

    for name, (ent, ty, du) in RICH_INPUTS.items():
        if ty == "enum:Housing":
            add(name, ent, Enum, du, possible_values=Housing, default_value=Housing.tenant)
        elif ty == "enum:Status":
            add(name, ent, Enum, du, possible_values=Status, default_value=Status.single)
        else:
            add(name, ent, pytype[ty], du)

    def n_owners(household, period):
        return household.sum(household.members("housing", period) == Housing.owner)

    def wage_year(person, period):
        return person("wage", period, options=[populations.ADD])

    def born_before_2000(person, period):
        return person("birth", period) < numpy.datetime64("2000-01-01")

    def size_word(household, period):
        return numpy.where(household.nb_persons() > 1, "many", "few")

    def club_size(club, period):
        return club.nb_persons()

    def president_wage(club, period):
        return club.value_from_person(club.members("wage", period), role=club.entity.roles[0])

    def housing_next(person, period):
        prev = person("housing", period.last_month)
        return numpy.where(prev == Housing.owner, Housing.owner, Housing.free_lodger)

    def week_hours(household, period):
        return household.sum(household.members("hours", period))

    def first_parent_present(household, period):
        role = [r for r in household.entity.flattened_roles if r.key == "first_parent"][0]
        return household.any(household.members("present", period), role=role)

    def moved_or_birth(person, period):
        moved = person.household("moved", period)
        return numpy.maximum(moved, person("birth", period))

    def rent_month(household, period):
        return household("rent", period, options=[populations.ADD])

    add("n_owners", "household", int, "month", formula=n_owners)
    add("wage_year", "person", float, "year", formula=wage_year)
    add("born_before_2000", "person", bool, "eternity", formula=born_before_2000)
    add("size_word", "household", str, "year", formula=size_word)
    add("club_size", "club", int, "year", formula=club_size)
    add("president_wage", "club", float, "month", formula=president_wage)
    add("housing_next", "person", Enum, "month", possible_values=Housing, default_value=Housing.tenant,
        formula=housing_next)
    add("week_hours", "household", int, "week", formula=week_hours)
    add("first_parent_present", "household", bool, "weekday", formula=first_parent_present)
    add("moved_or_birth", "person", datetime.date, "month", formula=moved_or_birth)
    add("rent_month", "household", float, "month", formula=rent_month)
    return tbs


INT32_MIN, INT32_MAX = -2 ** 31, 2 ** 31 - 1
EXTREME_INTS = [INT32_MIN, INT32_MIN + 1, INT32_MAX, -INT32_MAX, 2 ** 24 + 1, 2 ** 24 - 1, -2 ** 24 - 1, -2 ** 24 + 1,
                127, 128, -128, -129, 32767, 32768, -32768, -32769, 0, -1]
# floats that are not plain numbers travel as text in the (JSON) case
EXTREME_FLOATS = ["inf", "-inf", "nan", "-0.0", 1e-45, -1e-45, 1.1754942e-38, 5e-324, 3.4028235e38, 0.0]
EXTREME_DATES = ["0001-01-01", "9999-12-31", "1677-09-21", "2262-04-12", "1969-12-31", "1970-01-01", "1582-10-04"]


def rich_value(rng, ty):
    if ty == "enum:Housing":
        return rng.choice([m.name for m in Housing])
    if ty == "enum:Status":
        return rng.choice([m.name for m in Status])
    if ty == "str":
        return rng.choice(["", "a", "Zoe", "x y", "long name with spaces", "0", "None", "é"])
    if ty == "date":
        return datetime.date(rng.choice([1970, 1999, 2000, 2018]), rng.randint(1, 12), rng.randint(1, 28)).isoformat()
    if ty == "float":
        return rng.choice([0.0, 0.1, -2.5, 1234.56, 1e-3, 3.0e7, 1 / 3])
    if ty == "int":
        return rng.randint(-5, 4000)
    if ty == "bool":
        return rng.random() < 0.5
    raise AssertionError(ty)


def rich_values(rng, ty, count):
    """one input array: ordinary values, or (a third of the numeric / date arrays) extreme ones -
    alone, or as a 'missing value' sentinel next to ordinary values"""
    vals = [rich_value(rng, ty) for _ in range(count)]
    pool = {"int": EXTREME_INTS, "float": EXTREME_FLOATS, "date": EXTREME_DATES}.get(ty)
    if pool is None or count == 0 or rng.random() < 0.65:
        return vals
    mode = rng.random()
    if mode < 0.4:
        return [rng.choice(pool) for _ in range(count)]
    if mode < 0.8:
        # one sentinel among small values
        sentinel = rng.choice(pool[:4])
        vals = [rng.choice([0, 1, 7, 100]) if ty == "int" else v for v in vals]
        vals[rng.randrange(count)] = sentinel
        return vals
    for i in range(count):
        if rng.random() < 0.5:
            vals[i] = rng.choice(pool)
    return vals


def rich_period(rng, du, year):
    if du == "eternity":
        return list(rules.ETERNITY)
    if du == "year":
        return ["year", [year, rng.choice([1, 1, 1, 4, 12]), 1], 1]
    if du == "month":
        return ["month", [year, rng.choice([1, 1, 2, 2, 3, 12]), 1], 1]
    if du == "day":
        return ["day", [year, rng.choice([1, 2]), rng.choice([1, 2, 28])], 1]
    y, w = rng.choice([(year, 1), (year, 2), (year, 52), (2020, 53), (2015, 1)])
    d = datetime.date.fromisocalendar(y, w, 1)
    if du == "weekday":
        d += datetime.timedelta(days=rng.randrange(7))
    return [du, [d.year, d.month, d.day], 1]


def gen_group(rng, n, roles, single_first):
    count = rng.randint(1, max(1, min(4, n)))
    ids = [rng.randrange(count) for _ in range(n)]
    if rng.random() < 0.5:
        count += rng.randint(1, 2)              # trailing member-less groups
    rs, seen = [], {}
    for g in ids:
        choices = list(range(len(roles)))
        if single_first:
            # at most one person per group in each of the first roles (max 1 / sub-roles)
            choices = [r for r in choices if r == len(roles) - 1 or (g, r) not in seen]
        r = rng.choice(choices)
        seen[(g, r)] = True
        rs.append(r)
    return {"count": count, "ids": ids, "roles": rs,
            "positions": explicit_positions(rng, ids) if rng.random() < 0.5 else None}


def gen_rich(rng, k):
    n = rng.randint(1, 6)
    pop = {"n": n, "pids": rng.sample(range(100), n),
           "household": gen_group(rng, n, HH_ROLES, True), "club": gen_group(rng, n, CLUB_ROLES, True)}
    counts = {"person": n, "household": pop["household"]["count"], "club": pop["club"]["count"]}
    year = rng.choice([2017, 2018, 2019])

    def a_set():
        name = rng.choice(sorted(RICH_INPUTS))
        ent, ty, du = RICH_INPUTS[name]
        return ["set", name, rich_period(rng, du, year), rich_values(rng, ty, counts[ent])]

    def a_calc():
        name = rng.choice(sorted(RICH_FORMULAS) + sorted(RICH_INPUTS))
        du = (RICH_FORMULAS.get(name) or RICH_INPUTS[name][1:])[1]
        if du == "eternity":
            # an eternal variable with a formula cannot be requested for the eternity period itself
            du = "month" if name in RICH_FORMULAS else rng.choice(["eternity", "month"])
        return ["calc", name, rich_period(rng, du, year)]

    before = [a_set() for _ in range(rng.randint(4, 12))] + [a_calc() for _ in range(rng.randint(1, 6))]
    after = [a_calc() for _ in range(rng.randint(2, 6))] + ([a_set()] if rng.random() < 0.4 else [])
    rng.shuffle(after)
    return {"kind": "rich", "pop": pop, "cfg": {"disk": rng.random() < 0.4}, "dirty": False,
            "restore_opts": gen_restore_opts(rng, sorted(RICH_INPUTS) + sorted(RICH_FORMULAS)),
            "requests": before, "later": after}


def rich_array(ty, values, count=None):
    if isinstance(values, dict):
        # procedural values of the big-population stream
        i = numpy.arange(count, dtype=numpy.int64)
        if ty == "float":
            return ((i * values["k"]) % 1000) / 4.0
        if ty == "int":
            return (i * values["k"]) % 2001 - 1000
        if ty == "bool":
            return (i * values["k"]) % 3 == 0
        if ty == "enum:Housing":
            names = numpy.array([m.name for m in Housing])
            return names[(i * values["k"]) % len(names)]
        raise AssertionError(ty)
    if ty == "date":
        return numpy.array(values, dtype="datetime64[D]")
    if ty == "float":
        return numpy.array([float(v) for v in values], dtype=numpy.float64)
    if ty == "int":
        return numpy.array(values, dtype=numpy.int64)
    return numpy.array(values)


def rich_request(sim, r):
    p = rules.mk_period(r[2])
    if r[0] == "set":
        ent = RICH_INPUTS[r[1]][0]
        sim.set_input(r[1], p, rich_array(RICH_INPUTS[r[1]][1], r[3], sim.populations[ent].count))
        return None
    return canon_array(sim.calculate(r[1], p))


def expand_group(spec, names):
    """{"sizes": [...], "trailing": t, "layout": ..., "positions": ...} -> count, ids, roles, positions"""
    sizes = spec["sizes"]
    ids = [g for g, k in enumerate(sizes) for _ in range(k)]
    if spec["layout"] == "shuffled":
        random.Random(spec.get("seed", 0)).shuffle(ids)
    elif spec["layout"] == "reversed":
        ids.reverse()
    seen, roles = {}, []
    for g in ids:
        k = seen.get(g, 0)
        seen[g] = k + 1
        roles.append(k if k < len(names) - 1 else len(names) - 1)
    positions = None
    if spec.get("positions") == "reversed":
        left = dict(seen)
        positions = []
        for g in ids:
            left[g] -= 1
            positions.append(left[g])
    return {"count": len(sizes) + spec.get("trailing", 0), "ids": ids, "roles": roles, "positions": positions}


def gen_big(rng, k):
    """few groups with very many members, and very many groups: sizes around 2^8 and 2^16"""
    shapes = [
        ([300, 2, 1], [3, 300]),
        ([1, 70000, 3], [70000, 4]),
        ([1] * 299 + [2], [150, 151]),
        ([1] * 65600, [65537, 63]),
        ([256, 255, 1], [257] + [1] * 255),
        ([65536, 1], [2, 65535]),
    ]
    hh_sizes, cl_sizes = shapes[k % len(shapes)]
    n = sum(hh_sizes)
    assert n == sum(cl_sizes)
    layout = lambda: rng.choice(["blocks", "shuffled", "reversed"])  # noqa: E731
    pop = {"n": n, "pids": None,
           "spec": {"household": {"sizes": hh_sizes, "trailing": rng.choice([0, 1, 2]), "layout": layout(),
                                  "seed": rng.randrange(1000), "positions": rng.choice([None, "reversed"])},
                    "club": {"sizes": cl_sizes, "trailing": rng.choice([0, 1]), "layout": layout(),
                             "seed": rng.randrange(1000), "positions": rng.choice([None, "reversed"])}}}
    jan = ["month", [2018, 1, 1], 1]
    week = ["week", [2018, 1, 1], 1]
    day = ["weekday", [2018, 1, 3], 1]
    before = [["set", "wage", jan, {"k": rng.choice([7, 97, 333])}],
              ["set", "hours", week, {"k": rng.choice([11, 1999])}],
              ["set", "present", day, {"k": rng.choice([1, 2, 5])}],
              ["set", "housing", jan, {"k": rng.choice([1, 3, 5])}],
              ["calc", "n_owners", jan]]
    after = [["calc", "president_wage", jan], ["calc", "week_hours", week],
             ["calc", "first_parent_present", day], ["calc", "club_size", ["year", [2018, 1, 1], 1]],
             ["calc", "housing_next", ["month", [2018, 2, 1], 1]]]
    return {"kind": "rich", "big": True, "pop": pop, "cfg": {"disk": k % 2 == 1}, "dirty": False,
            "requests": before, "later": after}


def run_rich(case):
    pop = case["pop"]
    if pop.get("spec"):
        pop = {"n": pop["n"], "pids": range(pop["n"]),
               "household": expand_group(pop["spec"]["household"], HH_ROLES),
               "club": expand_group(pop["spec"]["club"], CLUB_ROLES)}
    with warnings.catch_warnings():
        warnings.simplefilter("ignore")
        tbs = build_rich_system()
        if (case.get("restore_opts") or {}).get("blacklist"):
            tbs.cache_blacklist = set(case["restore_opts"]["blacklist"])
        sb = SimulationBuilder()
        sb.create_entities(tbs)
        sb.declare_person_entity("person", [f"p{i}" for i in pop["pids"]])
        for key, names in (("household", HH_ROLES), ("club", CLUB_ROLES)):
            g = pop[key]
            gp = sb.declare_entity(key, [f"{key[0]}{j}" for j in range(g["count"])])
            gp.members_entity_id = numpy.array(g["ids"], dtype=numpy.int64)
            by_key = {r.key: r for r in gp.entity.flattened_roles}
            gp.members_role = numpy.array([by_key[names[r]] for r in g["roles"]], dtype=object)
            if g.get("positions") is not None:
                gp.members_position = numpy.array(g["positions"], dtype=numpy.int64)
        sim = sb.build(tbs)
        if case["cfg"].get("disk"):
            sim.memory_config = MemoryConfig(max_memory_occupation=0)
        return protocol(sim, tbs, False, case["requests"], case["later"], rich_request,
                        kwargs=lambda: restore_kwargs(case.get("restore_opts"), lambda v: v))


# ---------------------------------------------------------------------------------------
# interface
# ---------------------------------------------------------------------------------------

def generate(rng, tier):
    n = {"quick": 216, "escalated": 600, "thorough": 1200}[tier]
    cases = []
    for k in range(n):
        cases.append(gen_rich(rng, k) if k % 6 == 5 else gen_eng(rng, k))
    for k in range({"quick": 6, "escalated": 6, "thorough": 18}[tier]):
        cases.append(gen_big(rng, k))
    return cases


def run_impl(case):
    if case["kind"] == "rich":
        return run_rich(case)
    out = run_eng(case)
    if out == "skip":
        _SKIP.add(_key(case))
    return out


def coq_case(case):
    if case["kind"] == "rich":
        return "CRich"
    if _key(case) in _SKIP:
        return "CSkip"
    pop = case["pop"]
    nats = lambda l: "[" + "; ".join(rules.cnat(i) for i in l) + "]"  # noqa: E731
    reqs = lambda rs: "[" + "; ".join(rules.crequest(r) for r in rs) + "]"  # noqa: E731
    hg = "false" if case["persons_only"] else "true"
    return (f"(CDump {rules.csys(case['sys'], {})} {hg} {rules.cnat(pop['count'])} {nats(pop['ids'])} "
            f"{nats(pop['roles'])} {nats(pop['pids'])} {nats(pop['gids'])} "
            f"{'None' if pop.get('positions') is None else '(Some ' + nats(pop['positions']) + ')'} "
            f"{'true' if case.get('dirty') else 'false'} {reqs(case['requests'])} {reqs(case['later'])})")


def obs_for_coq(case, obs):
    if isinstance(obs, Err):
        return obs
    if case["kind"] == "rich":
        return "oracle-only"
    if obs == "skip":
        return "skip"
    # True: every generated state must satisfy the hypotheses of restore_dump_identity (dumpable_b)
    head = [obs["before"], obs["cache_orig"], obs["struct_orig"], True]
    if isinstance(obs["dump"], Err):
        return head + [obs["dump"]]
    if isinstance(obs["restore"], Err):
        return head + [[obs["files"], obs["restore"]]]
    return head + [[obs["files"], [obs["cache_rest"], obs["struct_rest"],
                                   [a for a, _ in obs["later"]], [b for _, b in obs["later"]],
                                   obs["cache_orig_final"], obs["cache_rest_final"]]]]


def oracle(case, obs):
    """The property on the implementation: the restored simulation holds, for every variable and
    period the original held, an equal array of the same type (and nothing else), the same ids,
    counts, memberships, roles and positions; later requests answer the same on both."""
    if obs == "skip":
        return None
    if isinstance(obs, Err):
        return f"driver: the case could not be run: {obs.msg}"
    if isinstance(obs["dump"], Err):
        if case.get("dirty") and obs["dump"].kind == "EValue":
            return None                      # refused: the directory is not empty
        return f"dump: dump_simulation raised: {obs['dump'].msg}"
    if case.get("dirty"):
        return "dump: a non-empty directory was accepted"
    if isinstance(obs["restore"], Err):
        return f"restore: restore_simulation raised: {obs['restore'].msg}"
    msg = compare_snapshots(obs["orig"], obs["rest"], "after restore")
    if msg:
        return msg
    for k, snap in enumerate(obs["again"]):
        if isinstance(snap, Err):
            return f"again: restore number {k + 2} of the same dump raised: {snap.msg}"
        if snap["diff"]:
            return "again-" + snap["diff"]
    for k, listing in enumerate(obs["listing"][1:]):
        if listing != obs["listing"][0]:
            gone = [f for f in obs["listing"][0] if f not in listing]
            new = [f for f in listing if f not in obs["listing"][0]]
            return (f"dump-modified: the dump directory changed after restore number {k + 1}: "
                    f"removed/changed {gone[:6]}, added {new[:6]}")
    for k, (a, b) in enumerate(obs["later"]):
        if isinstance(a, Err) or isinstance(b, Err):
            if not (isinstance(a, Err) and isinstance(b, Err) and a.kind == b.kind):
                return f"later: request {k} {case['later'][k][:3]}: original {a!r}, restored {b!r}"
        elif a != b:
            return f"later: request {k} {case['later'][k][:3]}: original {a!r}, restored {b!r}"
    if case.get("restore_opts"):
        # options given to restore may legitimately change what later calculations keep in the
        # holders (cache opt-out, memory configuration): only the answers are claimed
        return None
    return compare_snapshots(obs["orig_final"], obs["rest_final"], "after the later requests")


def _n_arrays(snap):
    return sum(len(v) for v in snap["vars"].values())


def nontrivial(case, obs):
    if obs == "skip" or isinstance(obs, Err) or obs.get("restore") != "ok":
        return False
    return _n_arrays(obs["rest"]) >= 2 and any(
        not isinstance(a, Err) and a is not None for a, _ in obs["later"])


def classify(case, obs):
    if obs == "skip":
        return "skipped-inexact"
    if isinstance(obs, Err):
        return "driver-error"
    if case["kind"] == "rich":
        types = set()
        for name, known in obs.get("rest", {}).get("vars", {}).items():
            if known:
                types.add((RICH_INPUTS.get(name) or ("", "formula"))[1].split(":")[0])
        if case.get("big"):
            return "rich:big-population"
        return "rich:" + "+".join(sorted(types))
    if isinstance(obs["dump"], Err):
        return "eng:dump-refused"
    tags = ["persons-only" if case["persons_only"] else "groups"]
    pop = case["pop"]
    if not case["persons_only"]:
        used = set(pop["ids"])
        if pop["count"] - 1 not in used:
            tags.append("trailing-empty")
        elif len(used) < pop["count"]:
            tags.append("inner-empty")
    if pop.get("positions") is not None:
        tags.append("explicit-positions")
    if case.get("restore_opts"):
        tags.append("restore-options")
    if case["cfg"].get("disk"):
        tags.append("disk")
    units = {rules.UNITS[e[0][1]] for e in obs.get("cache_rest") or []}
    if "eternity" in units:
        tags.append("eternal")
    if units & {"week", "weekday"}:
        tags.append("weeks")
    if not rules.is_ranked(case["sys"]):
        tags.append("self-dependent")
    return "eng:" + "+".join(tags)


def neighbours(case, rng):
    """cases near a mismatching one: fewer requests before / after the dump"""
    out = []
    if case["kind"] != "eng":
        return out
    for k in range(len(case["requests"])):
        c = copy.deepcopy(case)
        del c["requests"][k]
        out.append(c)
    for k in range(len(case["later"])):
        c = copy.deepcopy(case)
        del c["later"][k]
        out.append(c)
    return out


def shrink(case, still_fails):
    """greedy removal of requests"""
    cur = copy.deepcopy(case)
    for field in ("later", "requests"):
        k = 0
        while k < len(cur[field]):
            c = copy.deepcopy(cur)
            del c[field][k]
            if still_fails(c):
                cur = c
            else:
                k += 1
    return cur
