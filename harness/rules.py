"""Rule systems as data: generator, compiler to REAL openfisca Variable subclasses,
driver running request sequences on a real Simulation, and rendering as Coq terms of
coq/model/Engine.v.  Shared by the engine properties (C01 C02 C03 C17 C18 ...).

A system is JSON-able:

  sys  = {"vars": [var...], "params": [[[y,m,d], z|None]...]..., "switches": [k...], "max_loops": L}
  var  = {"ent": "person"|"group", "type": "int"|"float"|"bool", "unit": unit, "end": [y,m,d]|None,
          "formulas": [[[y,m,d], expr]...] (ascending), "default": z, "neutral": bool}
  expr = ["const", z] | ["dep", v, ptrans, opt] | ["bin", op, a, b] | ["not", a] | ["where", c, a, b]
       | ["param", k] | ["agg", g, role|None, a] | ["nb", role|None] | ["project", role|None, a]
       | ["field", f] | ["raise", k]
  ptrans = "same" | "this_year" | ... | ["offset", n] | ["fixed", period] | "bad"
  period = [unit, [y,m,d], size]
  pop  = {"count": g, "ids": [...], "roles": [...]}        (roles: 0 parent, 1 child, 2 head (unique, max 1))
  cfg  = {"trace": bool, "disk": bool, "priority": [v...], "drop": [v...], "blacklist": [v...], "opt_out": bool}
  request = ["calc", v, period] | ["add", v, period] | ["div", v, period] | ["set", v, period, [z...]]
          | ["delete", v, period|None] | ["get", v, period] | ["switch", k, on]
"""
from __future__ import annotations

import datetime
import fractions
import shutil
import warnings

import numpy

from openfisca_core import periods, populations
from openfisca_core.entities import build_entity
from openfisca_core.experimental import MemoryConfig
from openfisca_core.parameters import ParameterNode
from openfisca_core.periods import DateUnit
from openfisca_core.simulations.simulation_builder import SimulationBuilder
from openfisca_core.taxbenefitsystems import TaxBenefitSystem
from openfisca_core.variables import Variable

from common import Err, cbool, clist, copt, cz, errkind

UNITS = ["weekday", "week", "day", "month", "year", "eternity"]
UNIT_COQ = {"weekday": "Weekday", "week": "Week", "day": "Day", "month": "Month", "year": "Year",
            "eternity": "Eternity"}
UNIT_OBJ = {"weekday": DateUnit.WEEKDAY, "week": DateUnit.WEEK, "day": DateUnit.DAY,
            "month": DateUnit.MONTH, "year": DateUnit.YEAR, "eternity": DateUnit.ETERNITY}
TYPES = {"int": int, "float": float, "bool": bool}
ENT_KEY = {"person": "person", "group": "household"}
ROLE_KEYS = ["parent", "child", "head"]
EXACT_LIMIT = 2 ** 22          # |values| below this are exact in int32 and float32


class HarnessRaise(Exception):
    """What a formula raises when its switch is on (maps to the error kind EOther)."""


class HarnessAbort(BaseException):
    """Raised instead of HarnessRaise by switches k with k % 3 == 2: an interruption that is
    NOT an Exception subclass (like KeyboardInterrupt) passing through the engine; do_request
    turns it into HarnessRaise once it has left the engine."""


# ---------------------------------------------------------------------------------------
# periods
# ---------------------------------------------------------------------------------------

def mk_period(p):
    unit, (y, m, d), size = p
    if unit == "eternity":
        return periods.period("eternity")
    return periods.Period((UNIT_OBJ[unit], periods.Instant((y, m, d)), size))


def period_json(p):
    """openfisca Period -> JSON period"""
    unit = str(p.unit.value if hasattr(p.unit, "value") else p.unit)
    s = p.start
    return [unit, [int(s[0]), int(s[1]), int(s[2])], int(p.size)]


def period_key(pj):
    unit, (y, m, d), size = pj
    return [UNITS.index(unit), y, m, d, size]


ETERNITY = ["eternity", [-1, -1, -1], -1]


def apply_ptrans(pt, period):
    if pt == "same":
        return period
    if pt == "this_year":
        return period.this_year
    if pt == "first_month":
        return period.first_month
    if pt == "first_day":
        return period.first_day
    if pt == "first_week":
        return period.first_week
    if pt == "first_weekday":
        return period.first_weekday
    if pt == "last_month":
        return period.last_month
    if pt == "last_year":
        return period.last_year
    if pt == "n_2":
        return period.n_2
    if pt == "bad":
        return "not-a-period"
    if pt[0] == "offset":
        return period.offset(pt[1])
    if pt[0] == "fixed":
        return mk_period(pt[1])
    raise AssertionError(pt)


# ---------------------------------------------------------------------------------------
# compiler: expr -> code calling the public API
# ---------------------------------------------------------------------------------------

def var_name(sys, v):
    return f"v{v}" if v < len(sys["vars"]) else f"ghost{v}"


def options_of(o):
    return {"plain": None, "add": [populations.ADD], "divide": [populations.DIVIDE],
            "both": [populations.ADD, populations.DIVIDE], "unknown": ["LAGRANGIAN"]}[o]


def ev(sys, switches, e, ent, sim, period, parameters):
    pop = sim.populations[ENT_KEY[ent]]
    tag = e[0]
    if tag == "const":
        return numpy.full(pop.count, e[1])
    if tag == "dep":
        q = apply_ptrans(e[2], period)
        options = options_of(e[3])
        if e[3] == "both" and e[1] % 2 == 1:
            options = options[::-1]      # both orders of the two options are exercised
        r = pop(var_name(sys, e[1]), q, options) + 0
        if e[3] == "divide":
            x = numpy.asarray(r, dtype=numpy.float64)
            if numpy.any(numpy.isfinite(x) & (x != numpy.floor(x))):
                # DESIGN section 4: only exact quotients are compared; a later cast to bool or a comparison
                # would hide the rounding from ints() (a malformed cross-family DIVIDE can be accepted)
                raise Inexact(f"inexact DIVIDE dependency: {x.tolist()!r}")
        return r
    if tag == "bin":
        a = ev(sys, switches, e[2], ent, sim, period, parameters)
        b = ev(sys, switches, e[3], ent, sim, period, parameters)
        op = e[1]
        if op == "add":
            return a + b
        if op == "sub":
            return a - b
        if op == "mul":
            return a * b
        if op == "min":
            return numpy.minimum(a, b)
        if op == "max":
            return numpy.maximum(a, b)
        if op == "lt":
            return numpy.where(a < b, 1, 0)
        if op == "le":
            return numpy.where(a <= b, 1, 0)
        if op == "eq":
            return numpy.where(a == b, 1, 0)
        if op == "and":
            return numpy.where((a != 0) & (b != 0), 1, 0)
        if op == "or":
            return numpy.where((a != 0) | (b != 0), 1, 0)
        raise AssertionError(op)
    if tag == "not":
        a = ev(sys, switches, e[1], ent, sim, period, parameters)
        return numpy.where(a == 0, 1, 0)
    if tag == "where":
        c = ev(sys, switches, e[1], ent, sim, period, parameters)
        a = ev(sys, switches, e[2], ent, sim, period, parameters)
        b = ev(sys, switches, e[3], ent, sim, period, parameters)
        return numpy.where(c != 0, a, b)
    if tag == "param":
        value = getattr(parameters(period), f"p{e[1]}")
        return numpy.full(pop.count, value)
    hh = sim.populations["household"]
    if tag == "agg":
        a = ev(sys, switches, e[3], "person", sim, period, parameters)
        role = None if e[2] is None else role_obj(sim, e[2])
        if e[1] == "sum":
            return hh.sum(a, role=role) + 0
        if e[1] == "any":
            return hh.any(a, role=role) + 0
        if e[1] == "all":
            return hh.all(a, role=role) + 0
        if e[1] == "from_person":
            return hh.value_from_person(a, role) + 0
        raise AssertionError(e[1])
    if tag == "nb":
        role = None if e[1] is None else role_obj(sim, e[1])
        return hh.nb_persons(role=role) + 0
    if tag == "project":
        a = ev(sys, switches, e[2], "group", sim, period, parameters)
        role = None if e[1] is None else role_obj(sim, e[1])
        return hh.project(a, role=role) + 0
    if tag == "field":
        f = e[1]
        z = period.size if f == "size" else getattr(period.start, f)
        return numpy.full(pop.count, int(z))
    if tag == "raise":
        if e[1] in switches:
            if e[1] % 3 == 2:
                raise HarnessAbort(f"switch {e[1]}")
            raise HarnessRaise(f"switch {e[1]}")
        return numpy.full(pop.count, 0)
    raise AssertionError(tag)


def role_obj(sim, r):
    ent = sim.populations["household"].entity
    return [x for x in ent.roles if x.key == ROLE_KEYS[r]][0]


def formula_name(d):
    y, m, dd = d
    if (y, m, dd) == (1, 1, 1):
        return "formula"
    return f"formula_{y:04d}_{m:02d}_{dd:02d}"


def make_formula(sys, switches, e, ent):
    def formula(population, period, parameters):
        return ev(sys, switches, e, ent, population.simulation, period, parameters)
    return formula


def build_system(sys, switches):
    """Real TaxBenefitSystem for a JSON system.  `switches` is a mutable set consulted by the
    compiled formulas."""
    person = build_entity(key="person", plural="persons", label="", is_person=True)
    household = build_entity(key="household", plural="households", label="", roles=[
        {"key": "parent", "plural": "parents", "max": 2},
        {"key": "child", "plural": "children"},
        {"key": "head", "plural": "heads", "max": 1},
    ])
    tbs = TaxBenefitSystem([person, household])
    for i, v in enumerate(sys["vars"]):
        attrs = {
            "value_type": TYPES[v["type"]],
            "entity": person if v["ent"] == "person" else household,
            "definition_period": UNIT_OBJ[v["unit"]],
            "default_value": TYPES[v["type"]](v["default"]),
        }
        if v.get("end"):
            y, m, d = v["end"]
            attrs["end"] = f"{y:04d}-{m:02d}-{d:02d}"
        for start, e in v["formulas"]:
            attrs[formula_name(start)] = make_formula(sys, switches, e, v["ent"])
        cls = type(f"v{i}", (Variable,), attrs)
        tbs.add_variable(cls)
        if v.get("neutral"):
            tbs.neutralize_variable(f"v{i}")
    data = {}
    for k, hist in enumerate(sys.get("params", [])):
        data[f"p{k}"] = {"values": {f"{y:04d}-{m:02d}-{d:02d}": {"value": z} for (y, m, d), z in hist}}
    tbs.parameters = ParameterNode("", data=data) if data else ParameterNode("", data={})
    tbs._parameters_at_instant_cache = {}
    return tbs


def build_simulation(tbs, pop, cfg, sys):
    n = len(pop["ids"])
    sb = SimulationBuilder()
    sb.create_entities(tbs)
    sb.declare_person_entity("person", [f"p{i}" for i in range(n)])
    hp = sb.declare_entity("household", [f"h{j}" for j in range(pop["count"])])
    hp.members_entity_id = numpy.array(pop["ids"], dtype=numpy.int64)
    ent = hp.entity
    roles = {k: [x for x in ent.roles if x.key == ROLE_KEYS[k]][0] for k in range(len(ROLE_KEYS))}
    hp.members_role = numpy.array([roles[r] for r in pop["roles"]], dtype=object)
    sim = sb.build(tbs)
    sim.max_spiral_loops = sys.get("max_loops", 1)
    cfg = cfg or {}
    if cfg.get("disk") or cfg.get("drop"):
        sim.memory_config = MemoryConfig(
            max_memory_occupation=0 if cfg.get("disk") else 1,
            priority_variables=[f"v{v}" for v in cfg.get("priority", [])],
            variables_to_drop=[f"v{v}" for v in cfg.get("drop", [])],
        )
        if not cfg.get("disk"):
            # memory_config with an unreachable threshold: only variables_to_drop matters
            sim.memory_config.max_memory_occupation_pc = 1000
    if cfg.get("blacklist"):
        tbs.cache_blacklist = {f"v{v}" for v in cfg["blacklist"]}
    if cfg.get("opt_out"):
        sim.opt_out_cache = True
    if cfg.get("trace"):
        sim.trace = True
    return sim


def nostore(cfg, v):
    cfg = cfg or {}
    return v in cfg.get("drop", []) or (bool(cfg.get("opt_out")) and v in cfg.get("blacklist", []))


# ---------------------------------------------------------------------------------------
# driver
# ---------------------------------------------------------------------------------------

class Inexact(Exception):
    pass


def ints(a):
    """numpy array -> list of Python ints; Inexact when a value is not an exactly
    representable integer (DESIGN section 4: such cases are discarded and counted)."""
    a = numpy.asarray(a)
    if a.ndim == 0:
        a = a.reshape(1)
    out = []
    for x in a.tolist():
        if isinstance(x, bool):
            out.append(int(x))
            continue
        if isinstance(x, float):
            if x != x or x in (float("inf"), float("-inf")) or x != int(x):
                raise Inexact(repr(x))
            x = int(x)
        if not isinstance(x, int):
            raise Inexact(repr(x))
        if abs(x) >= EXACT_LIMIT:
            raise Inexact(f"too large: {x}")
        out.append(x)
    return out


def cache_obs(sim, sys):
    entries = []
    for i in range(len(sys["vars"])):
        holder = sim.get_holder(f"v{i}")
        if holder.variable.is_neutralized:
            # get_array answers the default for every period; the stores themselves are observed
            pass
        for p in holder.get_known_periods():
            arr = holder._memory_storage.get(p)
            if arr is None and holder._disk_storage:
                arr = holder._disk_storage.get(p)
            entries.append([[i] + period_key(period_json(p)), ints(arr)])
    entries.sort(key=lambda e: e[0])
    return entries


SAME_FAMILY = {("year", "year"), ("year", "month"), ("year", "day"), ("month", "month"), ("month", "day"),
               ("day", "day"), ("week", "week"), ("week", "weekday"), ("weekday", "weekday")}


def divide_denominator(sys, v, pj):
    """How many requested units the enclosing definition period holds.  Same calendar family:
    counted independently of the engine (Python's calendar).  Cross-family requests (weeks
    in months or years ...) are accepted by the code with an approximation; no claim is
    made for them and the engine's own period API provides the number."""
    import calendar
    du = sys["vars"][v]["unit"]
    unit, (y, m, d), size = pj
    if (du, unit) in SAME_FAMILY:
        if du == unit:
            return 1
        if (du, unit) == ("year", "month"):
            return 12
        if (du, unit) == ("year", "day"):
            return 366 if calendar.isleap(y) else 365
        if (du, unit) == ("month", "day"):
            return calendar.monthrange(y, m)[1]
        if (du, unit) == ("week", "weekday"):
            return 7
    p = mk_period(pj)
    try:
        cp = {"year": lambda: p.this_year, "month": lambda: p.first_month, "day": lambda: p.first_day,
              "week": lambda: p.first_week, "weekday": lambda: p.first_weekday}[du]()
        return int({"year": lambda: cp.size_in_years, "month": lambda: cp.size_in_months,
                    "day": lambda: cp.size_in_days, "week": lambda: cp.size_in_weeks,
                    "weekday": lambda: cp.size_in_weekdays}[unit]())
    except Exception:  # noqa: BLE001
        return None


def period_arg(r):
    """The period of a top-level request as the caller passes it: a Period object, or (for
    about half of the requests, chosen from the request itself) its text form when that
    text denotes the same period - the public API accepts both."""
    p = mk_period(r[2])
    if (r[1] + r[2][1][1] + r[2][1][2]) % 2 == 0:
        try:
            text = str(p)
            if periods.period(text) == p:
                return text
        except Exception:  # noqa: BLE001
            pass
    return p


def do_request(sim, sys, switches, r):
    try:
        return _do_request(sim, sys, switches, r)
    except HarnessAbort as e:
        raise HarnessRaise(str(e)) from None


def _do_request(sim, sys, switches, r):
    kind = r[0]
    if kind == "switch":
        if r[2]:
            switches.add(r[1])
        else:
            switches.discard(r[1])
        return None
    name = var_name(sys, r[1])
    if kind == "calc":
        return ints(sim.calculate(name, period_arg(r)))
    if kind == "add":
        return ints(sim.calculate_add(name, period_arg(r)))
    if kind == "div":
        res = numpy.asarray(sim.calculate_divide(name, period_arg(r)), dtype=numpy.float64)
        den = divide_denominator(sys, r[1], r[2])
        if den is None:
            raise Inexact("no independent denominator")
        nums = []
        for x in (res * den).tolist():
            k = round(x)
            if abs(x - k) > 1e-3 * max(1.0, abs(x)):
                return ["divide-mismatch", res.tolist(), den]
            nums.append(k)
        return [nums, den]
    if kind == "set":
        sim.set_input(name, mk_period(r[2]), numpy.array(r[3]))
        return None
    if kind == "delete":
        sim.delete_arrays(name, None if r[2] is None else mk_period(r[2]))
        return None
    if kind == "get":
        a = sim.get_array(name, mk_period(r[2]))
        return None if a is None else ints(a)
    raise AssertionError(kind)


def run_case(case):
    """Runs the requests on a real simulation.  Returns the list of per-request observations
    [answer, stack depth, cache], or the string "skip" for an inexact case."""
    sys, pop, cfg = case["sys"], case["pop"], case.get("cfg") or {}
    switches = set(sys.get("switches", []))
    with warnings.catch_warnings():
        warnings.simplefilter("ignore")
        tbs = build_system(sys, switches)
        sim = build_simulation(tbs, pop, cfg, sys)
        out = []
        try:
            for r in case["requests"]:
                try:
                    a = do_request(sim, sys, switches, r)
                except Inexact:
                    raise
                except Exception as e:  # noqa: BLE001
                    a = Err(errkind(e), f"{type(e).__name__}: {e}"[:200])
                out.append([a, len(sim.tracer.stack), cache_obs(sim, sys)])
        except Inexact:
            return "skip"
        finally:
            d = getattr(sim, "_data_storage_dir", None)
            if d:
                shutil.rmtree(d, ignore_errors=True)
        return out


# ---------------------------------------------------------------------------------------
# Coq rendering
# ---------------------------------------------------------------------------------------

def cnat(n):
    return f"{int(n)}%nat"


def cdate(d):
    y, m, dd = d
    return f"({cz(y)}, {cz(m)}, {cz(dd)})"


def cperiod(p):
    unit, d, size = p
    return f"({UNIT_COQ[unit]}, {cdate(d)}, {cz(size)})"


def cptrans(pt):
    if isinstance(pt, str):
        return {"same": "PSame", "this_year": "PThisYear", "first_month": "PFirstMonth",
                "first_day": "PFirstDay", "first_week": "PFirstWeek", "first_weekday": "PFirstWeekday",
                "last_month": "PLastMonth", "last_year": "PLastYear", "n_2": "PN2", "bad": "PBad"}[pt]
    if pt[0] == "offset":
        return f"(POffset {cz(pt[1])})"
    if pt[0] == "fixed":
        return f"(PFixed {cperiod(pt[1])})"
    raise AssertionError(pt)


COPT = {"plain": "OPlain", "add": "OAdd", "divide": "ODivide", "both": "OBoth", "unknown": "OUnknown"}
CBIN = {"add": "BAdd", "sub": "BSub", "mul": "BMul", "min": "BMin", "max": "BMax", "lt": "BLt",
        "le": "BLe", "eq": "BEq", "and": "BAnd", "or": "BOr"}
CAGG = {"sum": "GSum", "any": "GAny", "all": "GAll", "from_person": "GFromPerson"}
CFIELD = {"year": "FYear", "month": "FMonth", "day": "FDay", "size": "FSize"}


def cexpr(e):
    tag = e[0]
    if tag == "const":
        return f"(EConst {cz(e[1])})"
    if tag == "dep":
        return f"(EDep {cnat(e[1])} {cptrans(e[2])} {COPT[e[3]]})"
    if tag == "bin":
        return f"(EBin {CBIN[e[1]]} {cexpr(e[2])} {cexpr(e[3])})"
    if tag == "not":
        return f"(ENot {cexpr(e[1])})"
    if tag == "where":
        return f"(EWhere {cexpr(e[1])} {cexpr(e[2])} {cexpr(e[3])})"
    if tag == "param":
        return f"(EParam {cnat(e[1])})"
    if tag == "agg":
        return f"(EAgg {CAGG[e[1]]} {copt(e[2], cnat)} {cexpr(e[3])})"
    if tag == "nb":
        return f"(ENb {copt(e[1], cnat)})"
    if tag == "project":
        return f"(EProject {copt(e[1], cnat)} {cexpr(e[2])})"
    if tag == "field":
        return f"(EField {CFIELD[e[1]]})"
    if tag == "raise":
        return f"(ERaise {cnat(e[1])})"
    raise AssertionError(tag)


def date_ord(d):
    return datetime.date(*d).toordinal()


def cvar(v, ns):
    ent = "EPerson" if v["ent"] == "person" else "EGroup"
    ty = {"int": "TInt", "float": "TFloat", "bool": "TBool"}[v["type"]]
    fs = clist([f"({cdate(s)}, {cexpr(e)})" for s, e in v["formulas"]])
    return (f"(mk_var {ent} {ty} {UNIT_COQ[v['unit']]} {copt(v.get('end'), cdate)} {fs} "
            f"{cz(v['default'])} {cbool(v.get('neutral'))} {cbool(ns)})")


def csys(sys, cfg):
    vs = clist([cvar(v, nostore(cfg, i)) for i, v in enumerate(sys["vars"])])
    ps = clist([clist([f"({cz(date_ord(d))}, {copt(z, cz)})" for d, z in sorted(h, key=lambda x: x[0], reverse=True)])
                for h in sys.get("params", [])])
    sw = clist([cnat(k) for k in sys.get("switches", [])])
    return f"(mk_sys {vs} {ps} {sw} {cnat(sys.get('max_loops', 1))})"


def cpop(pop):
    return f"(mk_pop {cnat(pop['count'])} {clist([cnat(i) for i in pop['ids']])} {clist([cnat(r) for r in pop['roles']])})"


def crequest(r):
    kind = r[0]
    if kind == "calc":
        return f"RCalc {cnat(r[1])} {cperiod(r[2])}"
    if kind == "add":
        return f"RAdd {cnat(r[1])} {cperiod(r[2])}"
    if kind == "div":
        return f"RDivide {cnat(r[1])} {cperiod(r[2])}"
    if kind == "set":
        return f"RSetInput {cnat(r[1])} {cperiod(r[2])} {clist([cz(z) for z in r[3]])}"
    if kind == "delete":
        return f"RDelete {cnat(r[1])} {copt(r[2], cperiod)}"
    if kind == "get":
        return f"RGet {cnat(r[1])} {cperiod(r[2])}"
    if kind == "switch":
        return f"RSwitch {cnat(r[1])} {cbool(r[2])}"
    raise AssertionError(kind)


def coq_case(case, skip=False):
    if skip:
        return "CSkip"
    return (f"(CEng {csys(case['sys'], case.get('cfg'))} {cpop(case['pop'])} "
            f"{clist([crequest(r) for r in case['requests']])})")


# ---------------------------------------------------------------------------------------
# generator
# ---------------------------------------------------------------------------------------

BASE_YEARS = (2017, 2018, 2019, 2020)


def gen_pop(rng, max_persons=5):
    n = rng.randint(1, max_persons)
    count = rng.randint(1, min(4, n + 1))
    shape = rng.random()
    if shape < 0.4:
        ids = sorted(rng.randrange(count) for _ in range(n))
    else:
        ids = [rng.randrange(count) for _ in range(n)]
    if rng.random() < 0.3 and count > 1:
        # a group without members (often the last one)
        empty = count - 1 if rng.random() < 0.6 else rng.randrange(count)
        ids = [i if i != empty else (empty + 1) % count for i in ids]
    roles, parents = [], {}
    for g in ids:
        if parents.get(g, 0) < 2 and rng.random() < 0.6:
            roles.append(0)
            parents[g] = parents.get(g, 0) + 1
        else:
            roles.append(1)
    # the unique role: at most one head per group, sometimes none, wherever the person is stored
    for g in range(count):
        members = [i for i in range(n) if ids[i] == g]
        if members and rng.random() < 0.7:
            roles[rng.choice(members)] = 2
    return {"count": count, "ids": ids, "roles": roles}


def gen_period(rng, unit, size=1, year=None):
    y = year if year is not None else rng.choice(BASE_YEARS)
    if unit == "year":
        return ["year", [y, 1, 1], size]
    if unit == "month":
        return ["month", [y, rng.choice([1, 1, 2, 3, 6, 12, 12]), 1], size]
    if unit == "day":
        m = rng.choice([1, 2, 2, 3, 12])
        d = rng.choice([1, 1, 15, 28])
        return ["day", [y, m, d], size]
    if unit in ("week", "weekday"):
        # a Monday in the ISO calendar
        monday = datetime.date.fromisocalendar(y, rng.choice([1, 2, 10, 52]), 1)
        if unit == "weekday":
            monday += datetime.timedelta(days=rng.randrange(7))
        return [unit, [monday.year, monday.month, monday.day], size]
    return list(ETERNITY)


def dep_choices(u_i, u_j, j_divisible):
    """(ptrans, opt) pairs that are valid requests of a variable of unit u_j from a formula
    evaluated for a period of unit u_i."""
    out = []
    if u_j == "eternity":
        return [("same", "plain")]
    if u_i == "eternity":
        return []
    if u_j == u_i:
        out += [("same", "plain"), (["offset", -1], "plain"), (["offset", 1], "plain")]
        if u_i == "month":
            out += [("last_month", "plain")]
        if u_i == "year":
            out += [("last_year", "plain"), ("n_2", "plain")]
    pairs = {
        ("month", "year"): [("this_year", "plain"), ("last_year", "plain")] + ([("same", "divide")] if j_divisible else []),
        ("day", "year"): [("this_year", "plain")],
        ("day", "month"): [("first_month", "plain"), ("last_month", "plain")],
        ("year", "month"): [("same", "add"), ("first_month", "plain")],
        ("year", "day"): [("first_day", "plain")],
        ("month", "day"): [("same", "add"), ("first_day", "plain")],
        ("week", "weekday"): [("same", "add"), ("first_weekday", "plain")],
        ("weekday", "week"): [("first_week", "plain")] + ([("same", "divide")] if j_divisible else []),
    }
    out += pairs.get((u_i, u_j), [])
    return out


BAD_DEPS = [("same", "both"), ("same", "unknown"), ("bad", "plain"), ("this_year", "add"),
            ("same", "divide"), ("first_day", "plain"), ("same", "add")]


def gen_expr(rng, sys_vars, i, ent, unit, depth, profile, allowed):
    """allowed: indices the expression may depend on."""
    def leaf():
        r = rng.random()
        cands = [j for j in allowed if sys_vars[j]["ent"] == ent]
        if cands and r < 0.6:
            j = rng.choice(cands)
            ch = dep_choices(unit, sys_vars[j]["unit"], sys_vars[j].get("divisible", False))
            if profile.get("bad") and rng.random() < profile["bad"]:
                pt, o = rng.choice(BAD_DEPS)
                if rng.random() < 0.2:
                    j = len(sys_vars) + 3   # unknown variable
                if rng.random() < 0.15:
                    pt = ["fixed", gen_period(rng, rng.choice(["month", "year"]), size=2)]
                return ["dep", j, pt, o]
            if ch:
                pt, o = rng.choice(ch)
                return ["dep", j, pt, o]
        if r < 0.7 and profile.get("nparams") and unit != "eternity":
            return ["param", rng.randrange(profile["nparams"])]
        if r < 0.8 and unit != "eternity":
            return ["field", rng.choice(["year", "month", "day", "size"])]
        if profile.get("raise") and rng.random() < profile["raise"]:
            return ["raise", rng.randrange(3)]
        return ["const", rng.randint(-6, 12)]
    if depth <= 0 or rng.random() < 0.25:
        return leaf()
    r = rng.random()
    sub = lambda e=ent: gen_expr(rng, sys_vars, i, e, unit, depth - 1, profile, allowed)  # noqa: E731
    if r < 0.45:
        op = rng.choice(["add", "add", "sub", "min", "max", "lt", "le", "eq", "and", "or"])
        return ["bin", op, sub(), sub()]
    if r < 0.52:
        return ["bin", "mul", ["const", rng.randint(-3, 4)], leaf()]
    if r < 0.58:
        return ["not", sub()]
    if r < 0.70:
        return ["where", sub(), sub(), sub()]
    if r < 0.88:
        role = rng.choice([None, None, 0, 1, 2])
        if ent == "group":
            if rng.random() < 0.25:
                return ["nb", role]
            g = rng.choice(["sum", "sum", "any", "all"])
            if rng.random() < 0.2:
                g, role = "from_person", 2      # only with the unique role
            return ["agg", g, role, sub("person")]
        return ["project", role, sub("group")]
    return leaf()


def gen_system(rng, profile):
    """profile keys: nvars (lo, hi), units (weights), spiral (prob of a back/self dependency),
    bad (prob of a malformed dependency), raise, nparams, max_loops."""
    n = rng.randint(*profile.get("nvars", (3, 8)))
    units = profile.get("units", ["month"] * 5 + ["year"] * 4 + ["day"] * 2 + ["eternity"] * 2 + ["week", "weekday"])
    nparams = profile.get("nparams", 2)
    vs, is_inputs = [], []
    for i in range(n):
        unit = rng.choice(units)
        ent = rng.choice(["person", "person", "group"])
        ty = rng.choice(["int", "int", "float", "float", "bool"])
        v = {"ent": ent, "type": ty, "unit": unit, "end": None, "formulas": [],
             "default": rng.choice([0, 0, 1, 3, -2]) if ty != "bool" else rng.choice([0, 1]),
             "neutral": False}
        is_input = i < 2 or rng.random() < 0.2
        if is_input and ty != "bool" and unit in ("year", "week") and rng.random() < 0.5:
            v["divisible"] = True
            v["default"] = rng.choice([0, 84, 168])
        vs.append(v)
        is_inputs.append(is_input)
    for i, v in enumerate(vs):
        if is_inputs[i]:
            continue
        unit, ent = v["unit"], v["ent"]
        allowed = list(range(i))
        if profile.get("spiral") and rng.random() < profile["spiral"]:
            allowed = list(range(min(n, i + 2)))      # may read itself or a later variable
        nform = 1 if rng.random() < 0.7 else rng.randint(2, 3)
        starts = [[1, 1, 1]] if rng.random() < 0.6 else [[rng.choice([2015, 2018]), rng.choice([1, 7]), 1]]
        while len(starts) < nform:
            s = [rng.choice([2016, 2018, 2019, 2020]), rng.choice([1, 1, 6]), rng.choice([1, 1, 15])]
            if s not in starts:
                starts.append(s)
        starts.sort()
        if rng.random() < 0.15 and unit != "eternity":
            e = [rng.choice([2018, 2019, 2020])] + rng.choice([[6, 30], [12, 15], [1, 1], [6, 1], [12, 31], [2, 28]])
            if all(s <= e for s in starts):
                v["end"] = e
        for s in starts:
            v["formulas"].append([s, gen_expr(rng, vs, i, ent, unit, profile.get("depth", 3), profile, allowed)])
        if rng.random() < profile.get("neutral", 0.05):
            v["neutral"] = True
    for v in vs:
        v.pop("divisible_tmp", None)
    params = []
    for _ in range(nparams):
        h = []
        for y in sorted(rng.sample([2000, 2015, 2017, 2018, 2019, 2020], rng.randint(1, 4))):
            h.append([[y, rng.choice([1, 1, 7]), 1], rng.choice([rng.randint(-5, 9), rng.randint(0, 5), None])
                      if y != 2000 else rng.randint(0, 5)])
        if h[0][0][0] != 2000 and rng.random() < 0.8:
            h.insert(0, [[2000, 1, 1], rng.randint(0, 5)])
        params.append(h)
    return {"vars": vs, "params": params, "switches": [], "max_loops": profile.get("max_loops", 1)}


def input_values(rng, v, n):
    if v["type"] == "bool":
        return [rng.randint(0, 1) for _ in range(n)]
    if v.get("divisible"):
        return [84 * rng.randint(-3, 12) for _ in range(n)]
    return [rng.randint(-20, 100) for _ in range(n)]


def count_for(pop, v):
    return len(pop["ids"]) if v["ent"] == "person" else pop["count"]


def gen_requests(rng, sys, pop, profile):
    vs = sys["vars"]
    reqs = []
    year = rng.choice(BASE_YEARS)
    # inputs
    for i, v in enumerate(vs):
        if v["formulas"] and rng.random() < 0.85:
            continue
        if rng.random() < 0.8:
            for _ in range(rng.randint(1, 3)):
                p = gen_period(rng, v["unit"], year=rng.choice([year, year, year - 1]))
                if v["unit"] == "month" and rng.random() < 0.5:
                    p = ["month", [year, rng.randint(1, 12), 1], 1]
                reqs.append(["set", i, p, input_values(rng, v, count_for(pop, v))])
    # boundary: inputs and requests for the period starting exactly on a variable's end date, and the next one
    for i, v in enumerate(vs):
        if v.get("end") and v["unit"] in ("day", "month", "year") and rng.random() < 0.7:
            ey, em, ed = v["end"]
            aligned = (v["unit"] == "day") or (v["unit"] == "month" and ed == 1) or (v["unit"] == "year" and (em, ed) == (1, 1))
            at_end = [v["unit"], [ey, em, ed] if aligned else [ey, em if v["unit"] == "month" else 1, 1], 1]
            after = [v["unit"], [ey + 1, em if v["unit"] != "year" else 1, 1 if v["unit"] != "day" else ed], 1]
            if rng.random() < 0.7:
                reqs.append(["set", i, at_end, input_values(rng, v, count_for(pop, v))])
            if rng.random() < 0.4:
                reqs.append(["set", i, after, input_values(rng, v, count_for(pop, v))])
            reqs.append(["calc", i, at_end])
            reqs.append(["calc", i, after])
    nreq = rng.randint(*profile.get("nreq", (3, 8)))
    for _ in range(nreq):
        i = rng.randrange(len(vs))
        v = vs[i]
        u = v["unit"]
        r = rng.random()
        if profile.get("badreq") and rng.random() < profile["badreq"]:
            kind = rng.choice(["calc", "add", "div"])
            unit = rng.choice(["day", "month", "year", "week", "weekday", "eternity"])
            reqs.append([kind, i if rng.random() < 0.9 else len(vs) + 1,
                         gen_period(rng, unit, size=rng.choice([1, 1, 2, 3]), year=year)])
            continue
        if u == "eternity":
            reqs.append(["calc", i, gen_period(rng, rng.choice(["month", "year", "day"]), year=year)])
        elif r < 0.6:
            reqs.append(["calc", i, gen_period(rng, u, year=rng.choice([year, year, year + 1]))])
        elif r < 0.8:
            bigger = {"day": ["month", "day"], "month": ["year", "month"], "year": ["year"],
                      "weekday": ["week", "weekday"], "week": ["week"]}[u]
            bu = rng.choice(bigger)
            size = rng.choice([1, 1, 2, 3]) if not (u == "day" and bu == "month") else 1
            reqs.append(["add", i, gen_period(rng, bu, size=size, year=year)])
        elif r < 0.9:
            smaller = {"year": ["month", "day", "year"], "month": ["day", "month"], "week": ["weekday", "week"],
                       "day": ["day"], "weekday": ["weekday"]}[u]
            reqs.append(["div", i, gen_period(rng, rng.choice(smaller), year=year)])
        elif r < 0.95:
            reqs.append(["get", i, gen_period(rng, u, year=year)])
        else:
            reqs.append(["delete", i, rng.choice([None, gen_period(rng, rng.choice(["year", u, "month", "day", "week"]), year=year)])])
    return reqs


def gen_cfg(rng, sys, profile):
    if not profile.get("cfg"):
        return {}
    n = len(sys["vars"])
    some = lambda p: [i for i in range(n) if rng.random() < p]  # noqa: E731
    return {"trace": rng.random() < 0.5, "disk": rng.random() < 0.4, "priority": some(0.3),
            "drop": some(0.25), "blacklist": some(0.3), "opt_out": rng.random() < 0.5}


def gen_case(rng, profile):
    sys = gen_system(rng, profile)
    pop = gen_pop(rng, profile.get("max_persons", 5))
    cfg = gen_cfg(rng, sys, profile)
    reqs = gen_requests(rng, sys, pop, profile)
    for v in sys["vars"]:
        v.pop("divisible", None)
    return {"sys": sys, "pop": pop, "cfg": cfg, "requests": reqs}


# ---------------------------------------------------------------------------------------
# static facts about a case (for classification / oracles)
# ---------------------------------------------------------------------------------------

def deps_of(e, acc=None):
    acc = [] if acc is None else acc
    if e[0] == "dep":
        acc.append(e)
    for x in e[1:]:
        if isinstance(x, list) and x and isinstance(x[0], str) and x[0] in (
                "const", "dep", "bin", "not", "where", "param", "agg", "nb", "project", "field", "raise"):
            deps_of(x, acc)
    return acc


def is_ranked(sys):
    """every dependency points to a strictly smaller index (no self-dependence, no cycle)"""
    for i, v in enumerate(sys["vars"]):
        for _, e in v["formulas"]:
            for d in deps_of(e):
                if d[1] >= i and d[1] < len(sys["vars"]):
                    return False
    return True


def has_tag(sys, tag):
    def walk(e):
        if e[0] == tag:
            return True
        return any(isinstance(x, list) and x and isinstance(x[0], str) and walk(x) for x in e[1:]
                   if isinstance(x, list) and x and isinstance(x[0], str) and x[0] in (
                       "const", "dep", "bin", "not", "where", "param", "agg", "nb", "project", "field", "raise"))
    return any(walk(e) for v in sys["vars"] for _, e in v["formulas"])


def obs_to_coq(obs):
    """observation of run_case -> python structure renderable by common.cobs"""
    return obs
