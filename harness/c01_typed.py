"""Oracle-only stream of C01: variables of the value types the engine model does not carry
(Enum, date, str, and int/float/bool with formulas returning another dtype or a scalar):
"the result has the variable's declared type", default when no formula applies, input
precedence.  The Coq side receives CSkip for these cases (stated in c01.ASSUMPTIONS)."""
from __future__ import annotations

import datetime
import warnings

import numpy

from openfisca_core import periods
from openfisca_core.entities import build_entity
from openfisca_core.indexed_enums import Enum, EnumArray
from openfisca_core.periods import DateUnit
from openfisca_core.simulations.simulation_builder import SimulationBuilder
from openfisca_core.taxbenefitsystems import TaxBenefitSystem
from openfisca_core.variables import Variable

RETURNS = ["members", "names", "enumarray", "indices"]


def gen(rng):
    n = rng.randint(1, 4)
    nm = rng.choice([2, 3, 5, 130, 200])
    picks = [rng.randrange(nm) for _ in range(n)]
    return {"typed": True, "n": n, "nmembers": nm, "picks": picks,
            "default_index": rng.randrange(nm),
            "enum_returns": rng.choice(RETURNS),
            "date": [rng.choice([1, 1900, 1999, 2020, 9999]), rng.randint(1, 12), rng.randint(1, 28)],
            "date_returns": rng.choice(["datetime64", "date-objects", "scalar-date"]),
            "str_values": [rng.choice(["", "a", "zone_1", "x" * 40]) for _ in range(n)],
            "num_returns": rng.choice(["float64", "int64", "bool", "python-scalar", "float32-mixed"]),
            "num_values": [rng.choice([0, 1, 2, -3, 7]) for _ in range(n)],
            "with_input": rng.random() < 0.4,
            "month": [rng.choice([2017, 2018, 2019]), rng.randint(1, 12), 1]}


def run(case):
    with warnings.catch_warnings():
        warnings.simplefilter("ignore")
        return _run(case)


def _run(case):
    n, nm = case["n"], case["nmembers"]
    person = build_entity(key="person", plural="persons", label="", is_person=True)
    E = Enum("E", {f"m{i:03d}": f"m{i:03d}" for i in range(nm)})
    members = list(E)
    picks = case["picks"]
    d = datetime.date(*case["date"])

    def enum_value():
        how = case["enum_returns"]
        if how == "members":
            return numpy.array([members[i] for i in picks], dtype=object)
        if how == "names":
            return numpy.array([members[i].name for i in picks])
        if how == "enumarray":
            return EnumArray(numpy.array(picks, dtype=numpy.uint8 if nm <= 256 else numpy.int16), E)
        return numpy.array(picks)

    def date_value(count):
        how = case["date_returns"]
        if how == "datetime64":
            return numpy.full(count, numpy.datetime64(d.isoformat()))
        if how == "date-objects":
            return numpy.array([d] * count, dtype="datetime64[D]")
        return d

    def num_value(count):
        how = case["num_returns"]
        vals = case["num_values"]
        if how == "float64":
            return numpy.array(vals, dtype=numpy.float64)
        if how == "int64":
            return numpy.array(vals, dtype=numpy.int64)
        if how == "bool":
            return numpy.array([v != 0 for v in vals])
        if how == "python-scalar":
            return vals[0]
        return numpy.array(vals, dtype=numpy.float32) + numpy.float64(0.0)

    class v_enum(Variable):
        value_type = Enum
        possible_values = E
        default_value = members[case["default_index"]]
        entity = person
        definition_period = DateUnit.MONTH

        def formula_2018_01(p, period):
            return enum_value()

    class v_date(Variable):
        value_type = datetime.date
        entity = person
        definition_period = DateUnit.MONTH

        def formula_2018_01(p, period):
            return date_value(p.count)

    class v_str(Variable):
        value_type = str
        entity = person
        definition_period = DateUnit.MONTH
        default_value = "dflt"

        def formula_2018_01(p, period):
            return numpy.array(case["str_values"], dtype=object)

    class v_int(Variable):
        value_type = int
        entity = person
        definition_period = DateUnit.MONTH
        default_value = 5

        def formula_2018_01(p, period):
            return num_value(p.count)

    class v_float(Variable):
        value_type = float
        entity = person
        definition_period = DateUnit.MONTH
        default_value = 1.5

        def formula_2018_01(p, period):
            return num_value(p.count)

    class v_bool(Variable):
        value_type = bool
        entity = person
        definition_period = DateUnit.MONTH

        def formula_2018_01(p, period):
            return num_value(p.count)

    tbs = TaxBenefitSystem([person])
    for c in (v_enum, v_date, v_str, v_int, v_float, v_bool):
        tbs.add_variable(c)
    sb = SimulationBuilder()
    sb.create_entities(tbs)
    sb.declare_person_entity("person", [f"p{i}" for i in range(n)])
    sim = sb.build(tbs)
    y, m, _ = case["month"]
    per = periods.period(f"{y:04d}-{m:02d}")
    problems = []
    has_formula = (y, m) >= (2018, 1)
    if case["with_input"]:
        sim.set_input("v_int", per, numpy.array([9] * n))
        sim.set_input("v_enum", per, numpy.array([members[0].name] * n))

    def check(name, want_dtype, want_values, decode=None):
        try:
            got = sim.calculate(name, per)
        except Exception as e:  # noqa: BLE001
            problems.append(f"{name}: raised {type(e).__name__}: {str(e)[:80]}")
            return
        if name == "v_enum":
            if not isinstance(got, EnumArray) or got.possible_values is not E:
                problems.append(f"{name}: result is not an EnumArray of the declared enumeration ({type(got).__name__})")
                return
            vals = [str(x) for x in got.decode_to_str()]
        else:
            if got.dtype != want_dtype:
                problems.append(f"{name}: dtype {got.dtype} instead of the declared {want_dtype}")
            vals = got.tolist()
        if len(vals) != n:
            problems.append(f"{name}: {len(vals)} values for {n} persons")
        elif want_values is not None and vals != want_values:
            problems.append(f"{name}: values {vals[:4]} instead of {want_values[:4]}")

    if case["with_input"]:
        check("v_enum", None, [members[0].name] * n)
        check("v_int", numpy.int32, [9] * n)
    elif has_formula:
        check("v_enum", None, [members[i].name for i in picks])
        nv = case["num_values"]
        scal = case["num_returns"] == "python-scalar"
        ints = [nv[0]] * n if scal else list(nv)
        if case["num_returns"] == "bool":
            ints = [int(v != 0) for v in ints]
        check("v_int", numpy.int32, ints)
    else:
        check("v_enum", None, [members[case["default_index"]].name] * n)
        check("v_int", numpy.int32, [5] * n)
    if has_formula:
        nv = case["num_values"]
        scal = case["num_returns"] == "python-scalar"
        vals = [nv[0]] * n if scal else list(nv)
        fvals = [int(v != 0) for v in vals] if case["num_returns"] == "bool" else vals
        check("v_float", numpy.float32, [float(v) for v in fvals])
        check("v_bool", numpy.bool_, [v != 0 for v in vals])
        check("v_date", numpy.dtype("datetime64[D]"), [d] * n)
        check("v_str", numpy.dtype(object), list(case["str_values"]))
    else:
        check("v_float", numpy.float32, [1.5] * n)
        check("v_bool", numpy.bool_, [False] * n)
        check("v_date", numpy.dtype("datetime64[D]"), [datetime.date(1970, 1, 1)] * n)
        check("v_str", numpy.dtype(object), ["dflt"] * n)
    return {"typed": problems, "stack": len(sim.tracer.stack)}
