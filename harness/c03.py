"""C03 - summing or dividing over time uses the exact sub-periods; period mismatches fail.

A case is an engine case (harness/rules.py: rule system + population + request list) built
around ONE definition unit:

  v0  eternal input (per-person offset)
  v1  `f`   : definition unit du, formula = function of the period START (year, month, day)
              + v0, so a wrong sub-period or a wrong enclosing period changes the value
  v2  `inp` : definition unit du, no formula, inputs given per sub-period
  v3+ wrappers: formula = exactly one dependency ["dep", target, ptrans, option]

and requests that walk the accept/reject matrix
  definition unit x request unit x size {1,2,3} x {calculate, calculate_add, calculate_divide}
  definition unit x request unit x size {1,2,3} x option {plain, add, divide, both, unknown}
for a sample of start dates (leap years, month ends, ISO week 53, unaligned starts).

Oracle (independent of the Coq model): the sub-periods / enclosing period / counts are
computed with Python's datetime and calendar only (never with Period.get_subperiods or
size_in_*), and the per-sub-period values come from plain `calculate` calls on a SECOND
real simulation, so that neither the engine's period arithmetic nor its cache can mask an
error in calculate_add / calculate_divide.
"""
from __future__ import annotations

import calendar
import datetime
import json
import math
import sys as _sysmod
import warnings

import c03_special
import rules
from common import Err

PROP = "C03"
COQ_HEADER = "From Verif Require Import Np Group Param Engine Corr_C03."
COQ_RUN = "CorrEng.run"
SHARD = 16
ANCHORS = ["openfisca_core/simulations/simulation.py", "openfisca_core/populations/_core_population.py",
           "openfisca_core/periods/period_.py"]
RULE = ("engine cases built around one definition unit: a variable whose formula is a function of the period start "
        "(year, month, day) plus a per-person eternal input, an input variable with one input per sub-period, and "
        "wrapper variables whose formula is one dependency with an option; requests walk the whole accept/reject matrix "
        "(6 definition units x 6 request units x sizes 1,2,3 x calculate/calculate_add/calculate_divide at top level, and "
        "x plain/ADD/DIVIDE/both/unknown as dependency options) over start dates including leap years, month ends, ISO "
        "week 53 and unaligned starts, the same matrix again with the variables neutralised and/or after valid requests "
        "have filled their holders, plus extra in-scope ADD/DIVIDE requests on boundary dates; a case is non-trivial "
        "when at least one request carries a claim of the property (a value equality or a mandatory error); distinct by JSON text")
TRUSTED = ["harness/rules.py: compiler from rule-system terms to real Variable subclasses (formulas call the public API)",
           "harness/c03.py: the independent sub-period / enclosing-period / count computation (datetime, calendar)"]
ASSUMPTIONS = ["value equalities are claimed for same-family unit pairs (day<month<year, weekday<week) and a start "
               "aligned to the definition unit (ADD) or to the request unit (DIVIDE); cross-family cells and unaligned "
               "starts are compared model-vs-code only",
               "oracle-only streams (harness/c03_special.py; the Coq side receives CSkip): float variables with +/-inf, "
               "NaN and -0.0 defaults and inputs, request periods given as text, the same ADD / DIVIDE request repeated on "
               "one simulation while the inputs of its pieces change (Simulation.set_input, the holder's set_input, "
               "delete_arrays, a clone and its original diverging), and Period.get_subperiods on tens of "
               "thousands of pieces, each compared with the property's statement computed from plain calculate calls "
               "on a second simulation and the datetime calendar; one engine case per run sums a day variable over "
               "more than 32767 days and does go through the Coq correspondence",
               "generated values stay below 2^22 in absolute value (exact in int32 and float32); DIVIDE dependencies "
               "read inputs that are multiples of the denominator"]

UNITS = ["weekday", "week", "day", "month", "year", "eternity"]
DATED = UNITS[:5]
ETERNITY = ["eternity", [-1, -1, -1], -1]
# "shorter than": the engine's own ordering of units, written here from the property text
RANK = {"weekday": 0, "day": 0, "week": 1, "month": 1, "year": 2, "eternity": 3}
FAMILY = {"day": "cal", "month": "cal", "year": "cal", "weekday": "iso", "week": "iso"}
FRANK = {"day": 0, "month": 1, "year": 2, "weekday": 0, "week": 1}
BASE_YEAR = 1999

_SKIP = set()


def _key(case):
    return json.dumps(case, sort_keys=True)


# ---------------------------------------------------------------------------------------
# independent calendar
# ---------------------------------------------------------------------------------------

def family_le(small, big):
    """small and big are dated units of one family and small <= big"""
    return (small in FAMILY and big in FAMILY and FAMILY[small] == FAMILY[big]
            and FRANK[small] <= FRANK[big])


def aligned(unit, d):
    y, m, dd = d
    if unit == "year":
        return m == 1 and dd == 1
    if unit == "month":
        return dd == 1
    if unit == "week":
        return datetime.date(y, m, dd).isoweekday() == 1
    return True


def add_months(d, n):
    y, m, dd = d
    t = y * 12 + (m - 1) + n
    y2, m2 = t // 12, t % 12 + 1
    return [y2, m2, min(dd, calendar.monthrange(y2, m2)[1])]


def end_excl(p):
    """first day after the period"""
    unit, d, n = p
    if unit == "year":
        return add_months(d, 12 * n)
    if unit == "month":
        return add_months(d, n)
    days = 7 * n if unit == "week" else n
    e = datetime.date(*d) + datetime.timedelta(days=days)
    return [e.year, e.month, e.day]


def tiles(du, p):
    """the consecutive du-long pieces covering p (same family, du <= unit of p, start aligned to du)"""
    unit, d, n = p
    assert family_le(du, unit) and aligned(du, d) and n >= 1
    end = datetime.date(*end_excl(p))
    out = []
    cur = datetime.date(*d)
    if du in ("day", "weekday"):
        while cur < end:
            out.append([du, [cur.year, cur.month, cur.day], 1])
            cur += datetime.timedelta(days=1)
    elif du == "week":
        while cur < end:
            out.append([du, [cur.year, cur.month, cur.day], 1])
            cur += datetime.timedelta(days=7)
    elif du == "month":
        y, m = d[0], d[1]
        while datetime.date(y, m, 1) < end:
            out.append([du, [y, m, 1], 1])
            y, m = (y, m + 1) if m < 12 else (y + 1, 1)
    elif du == "year":
        y = d[0]
        while datetime.date(y, 1, 1) < end:
            out.append([du, [y, 1, 1], 1])
            y += 1
    return out


def enclosing(du, d):
    """the du-long period that contains day d"""
    y, m, dd = d
    if du == "year":
        return ["year", [y, 1, 1], 1]
    if du == "month":
        return ["month", [y, m, 1], 1]
    if du == "week":
        x = datetime.date(y, m, dd)
        x -= datetime.timedelta(days=x.isoweekday() - 1)
        return ["week", [x.year, x.month, x.day], 1]
    return [du, [y, m, dd], 1]


def count_in(ru, cp):
    """number of ru-long pieces in the period cp (same family)"""
    return len(tiles(ru, cp))


def approx_denominator(du, q):
    """what calculate_divide divides by (generator only: used to make inputs divisible)"""
    ru, d, n = q
    if du not in FAMILY or ru not in FAMILY or n != 1 or RANK[du] < RANK[ru]:
        return None
    cp = enclosing(du, d)
    if family_le(ru, du):
        return count_in(ru, cp)
    ndays = (datetime.date(*end_excl(cp)) - datetime.date(*cp[1])).days
    table = {("month", "week"): ndays // 7, ("year", "week"): ndays // 7, ("year", "weekday"): (ndays // 7) * 7,
             ("month", "weekday"): ndays, ("week", "day"): 7, ("day", "weekday"): 1, ("weekday", "day"): 1}
    return table.get((du, ru))


# ---------------------------------------------------------------------------------------
# the property, cell by cell (independent of the model)
# ---------------------------------------------------------------------------------------

def cell_claim(du, mode, q):
    """What the property text says about requesting a variable of definition unit du for
    period q in mode calc / add / div / both / unknown:
       ("error", why) | ("add", tiles) | ("div", cp, count) | None (no claim)."""
    ru, d, n = q
    if mode in ("both", "unknown"):
        return ("error", mode + " option")
    if mode in ("calc", "plain"):
        if du != "eternity" and ru != du:
            return ("error", "plain request, wrong unit")
        if du != "eternity" and n != 1:
            return ("error", "plain request, size above one")
        return None
    if mode == "add":
        if du == "eternity":
            return ("error", "eternal variable summed")
        if ru == "eternity":
            return ("error", "eternal period summed")
        if RANK[ru] < RANK[du]:
            return ("error", "period shorter than the definition period summed")
        if family_le(du, ru) and aligned(du, d):
            return ("add", tiles(du, q))
        return None
    if mode in ("div", "divide"):
        if du == "eternity":
            return ("error", "eternal variable divided")
        if ru == "eternity":
            return ("error", "eternal period divided")
        if n != 1:
            return ("error", "size above one divided")
        if RANK[du] < RANK[ru]:
            return ("error", "period longer than the definition period divided")
        if family_le(ru, du) and aligned(ru, d):
            cp = enclosing(du, d)
            return ("div", cp, count_in(ru, cp))
        return None
    raise AssertionError(mode)


def wrapper_dep(case, v):
    """(target, ptrans, opt) when variable v is a wrapper (formula = one dependency)"""
    var = case["sys"]["vars"][v]
    if len(var["formulas"]) == 1 and var["formulas"][0][1][0] == "dep":
        e = var["formulas"][0][1]
        return e[1], e[2], e[3]
    return None


def request_claim(case, r):
    """claim for a top-level request: (kind, target variable, ...)"""
    vs = case["sys"]["vars"]
    kind = r[0]
    if kind not in ("calc", "add", "div") or r[1] >= len(vs):
        return None
    v, q = r[1], r[2]
    du = vs[v]["unit"]
    cl = cell_claim(du, kind, q)
    if kind != "calc" or cl is not None:
        return None if cl is None else (cl[0], v) + tuple(cl[1:])
    w = wrapper_dep(case, v)
    if w is None:
        return None
    target, pt, opt = w
    if pt == "same":
        dq = q
    elif isinstance(pt, list) and pt[0] == "fixed":
        dq = pt[1]
    else:
        return None
    cl = cell_claim(vs[target]["unit"], opt, dq)
    if cl is None:
        return None
    if vs[v]["ent"] != vs[target]["ent"]:
        return None
    if cl[0] == "div":
        return ("divdep", target) + tuple(cl[1:])
    return (cl[0], target) + tuple(cl[1:])


# ---------------------------------------------------------------------------------------
# implementation driver
# ---------------------------------------------------------------------------------------

def expectations(case):
    """Per request: None | ["error", why] | ["value", [z...]] | ["quot", [z...], count], from a
    second real simulation asked for plain `calculate` values only."""
    sys, pop = case["sys"], case["pop"]
    out = []
    with warnings.catch_warnings():
        warnings.simplefilter("ignore")
        tbs = rules.build_system(sys, set())
        sim = rules.build_simulation(tbs, pop, {}, sys)
        for r in case["requests"]:
            if r[0] == "set":
                try:
                    rules.do_request(sim, sys, set(), r)
                except Exception:  # noqa: BLE001
                    pass
                out.append(None)
                continue
            cl = request_claim(case, r)
            if cl is None:
                out.append(None)
                continue
            try:
                name = rules.var_name(sys, cl[1])
                if cl[0] == "error":
                    out.append(["error", cl[2]])
                elif cl[0] == "add":
                    total = None
                    for t in cl[2]:
                        a = rules.ints(sim.calculate(name, rules.mk_period(t)))
                        total = a if total is None else [x + y for x, y in zip(total, a)]
                    out.append(["value", total, len(cl[2])])
                elif cl[0] == "div":
                    a = rules.ints(sim.calculate(name, rules.mk_period(cl[2])))
                    out.append(["quot", a, cl[3]])
                elif cl[0] == "divdep":
                    a = rules.ints(sim.calculate(name, rules.mk_period(cl[2])))
                    if all(x % cl[3] == 0 for x in a):
                        out.append(["value", [x // cl[3] for x in a], cl[3], "quotient"])
                    else:
                        out.append(None)
                else:
                    raise AssertionError(cl)
            except Exception as e:  # noqa: BLE001 - the reference computation itself failed: no claim
                out.append(["no-reference", f"{type(e).__name__}: {e}"[:120]])
    return out


def run_impl(case):
    if case.get("special"):
        _SKIP.add(_key(case))
        return {"main": "skip", "expect": [], "special": c03_special.run(case, _sysmod.modules[__name__])}
    main = rules.run_case(case)
    if main == "skip":
        _SKIP.add(_key(case))
        return {"main": "skip", "expect": []}
    return {"main": main, "expect": expectations(case)}


def coq_case(case):
    return rules.coq_case(case, skip=_key(case) in _SKIP)


def obs_for_coq(case, obs):
    if isinstance(obs, Err):
        return obs
    main = obs["main"]
    if isinstance(main, list):
        # a quotient that is not the integer array over the count carries floats: the model
        # gets a marker it cannot reproduce (the oracle reports the request itself)
        main = [["divide-mismatch", o[1], o[2]] if isinstance(o[0], list) and o[0] and o[0][0] == "divide-mismatch" else o
                for o in main]
    return main


def oracle(case, obs):
    if isinstance(obs, Err):
        return f"driver: the harness could not run the case: {obs.msg}"
    main, expect = obs["main"], obs["expect"]
    if case.get("special"):
        return c03_special.oracle(case, obs["special"])
    if main == "skip":
        return None
    for k, (r, (a, depth, _cache), ex) in enumerate(zip(case["requests"], main, expect)):
        if depth != 0:
            return f"stack: evaluation stack not empty after request {k}: depth {depth}"
        if isinstance(a, list) and a and a[0] == "divide-mismatch":
            return (f"divide: request {k} {r}: result times the independent count {a[2]} is not the "
                    f"integer array the variable holds: {a[1]}")
        if ex is None or ex[0] == "no-reference":
            continue
        if ex[0] == "error":
            if not isinstance(a, Err):
                return f"accepted: request {k} {r} must raise ({ex[1]}) but returned {a}"
        elif ex[0] == "value":
            if isinstance(a, Err):
                return f"refused: request {k} {r} is in scope but raised {a.kind} ({a.msg})"
            if a != ex[1] and len(ex) > 3:
                return (f"quotient: request {k} {r} (DIVIDE dependency) returned {a}, the value at the enclosing "
                        f"definition period over the {ex[2]} requested unit(s) it holds is {ex[1]}")
            if a != ex[1]:
                return (f"sum: request {k} {r} returned {a}, the independent computation over "
                        f"{ex[2]} piece(s) gives {ex[1]}")
        elif ex[0] == "quot":
            if isinstance(a, Err):
                return f"refused: request {k} {r} is in scope but raised {a.kind} ({a.msg})"
            if a != [ex[1], ex[2]]:
                return (f"quotient: request {k} {r} returned numerators {a[0]} for count {a[1]}, the value "
                        f"at the enclosing definition period is {ex[1]} and it holds {ex[2]} requested unit(s)")
    return None


def nontrivial(case, obs):
    if isinstance(obs, Err):
        return False
    if case.get("special"):
        return c03_special.claimed(case, obs["special"])
    if obs["main"] == "skip":
        return False
    return any(ex is not None and ex[0] in ("error", "value", "quot") for ex in obs["expect"])


def classify(case, obs):
    if isinstance(obs, Err):
        return "driver-error"
    if case.get("special"):
        return f"oracle-only {case['special']} def={case['du']} {case.get('mode', '')}"
    if obs["main"] == "skip":
        return "skipped-inexact"
    du = case["sys"]["vars"][1]["unit"]
    if any(v.get("neutral") for v in case["sys"]["vars"]):
        du += " neutralised"
    tags = set()
    for r, ex, o in zip(case["requests"], obs["expect"], obs["main"]):
        if r[0] == "set":
            continue
        w = wrapper_dep(case, r[1]) if r[1] < len(case["sys"]["vars"]) else None
        mode = r[0] if w is None else "dep-" + w[2]
        if ex is None or ex[0] == "no-reference":
            res = "err" if isinstance(o[0], Err) else "val"
            tags.add(f"{mode}:unclaimed-{res}")
        elif ex[0] == "error":
            tags.add(f"{mode}:must-raise")
        else:
            tags.add(f"{mode}:value")
    return f"def={du} " + ",".join(sorted(tags))


# ---------------------------------------------------------------------------------------
# generator
# ---------------------------------------------------------------------------------------

LEAP = [2000, 2004, 2020, 2024]
COMMON = [2003, 2019, 2021, 2023]
ISO53 = [2004, 2009, 2015, 2020, 2026]
YEARS = LEAP + COMMON + [2009, 2015, 2026]


def monday(y, w):
    d = datetime.date.fromisocalendar(y, w, 1)
    return d


def gen_start(rng, unit, want_aligned=True):
    """a start date for a request period of the given unit"""
    y = rng.choice(YEARS)
    if unit == "year":
        if want_aligned:
            return [y, 1, 1]
        return rng.choice([[y, 3, 1], [y, 3, 15], [y, 12, 31], [rng.choice(LEAP), 2, 29], [y, 2, 1]])
    if unit == "month":
        if want_aligned:
            return [y, rng.choice([1, 2, 2, 3, 4, 12, 12, rng.randint(1, 12)]), 1]
        return rng.choice([[y, 1, 31], [y, rng.randint(1, 12), 15], [rng.choice(LEAP), 2, 29], [y, 12, 31], [y, 1, 30]])
    if unit in ("week", "weekday"):
        r = rng.random()
        if r < 0.3:
            d = monday(rng.choice(ISO53), 53)
        elif r < 0.5:
            d = monday(y, 1)
        elif r < 0.7:
            d = monday(y, 52)
        else:
            d = monday(y, rng.randint(2, 51))
        if unit == "weekday":
            d += datetime.timedelta(days=rng.randrange(7))
        elif not want_aligned:
            d += datetime.timedelta(days=rng.choice([1, 2, 6]))
        return [d.year, d.month, d.day]
    if unit == "day":
        r = rng.random()
        if r < 0.2:
            return [rng.choice(LEAP), 2, rng.choice([28, 29])]
        if r < 0.35:
            return [y, 2, 28]
        if r < 0.5:
            return [y, rng.choice([12, 12, 1]), rng.choice([31, 31, 1])]
        if r < 0.65:
            m = rng.choice([1, 3, 4, 6, 9, 11])
            return [y, m, calendar.monthrange(y, m)[1]]
        m = rng.randint(1, 12)
        return [y, m, rng.randint(1, calendar.monthrange(y, m)[1])]
    return [-1, -1, -1]


def gen_q(rng, ru, n, want_aligned=True):
    if ru == "eternity":
        return list(ETERNITY)
    return [ru, gen_start(rng, ru, want_aligned), n]


def f_expr(rng, du, ty):
    if ty == "bool":
        if du in ("day", "weekday", "week"):
            return ["bin", "lt", ["field", "day"], ["const", rng.choice([8, 16, 29])]]
        if du == "month":
            return ["bin", "lt", ["field", "month"], ["const", rng.choice([3, 7])]]
        return ["bin", "lt", ["field", "year"], ["const", rng.choice([2005, 2021])]]
    a, b, c, k = rng.randint(1, 30), rng.randint(1, 13), rng.randint(1, 3), rng.randint(1, 9)
    e = ["bin", "add", ["const", k],
         ["bin", "add", ["bin", "mul", ["const", a], ["bin", "sub", ["field", "year"], ["const", BASE_YEAR]]],
          ["bin", "add", ["bin", "mul", ["const", b], ["field", "month"]],
           ["bin", "mul", ["const", c], ["field", "day"]]]]]
    return ["bin", "add", e, ["dep", 0, "same", "plain"]]


def n_tiles_estimate(du, q):
    ru, _d, n = q
    if ru == "eternity" or du == "eternity":
        return 0
    per = {"year": 366, "month": 31, "week": 7, "day": 1, "weekday": 1}
    return n * per[ru] // per[du] if per[ru] >= per[du] else 0


def make_case(rng, du, cells, neutral=None, warm_p=0.3):
    """cells: list of (mode, ru, n, want_aligned) with mode in calc/add/div (top-level requests)
    or dep-plain/dep-add/dep-divide/dep-both/dep-unknown (a wrapper variable).
    neutral: which of v1 / v2 are neutralised (None: drawn at random); warm_p: probability that
    a cell is preceded by a valid plain request of its target for the definition period around
    the same start date, so that the cell meets a holder that already has a value."""
    if neutral is None:
        r = rng.random()
        neutral = (1,) if r < 0.08 else (2,) if r < 0.16 else (1, 2) if r < 0.2 else ()
    ent = "person" if rng.random() < 0.8 else "group"
    pop = rules.gen_pop(rng, 3)
    count = len(pop["ids"]) if ent == "person" else pop["count"]
    ty = rng.choice(["int", "int", "float", "float", "bool"]) if du != "eternity" else rng.choice(["int", "float"])
    vs = [
        {"ent": ent, "type": "int", "unit": "eternity", "end": None, "formulas": [], "default": 0, "neutral": False},
        {"ent": ent, "type": ty, "unit": du, "end": None,
         "formulas": [] if du == "eternity" else [[[1, 1, 1], f_expr(rng, du, ty)]],
         "default": 1 if ty == "bool" else rng.choice([3, 7, 11]), "neutral": False},
        {"ent": ent, "type": rng.choice(["int", "float"]), "unit": du, "end": None, "formulas": [],
         "default": rng.choice([2, 5]), "neutral": False},
    ]
    sets = [["set", 0, list(ETERNITY), [rng.randint(0, 5) for _ in range(count)]]]
    if du == "eternity" and rng.random() < 0.7:
        sets.append(["set", 2, list(ETERNITY), [rng.randint(1, 90) for _ in range(count)]])
    reqs = []
    warm = []        # valid plain requests made first: the holders are not empty afterwards
    inputs = {}      # period key -> values (for v2)
    need_mult = {}   # period key of cp -> lcm of denominators
    heavy = []       # at most one request that sums over many pieces, placed last
    leftover = []    # cells postponed to another case

    def set_inp(p, mult=1):
        k = json.dumps(p)
        if k in inputs:
            return
        inputs[k] = [mult * rng.randint(1, 40) for _ in range(count)]

    for cell in cells:
        mode, ru, n, al = cell
        base = mode[4:] if mode.startswith("dep-") else mode
        opt = {"calc": "plain", "div": "divide"}.get(base, base)
        est = n_tiles_estimate(du, [ru, None, n]) if opt == "add" else 0
        if est > 40 and heavy:
            leftover.append(cell)
            continue
        q = gen_q(rng, ru, n, al)
        target = 1 if rng.random() < 0.6 else 2
        cl = cell_claim(du, {"plain": "calc", "divide": "div"}.get(opt, opt), q)
        if opt == "add" and est > 40:
            target = 1
        if opt == "divide" and mode.startswith("dep-"):
            den = approx_denominator(du, q)
            if den is not None and du != "eternity":
                target = 2
                cp = enclosing(du, q[1])
                k = json.dumps(cp)
                need_mult[k] = need_mult.get(k, 1) * den // math.gcd(need_mult.get(k, 1), den)
        if target == 2 and du != "eternity":
            if cl is not None and cl[0] == "add" and len(cl[1]) <= 40:
                for t in cl[1]:
                    if rng.random() < 0.9:
                        set_inp(t)
            elif cl is not None and cl[0] == "div":
                k = json.dumps(cl[1])
                need_mult.setdefault(k, 1)
        if rng.random() < warm_p:
            if du == "eternity":
                warm.append(["calc", target, gen_q(rng, rng.choice(DATED), 1)])
            else:
                warm.append(["calc", target, enclosing(du, q[1] if ru != "eternity" else gen_start(rng, "day"))])
        if mode.startswith("dep-"):
            w = len(vs)
            if ru != "eternity" and n == 1 and rng.random() < 0.5:
                wu, pt, pw = ru, "same", q
            else:
                wu = rng.choice(["year", "month", "day", "week"])
                pt, pw = ["fixed", q], gen_q(rng, wu, 1, True)
            wty = "float" if opt == "divide" else rng.choice(["int", "float"])
            vs.append({"ent": ent, "type": wty, "unit": wu, "end": None,
                       "formulas": [[[1, 1, 1], ["dep", target, pt, opt]]], "default": 0, "neutral": False})
            req = ["calc", w, pw]
        else:
            req = [mode, target, q]
        (heavy if est > 40 else reqs).append(req)
    if du != "eternity":
        for k, mult in need_mult.items():
            if mult <= 40000:
                inputs.pop(k, None)
                set_inp(json.loads(k), mult)
        for k, vals in inputs.items():
            sets.append(["set", 2, json.loads(k), vals])
    for i in neutral:
        vs[i]["neutral"] = True
    if 2 in neutral:
        # a neutralised variable answers its default everywhere: keep DIVIDE dependencies exact
        mult = 1
        for m in need_mult.values():
            mult = mult * m // math.gcd(mult, m)
        vs[2]["default"] = mult * rng.choice([1, 2]) if mult <= 40000 else 0
    rng.shuffle(reqs)
    cfg = {}
    if heavy and rng.random() < 0.5:
        cfg = {"blacklist": [1], "opt_out": True}   # the summed variable is not stored (cache blacklist)
    sys = {"vars": vs, "params": [], "switches": [], "max_loops": 1}
    return {"sys": sys, "pop": pop, "cfg": cfg, "requests": sets + warm + reqs + heavy}, leftover


def matrix_cells():
    cells = []
    for du in UNITS:
        for ru in UNITS:
            for n in ((1,) if ru == "eternity" else (1, 2, 3)):
                for mode in ("calc", "add", "div", "dep-plain", "dep-add", "dep-divide", "dep-both", "dep-unknown"):
                    cells.append((du, mode, ru, n))
    return cells


IN_SCOPE_ADD = [("day", "day"), ("day", "month"), ("day", "year"), ("month", "month"), ("month", "year"),
                ("year", "year"), ("weekday", "weekday"), ("weekday", "week"), ("week", "week")]


def generate(rng, tier):
    reps = {"quick": 1, "escalated": 3, "thorough": 6}[tier]
    extra = {"quick": 100, "escalated": 400, "thorough": 1200}[tier]
    cases = []
    for _ in range(reps):
        by_du = {du: [] for du in UNITS}
        for du, mode, ru, n in matrix_cells():
            by_du[du].append((mode, ru, n, rng.random() < 0.8))
        for du in UNITS:
            cells = by_du[du]
            rng.shuffle(cells)
            i = 0
            while i < len(cells):
                k = rng.choice([2, 2, 3])
                chunk, i = cells[i:i + k], i + k
                while chunk:
                    case, chunk = make_case(rng, du, chunk)
                    cases.append(case)
    # the same matrix for neutralised variables and for holders that already have values
    for _ in range(reps):
        for du in UNITS:
            cells = [(mode, ru, n, rng.random() < 0.8) for mode in ("calc", "dep-plain", "add", "div")
                     for ru in UNITS for n in ((1,) if ru == "eternity" else (1, 2, 3))]
            rng.shuffle(cells)
            i = 0
            while i < len(cells):
                chunk, i = cells[i:i + 3], i + 3
                neutral = rng.choice([(1,), (2,), (1, 2), (1, 2), ()])
                while chunk:
                    case, chunk = make_case(rng, du, chunk, neutral=neutral, warm_p=0.7 if not neutral else 0.3)
                    cases.append(case)
    # extra requests inside the claimed scope, boundary dates, a few unaligned ones
    for _ in range(extra):
        du, ru = rng.choice(IN_SCOPE_ADD)
        cells = []
        for _ in range(rng.choice([1, 2, 3])):
            r = rng.random()
            al = rng.random() < 0.85
            if r < 0.45:
                n = rng.choice([1, 1, 2, 3])
                if (du, ru) in (("day", "year"), ("weekday", "year")) and rng.random() < 0.7:
                    n = 1
                cells.append((rng.choice(["add", "add", "dep-add"]), ru, n, al))
            elif r < 0.9:
                # divide: variable of the LONGER unit requested for the shorter one
                cells.append((rng.choice(["div", "div", "dep-divide"]), du, 1, al))
            else:
                cells.append((rng.choice(["calc", "dep-plain"]), rng.choice([du, ru]), rng.choice([1, 2]), al))
        # the definition unit: the shorter one for ADD cells, the longer for DIVIDE cells
        add_cells = [c for c in cells if "add" in c[0] or c[0] in ("calc", "dep-plain")]
        div_cells = [c for c in cells if "div" in c[0]]
        while add_cells:
            case, add_cells = make_case(rng, du, add_cells)
            cases.append(case)
        if div_cells:
            case, _ = make_case(rng, ru, div_cells)
            cases.append(case)
    # oracle-only streams (the Coq side gets CSkip) and the scale cases
    me = _sysmod.modules[__name__]
    nf, ns, nb, nscale = {"quick": (70, 50, 4, 1), "escalated": (250, 150, 8, 2), "thorough": (800, 400, 14, 4)}[tier]
    for _ in range(nf):
        cases.append(c03_special.gen_float(rng, me))
    for _ in range(ns):
        cases.append(c03_special.gen_string(rng, me))
    for _ in range(nb):
        cases.append(c03_special.gen_subperiods(rng, me))
    for _ in range({"quick": 60, "escalated": 200, "thorough": 600}[tier]):
        cases.append(c03_special.gen_history(rng, me))
    for _ in range(nscale):
        cases.append(c03_special.scale_case(rng, me))
    return cases


def wrapper_q(case, r):
    w = wrapper_dep(case, r[1])
    pt = w[1]
    return r[2] if pt == "same" else pt[1]


def neighbours(case, rng):
    """cases near a mismatching one: the same cells on other start dates"""
    if case.get("special") or len(case["sys"]["vars"]) < 3:
        return []
    du = case["sys"]["vars"][1]["unit"]
    out = []
    cells = []
    for r in case["requests"]:
        if r[0] == "set":
            continue
        w = wrapper_dep(case, r[1]) if r[1] < len(case["sys"]["vars"]) else None
        if w is None:
            cells.append((r[0], r[2][0], r[2][2], True))
        else:
            q = wrapper_q(case, r)
            cells.append(("dep-" + w[2], q[0], q[2], True))
    neutral = tuple(i for i in (1, 2) if case["sys"]["vars"][i].get("neutral"))
    for _ in range(12):
        c, _left = make_case(rng, du, cells, neutral=neutral)
        out.append(c)
    return out
