#!/usr/bin/env python3
"""Evaluate a seeded change produced by an independent sub-agent.

    python3 harness/seed_eval.py <PROP> <dir with patch.diff, demo.py, meta.json> [<name>] [--props C01,C02]

Confirms, in a scratch copy of /repo outside /repo and /verif: the patch applies; the
demonstration passes on the unchanged tree and fails with the change; the pinned test
suite gives the baseline counts with the change.  Then runs ./check for the property
(and any extra properties) against the scratch copy (VERIF_REPO) and records which checks
caught it.  Keeps the change as /verif/seeded/<PROP>-<name>/ (patch.diff, demo.py,
meta.json).  The scratch copy is removed.
"""
import json
import os
import pathlib
import re
import shutil
import subprocess
import sys

VERIF = pathlib.Path(__file__).resolve().parent.parent
PY = "/venv/bin/python"
BASELINE = "4 failed, 440 passed"


def sh(cmd, cwd=None, env=None, timeout=1800):
    e = dict(os.environ)
    e.pop("PYTHONPATH", None)
    if env:
        e.update(env)
    p = subprocess.run(cmd, shell=True, cwd=cwd, env=e, capture_output=True, text=True, timeout=timeout)
    return p.returncode, (p.stdout + p.stderr)


def main():
    args = [a for a in sys.argv[1:] if not a.startswith("--")]
    opts = [a for a in sys.argv[1:] if a.startswith("--")]
    prop, src = args[0], pathlib.Path(args[1])
    name = args[2] if len(args) > 2 else src.name
    extra = []
    for o in opts:
        if o.startswith("--props="):
            extra = o.split("=", 1)[1].split(",")
    props = [prop] + [p for p in extra if p != prop]
    scratch = pathlib.Path(f"/root/scratch/seed_{prop}_{name}")
    if scratch.exists():
        shutil.rmtree(scratch)
    scratch.parent.mkdir(parents=True, exist_ok=True)
    sh(f"rsync -a --exclude .git /repo/ {scratch}/")
    report = {"property": prop, "name": name}
    try:
        rc, out = sh(f"patch -p1 --dry-run < {src / 'patch.diff'}", cwd=scratch)
        if rc != 0:
            report["status"] = "patch does not apply to the current /repo"
            report["detail"] = out[-500:]
            print(json.dumps(report, indent=1))
            return 2
        rc0, out0 = sh(f"{PY} {src / 'demo.py'}", cwd="/repo")
        sh(f"patch -p1 < {src / 'patch.diff'}", cwd=scratch)
        rc1, out1 = sh(f"{PY} {src / 'demo.py'}", cwd=scratch)
        report["demo_on_clean"] = {"exit": rc0, "tail": out0[-300:]}
        report["demo_on_changed"] = {"exit": rc1, "tail": out1[-500:]}
        rc, out = sh(f"{PY} -m pytest -q -p no:cacheprovider --timeout=900 --continue-on-collection-errors 2>&1 | tail -1",
                     cwd=scratch)
        report["suite_with_change"] = out.strip()[-200:]
        confirmed = rc0 == 0 and rc1 != 0 and BASELINE in out
        report["confirmed"] = confirmed
        checks = {}
        for p in props:
            rc, out = sh(f"./check {p}", cwd=VERIF, env={"VERIF_REPO": str(scratch)}, timeout=3000)
            lines = [ln for ln in out.splitlines() if "VIOLATION" in ln or ln.startswith(f"[{p}] tier")]
            viol = [ln for ln in lines if ln.startswith("VIOLATION")]
            detail = None
            m = re.search(r"replay=(\S+)", viol[0]) if viol else None
            if m and os.path.exists(m.group(1)):
                try:
                    d = json.loads(open(m.group(1)).read())
                    detail = {"kind": d.get("kind"), "oracle_message": (d.get("oracle_message") or d.get("broken") or "")[:300]}
                except ValueError:
                    pass
                os.unlink(m.group(1))
            checks[p] = {"exit": rc, "caught": rc == 1 and bool(viol),
                         "with_failing_input": bool(viol) and "no-failing-input-found" not in viol[0],
                         "lines": lines[-3:], "replay": detail}
        report["checks"] = checks
        if confirmed:
            dest = VERIF / "seeded" / f"{prop}-{name}"
            dest.mkdir(parents=True, exist_ok=True)
            if dest.resolve() != src.resolve():
                shutil.copy(src / "patch.diff", dest / "patch.diff")
                shutil.copy(src / "demo.py", dest / "demo.py")
            meta = {}
            if (src / "meta.json").exists():
                try:
                    meta = json.loads((src / "meta.json").read_text())
                except ValueError:
                    meta = {}
            meta.update({
                "property": prop,
                "ran": {
                    "demo_on_clean_exit": rc0, "demo_on_changed_exit": rc1,
                    "suite_with_change": report["suite_with_change"],
                    "checks": {p: {"caught": c["caught"], "with_failing_input": c["with_failing_input"],
                                   "replay": c["replay"]} for p, c in checks.items()},
                    "how": "scratch copy of /repo with the patch applied; VERIF_REPO=<copy> ./check <prop>",
                },
            })
            (dest / "meta.json").write_text(json.dumps(meta, indent=1))
        print(json.dumps(report, indent=1))
        return 0
    finally:
        shutil.rmtree(scratch, ignore_errors=True)
        # evidence files were rewritten from the scratch copy: restore them from git
        subprocess.run(["git", "checkout", "--"] + [f"evidence/{p}.json" for p in props], cwd=VERIF,
                       capture_output=True)


if __name__ == "__main__":
    sys.exit(main())
