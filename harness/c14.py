"""C14 - reforms and system copies leave the system they derive from untouched; the derived
system computes the original rules with the declared changes.

A case is a base rule system (harness/rules.py), a population, inputs and a script:

  step = ["clone", i, expect] | ["reform", i, [mod...], expect] | ["mod", j, mod, expect]
       | ["eval", i, fresh, [request...]]            (calc / add requests)
       | ["look", i]
  mod  = ["add", name, vdef] | ["update", name, vdef] | ["replace", name, vdef]
       | ["neutralize", name] | ["annualize", name]
       | ["modify_params", ups] | ["edit_params", ups]
  vdef = {"ent","type","unit","end","default","formulas"  (None = not defined by the class),
          "eff_ent","eff_type": what the harness needs to build the real class}
  ups  = [[k, start, stop|None, value|None]...]          p<k>.update(start=, stop=, value=)
  expect = "ok" | "error"

Every derivation is performed on REAL TaxBenefitSystem / Reform objects (Reform subclasses are
built on the fly, their `apply` performs the mods); the same script runs on coq/model/Systems.v.
"""
from __future__ import annotations

import copy
import datetime
import json
import warnings

import numpy

import rules
from common import Err, cbool, clist, copt, cz, errkind

PROP = "C14"
COQ_HEADER = "From Verif Require Import Np Group Param Engine CorrEng Systems Corr_C14."
COQ_RUN = "Corr_C14.run"
SHARD = 24
ANCHORS = ["openfisca_core/taxbenefitsystems/tax_benefit_system.py", "openfisca_core/reforms/reform.py",
           "openfisca_core/variables/variable.py", "openfisca_core/variables/helpers.py",
           "openfisca_core/entities/_core_entity.py"]
RULE = ("random ranked base rule systems (3-6 variables, mostly month/year, dated formulas, parameters with histories) "
        "compiled to real Variable subclasses; a script of 2-5 derivations (clone, Reform subclasses built on the fly whose "
        "apply() adds / updates / replaces / neutralises / annualises variables and calls modify_parameters, chained reforms, "
        "clones of reforms, modifications of a derived system in place, parameter edits on a clone; parameter updates go "
        "through param.update or the param.values_history alias, on root leaves, a leaf two nodes deep and a scale-bracket "
        "rate), a look at every system "
        "(variable table through the system and through both entities, parameters at boundary dates) after every derivation, "
        "and evaluations (fresh and long-lived simulations) on base and derived systems in both orders; non-trivial when at "
        "least one derivation succeeded and one formula ran on a derived system; distinct by JSON text.  Second stream "
        "(oracle only, n/8 cases): the YAML test runner's derivation tools.test_runner._get_tax_benefit_system(baseline, "
        "reforms by dotted path, extensions by package name) with generated reform modules (mostly variables-only reforms, "
        "chains of 0-2) and a generated extension package shipping a variable and parameters, 3-6 calls per baseline "
        "including repeated arguments; the baseline's variables, parameter names, parameter values and answers are "
        "compared before and after every call.  Third stream (oracle only, n/10 cases): a float variable declared with "
        "default -0.0 / inf / -inf / NaN / a non-integer / a float32 denormal, neutralised through a reform, a copy, a "
        "chained reform or a copy of a reform, inputs given: the answer is compared bit for bit (float32) with the "
        "declared default.  Parameter updates also use bounds before year 1000 (0001-01-01 .. 0999-12-31)")
TRUSTED = ["harness/rules.py: compiler from rule-system terms to real Variable subclasses (formulas call the public API)",
           "harness/c14.py: construction of Variable / Reform subclasses from the script"]
ASSUMPTIONS = [
    "annualised variables are month (or year) variables and requests are whole months of the window 1996..2025: the "
    "model renders the period test of get_annualized_variable as dated formulas over that window (coq/model/Systems.v)",
    "generated values stay below 2^22 in absolute value (exact in int32 and float32)",
    "class bodies list their dated formulas in ascending order of distinct start dates",
    "F20 (open): an annualised variable asked for a non-January month before its January value is known yields its "
    "default; reported as KNOWN-FINDING when model and implementation agree on it.  The boundary is proved on the "
    "model (props/C14.v): with max_spiral_loops = 1 (the default, and what the generator uses) the January request made "
    "by the annualised formula is the variable's second frame and is cut - the answer is the default and nothing is "
    "stored (annualised_machine_refuted_when_january_unknown); once January is in the cache every month of the year "
    "answers it (annualised_machine_after_january_partial); with max_spiral_loops >= 2 the cut does not fire and the "
    "month yields the January value (ex_loops2)",
]

WINDOW = (1996, 30)
SIG_F20 = "annualized-non-january-before-january"
PROFILE = {"nvars": (3, 6), "bad": 0.0, "nparams": 2, "neutral": 0.04, "depth": 2,
           "units": ["month"] * 7 + ["year"] * 3 + ["day", "eternity"]}
EXPR_PROFILE = {"nparams": 2, "depth": 2, "bad": 0.0}
TYPE_CODE = {"int": 0, "float": 1, "bool": 2}
ENT_CODE = {"person": 0, "group": 1}
PYTYPE = {"int": int, "float": float, "bool": bool}

_SKIP = set()


def _key(case):
    return json.dumps(case, sort_keys=True)


# ---------------------------------------------------------------------------------------
# generator (keeps a symbolic table of every system only to produce sensible scripts)
# ---------------------------------------------------------------------------------------

def _sym_var(v):
    return {"ent": v["ent"], "type": v["type"], "unit": v["unit"], "end": v.get("end"),
            "dates": [list(s) for s, _ in v["formulas"]], "default": v["default"],
            "neutral": bool(v.get("neutral")), "annual": False}


def _gen_formulas(rng, table, name, ent, unit, dates):
    out = []
    allowed = list(range(min(name, len(table))))
    for d in dates:
        if unit == "eternity":
            e = ["const", rng.randint(-3, 9)]
        else:
            e = rules.gen_expr(rng, table, name, ent, unit, EXPR_PROFILE["depth"], EXPR_PROFILE, allowed)
        out.append([d, e])
    return out


def _pick_dates(rng, old, n):
    """n distinct ascending start dates placed around the existing ones"""
    pool = [[1, 1, 1], [2016, 1, 1], [2017, 6, 1], [2018, 1, 1], [2018, 7, 1], [2019, 1, 1], [2019, 6, 1], [2020, 1, 1]]
    for a, b in zip(old, old[1:]):
        if a[0] > 1 and b[0] - a[0] >= 1:
            pool.append([a[0], 12, 1] if a[0] < b[0] and [a[0], 12, 1] > a else [b[0], 1, 1])
    out = []
    for _ in range(n):
        d = rng.choice(pool)
        if d not in out:
            out.append(d)
    return sorted(out)


def _gen_vdef(rng, table, name, full):
    """full: the class defines everything (add / replace); else an update of table[name]"""
    cur = table[name] if name < len(table) else None
    d = {"ent": None, "type": None, "unit": None, "end": None, "default": None, "formulas": []}
    if full:
        d["ent"] = cur["ent"] if cur else rng.choice(["person", "person", "group"])
        d["type"] = rng.choice(["int", "int", "float", "bool"])
        d["unit"] = cur["unit"] if cur and rng.random() < 0.7 else rng.choice(["month", "month", "year"])
        if cur and cur["unit"] == "eternity":
            # an eternal variable stays eternal: its inputs are given for the eternity period, which
            # set_input cannot compare with an end date (ValueError in the code; Engine.v's set_input
            # answers the period mismatch instead - outside what C14 generates)
            d["unit"] = "eternity"
        if rng.random() < 0.7:
            d["default"] = rng.choice([0, 1]) if d["type"] == "bool" else rng.choice([0, 2, 7, -1])
    else:
        if rng.random() < 0.15:
            d["type"] = rng.choice(["int", "float", "bool"])
            d["default"] = rng.choice([0, 1]) if d["type"] == "bool" else rng.choice([0, 4, -3])
        elif rng.random() < 0.3:
            d["default"] = rng.choice([0, 1]) if cur["type"] == "bool" else rng.choice([0, 6, 11, -2])
        if rng.random() < 0.04 and cur["unit"] in ("month", "year"):
            d["unit"] = "year" if cur["unit"] == "month" else "month"
    eff_ent = d["ent"] or cur["ent"]
    eff_type = d["type"] or cur["type"]
    eff_unit = d["unit"] or cur["unit"]
    old = [] if full or cur is None else cur["dates"]
    nnew = rng.choice([0, 1, 1, 1, 2]) if not full else rng.choice([0, 1, 1, 2])
    if eff_unit == "eternity":
        nnew = 0
    dates = _pick_dates(rng, old, nnew)
    end = (cur or {}).get("end") if not full else None
    if rng.random() < 0.06 and eff_unit != "eternity":
        e = [rng.choice([2019, 2020]), 12, 31]
        if all(x <= e for x in dates) and all(x <= e for x in old):
            d["end"] = e
            end = e
    if end is not None:
        dates = [x for x in dates if x <= end]
    d["formulas"] = _gen_formulas(rng, table, name, eff_ent, eff_unit, dates)
    d["eff_ent"], d["eff_type"] = eff_ent, eff_type
    return d


def _sym_apply(table, mod):
    """symbolic effect of a mod that is expected to succeed"""
    kind = mod[0]
    if kind in ("add", "replace", "update"):
        name, d = mod[1], mod[2]
        cur = table[name] if name < len(table) and kind == "update" else None
        new_dates = [list(s) for s, _ in d["formulas"]]
        if cur is not None and new_dates:
            dates = [x for x in cur["dates"] if x < new_dates[0]] + new_dates
        elif cur is not None:
            dates = list(cur["dates"])
        else:
            dates = new_dates
        v = {"ent": d["ent"] or cur["ent"], "type": d["type"] or cur["type"], "unit": d["unit"] or cur["unit"],
             "end": d["end"] if d["end"] is not None else (cur["end"] if cur else None), "dates": dates,
             "default": d["default"] if d["default"] is not None else (cur["default"] if cur else 0),
             "neutral": False, "annual": False}
        if name < len(table):
            table[name] = v
        else:
            table.append(v)
    elif kind == "neutralize":
        table[mod[1]] = dict(table[mod[1]], neutral=True, annual=False)
    elif kind == "annualize":
        table[mod[1]] = dict(table[mod[1]], neutral=False, annual=True)


def _gen_ups(rng, nparams):
    ups = []
    for _ in range(rng.randint(1, 2)):
        k = rng.randrange(nparams)
        start = [rng.choice([2016, 2017, 2018, 2019]), rng.choice([1, 1, 7]), 1]
        stop = None
        if rng.random() < 0.4:
            stop = [start[0] + rng.choice([0, 1]), 12, 31]
        if rng.random() < 0.25:
            # bounds before year 1000 ("since 0900-01-01", "for year:0999:2"): their text form has
            # to sort against the four-digit dates of the history
            start = rng.choice([[1, 1, 1], [500, 6, 1], [900, 1, 1], [999, 1, 1], [999, 7, 1]])
            stop = rng.choice([None, None, [999, 12, 31], [1000, 12, 31], [start[0], 12, 31], [2016, 12, 31]])
        ups.append([k, start, stop, rng.choice([rng.randint(-4, 30), rng.randint(10, 20), None])
                    if rng.random() < 0.15 else rng.randint(-4, 30),
                    rng.choice([0, 1])])           # the handle: param.update / param.values_history.update
    return ups


def _gen_mod(rng, meta, j, nbase, nparams, in_reform):
    """(mod, expect)"""
    table = meta[j]["table"]
    r = rng.random()
    with_formulas = [n for n, v in enumerate(table) if v["dates"]]
    monthly = [n for n in with_formulas if table[n]["unit"] == "month" and table[n]["end"] is None]
    anyvar = rng.randrange(len(table))
    target = rng.choice(with_formulas) if with_formulas and rng.random() < 0.8 else anyvar
    if r < 0.04:
        return ["add", anyvar, _gen_vdef(rng, table, anyvar, True)], "error"          # name conflict
    if r < 0.07:
        return ["neutralize", len(table) + 2], "error"                                # unknown variable
    if r < 0.10 and not in_reform and meta[j]["base"] is None:
        return ["modify_params", _gen_ups(rng, nparams)], "error"                     # not a reform
    if r < 0.22 and len(table) < nbase + 2:
        return ["add", len(table), _gen_vdef(rng, table, len(table), True)], "ok"
    if r < 0.47:
        return ["update", target, _gen_vdef(rng, table, target, False)], "ok"
    if r < 0.55:
        return ["replace", target, _gen_vdef(rng, table, target, True)], "ok"
    if r < 0.70:
        return ["neutralize", target], "ok"
    if r < 0.86:
        cands = monthly or [n for n in with_formulas if table[n]["unit"] == "year"]
        if cands:
            return ["annualize", rng.choice(cands)], "ok"
        return ["neutralize", target], "ok"
    if meta[j]["base"] is not None:
        return ["modify_params", _gen_ups(rng, nparams)], "ok"
    if meta[j]["own_tree"] and not meta[j]["children"] and j != 0:
        return ["edit_params", _gen_ups(rng, nparams)], "ok"
    return ["neutralize", target], "ok"


def _requests_for(rng, table, year, pop, extra_annual=True):
    reqs = []
    names = list(range(len(table)))
    rng.shuffle(names)
    for n in names[:rng.randint(2, 4)]:
        u = table[n]["unit"]
        if u == "eternity":
            reqs.append(["calc", n, rules.gen_period(rng, "month", year=year)])
        elif u in ("month", "day") and rng.random() < 0.25:
            bigger = "year" if u == "month" else "month"
            reqs.append(["add", n, rules.gen_period(rng, bigger, year=year)])
        else:
            reqs.append(["calc", n, rules.gen_period(rng, u, year=rng.choice([year, year, year + 1]))])
    if extra_annual:
        for n, v in enumerate(table):
            if v["annual"] and v["unit"] == "month" and rng.random() < 0.9:
                m1, m2 = rng.choice([2, 3, 6, 12]), rng.choice([4, 7, 11])
                jan = ["calc", n, ["month", [year, 1, 1], 1]]
                a = ["calc", n, ["month", [year, m1, 1], 1]]
                b = ["calc", n, ["month", [year, m2, 1], 1]]
                block = [jan, a, b] if rng.random() < 0.6 else [a, jan, a, b]
                reqs = reqs + block if rng.random() < 0.5 else block + reqs
    return reqs


def _gen_base(rng):
    sys = rules.gen_system(rng, PROFILE)
    pop = rules.gen_pop(rng, 4)
    year = rng.choice([2018, 2019])
    nbase = len(sys["vars"])
    nflat = len(sys["params"])
    # two more parameters that no formula reads: a leaf two nodes deep and the rate of a scale bracket
    for _ in range(2):
        h = [[[2000, 1, 1], rng.randint(0, 9)]]
        for y in sorted(rng.sample([2015, 2017, 2018, 2019], rng.randint(0, 2))):
            h.append([[y, rng.choice([1, 7]), 1], rng.choice([rng.randint(-5, 40), rng.randint(0, 9), None])])
        sys["params"].append(h)
    nparams = len(sys["params"])
    for v in sys["vars"]:
        if v["unit"] == "eternity":
            # an eternal variable keeps the first value computed whatever the period asked: with
            # formulas its answers would depend on the order of requests (no claim of C14)
            v["formulas"], v["end"] = [], None
    # inputs
    inputs = []
    for i, v in enumerate(sys["vars"]):
        if v["formulas"] and rng.random() < 0.8:
            continue
        periods_ = []
        if v["unit"] == "month":
            periods_ = [["month", [year, m, 1], 1] for m in sorted(rng.sample(range(1, 13), rng.randint(1, 3)))]
            if rng.random() < 0.6 and ["month", [year, 1, 1], 1] not in periods_:
                periods_.insert(0, ["month", [year, 1, 1], 1])
        elif v["unit"] == "eternity":
            periods_ = [list(rules.ETERNITY)]
        else:
            periods_ = [rules.gen_period(rng, v["unit"], year=year)]
        for p in periods_:
            inputs.append(["set", i, p, rules.input_values(rng, v, rules.count_for(pop, v))])
    for v in sys["vars"]:
        v.pop("divisible", None)
    return sys, pop, year, nbase, nflat, nparams, inputs


def gen_case(rng):
    sys, pop, year, nbase, nflat, nparams, inputs = _gen_base(rng)
    meta = [{"table": [_sym_var(v) for v in sys["vars"]], "base": None, "own_tree": True, "children": 0}]
    base_reqs = _requests_for(rng, meta[0]["table"], year, pop)
    steps = [["look", 0], ["eval", 0, True, base_reqs], ["eval", 0, False, base_reqs]]

    def looks():
        return [["look", i] for i in range(len(meta))]

    for _ in range(rng.randint(2, 5)):
        r = rng.random()
        touched = None
        if r < 0.25 or len(meta) == 1 and r < 0.4:
            i = rng.randrange(len(meta))
            steps.append(["clone", i, "ok"])
            meta.append({"table": copy.deepcopy(meta[i]["table"]), "base": meta[i]["base"], "own_tree": True, "children": 0})
            meta[i]["children"] += 1
            touched = len(meta) - 1
            if rng.random() < 0.4:
                # the usual route: copy the system, then change parameters of the copy
                steps += looks()
                steps.append(["mod", touched, ["edit_params", _gen_ups(rng, nparams)], "ok"])
        elif r < 0.70 or len(meta) == 1:
            i = rng.randrange(len(meta))
            tmp = [{"table": copy.deepcopy(meta[i]["table"]), "base": i, "own_tree": False, "children": 0}]
            mods, expect = [], "ok"
            for _ in range(rng.choice([0, 1, 1, 2, 2, 3])):
                m, ex = _gen_mod(rng, tmp, 0, nbase, nparams, True)
                mods.append(m)
                if ex == "error":
                    expect = "error"
                    break
                _sym_apply(tmp[0]["table"], m)
                if m[0] == "modify_params":
                    tmp[0]["own_tree"] = True
            steps.append(["reform", i, mods, expect])
            if expect == "ok":
                meta.append(tmp[0])
                meta[i]["children"] += 1
                touched = len(meta) - 1
        else:
            leaves = [j for j in range(1, len(meta)) if not meta[j]["children"]] or [len(meta) - 1]
            j = rng.choice(leaves)
            m, ex = _gen_mod(rng, meta, j, nbase, nparams, False)
            steps.append(["mod", j, m, ex])
            if ex == "ok":
                _sym_apply(meta[j]["table"], m)
                if m[0] == "modify_params":
                    meta[j]["own_tree"] = True
                touched = j
        steps += looks()
        evals = [["eval", 0, rng.random() < 0.5, base_reqs]]
        if touched is not None:
            evals.append(["eval", touched, rng.random() < 0.6, _requests_for(rng, meta[touched]["table"], year, pop)])
            if rng.random() < 0.4:
                evals.append(["eval", touched, True, base_reqs])
        other = rng.randrange(len(meta))
        if rng.random() < 0.4:
            evals.append(["eval", other, rng.random() < 0.5, _requests_for(rng, meta[other]["table"], year, pop)])
        rng.shuffle(evals)
        steps += evals
    steps += [["eval", 0, True, base_reqs], ["eval", 0, False, base_reqs]] + looks()
    dates = sorted({tuple(d) for d in [(2000, 1, 1), (2015, 12, 31), (2018, 6, 30)]}
                   | {tuple(x) for s in steps if s[0] in ("reform", "mod")
                      for m in (s[2] if s[0] == "reform" else [s[2]]) if m[0] in ("modify_params", "edit_params")
                      for u in m[1] for x in _boundaries(u)})
    return {"sys": sys, "pop": pop, "inputs": inputs, "steps": steps, "window": list(WINDOW),
            "nnames": nbase + 3, "dates": [list(d) for d in dates], "year": year, "nflat": nflat}


def gen_runner_case(rng):
    """Derivations as the YAML test runner makes them: tools.test_runner._get_tax_benefit_system
    (baseline, reforms by dotted path, extensions by package name).  Oracle only."""
    sys, pop, year, nbase, nflat, nparams, inputs = _gen_base(rng)
    table0 = [_sym_var(v) for v in sys["vars"]]
    reforms = []
    for _ in range(rng.randint(2, 3)):
        tmp = [{"table": copy.deepcopy(table0), "base": 0, "own_tree": False, "children": 0}]
        mods = []
        for _ in range(rng.choice([1, 1, 2, 3])):
            m, ex = _gen_mod(rng, tmp, 0, nbase, nparams, True)
            if ex != "ok" or m[0] in ("add", "replace") or (m[0] == "modify_params" and rng.random() < 0.7):
                m = ["neutralize", rng.randrange(nbase)]      # mostly reforms of variables only
            mods.append(m)
            _sym_apply(tmp[0]["table"], m)
        reforms.append(mods)
    calls = []
    for _ in range(rng.randint(3, 5)):
        k = rng.choice([0, 1, 1, 1, 2])
        chain = [rng.randrange(len(reforms)) for _ in range(k)]
        if k == 2:
            # class bodies are written against the baseline: chain only reforms that do not update
            # a variable the other one touches
            names = [{m[1] for m in reforms[r] if m[0] != "modify_params"} for r in chain]
            upd = [{m[1] for m in reforms[r] if m[0] == "update"} for r in chain]
            if chain[0] == chain[1] and upd[0] or names[0] & upd[1] or upd[0] & names[1]:
                chain = chain[:1]
        calls.append([chain, rng.random() < 0.8])
    if rng.random() < 0.7:
        calls.append(list(rng.choice(calls)))                  # the same arguments again
    ext = {"default": rng.randint(0, 5), "amount": rng.randint(1, 60), "root": rng.randint(1, 60),
           "start": [rng.choice([2000, 2010]), 1, 1]}
    reqs = _requests_for(rng, table0, year, pop, extra_annual=False)
    return {"kind": "runner", "sys": sys, "pop": pop, "inputs": inputs, "window": list(WINDOW), "nnames": nbase + 3,
            "dates": [[2000, 1, 1], [2015, 12, 31], [2018, 6, 30]], "year": year, "nflat": nflat,
            "reforms": reforms, "calls": calls, "ext": ext, "reqs": reqs}


SPECIAL_DEFAULTS = ["-0.0", "inf", "-inf", "nan", "0.0", "-2.5", "1e-40"]


def gen_special_case(rng, k):
    """A float variable declared with a default the model's integers cannot carry (-0.0, the
    infinities, NaN, a non-integer, a float32 denormal), neutralised on a derived system."""
    n = rng.randint(1, 5)
    return {"kind": "special", "default": SPECIAL_DEFAULTS[k % len(SPECIAL_DEFAULTS)], "persons": n,
            "via": rng.choice(["reform", "clone", "chained", "clone-of-reform"]),
            "formula": rng.random() < 0.7, "unit": rng.choice(["month", "year"]),
            "input": [rng.randint(-20, 100) for _ in range(n)], "base_first": rng.random() < 0.5}


def gen_tworoots_case(rng):
    """Two root systems built independently in one process (same parameter names, different
    values, never asked for parameters), a variables-only reform on each, used one after the
    other: each reform computes with ITS baseline's parameters."""
    n = rng.randint(1, 4)
    def hist():
        h = [[[2000, 1, 1], rng.randint(0, 40)]]
        if rng.random() < 0.6:
            h.append([[rng.choice([2017, 2018]), rng.choice([1, 7]), 1], rng.randint(41, 90)])
        return h
    ha, hb = hist(), hist()
    hb[-1][1] += rng.randint(1, 9) * 100          # the two systems differ at the instant asked
    mods = rng.choice([[["neutralize", 2]], [["annualize", 2]], [],
                       [["update", 2, {"ent": None, "type": None, "unit": None, "end": None, "default": 5,
                                       "formulas": [[[1, 1, 1], ["const", rng.randint(1, 9)]]],
                                       "eff_ent": "person", "eff_type": "int"}]]])
    return {"kind": "tworoots", "persons": n, "hists": [ha, hb], "mods": mods,
            "period": ["month", [rng.choice([2018, 2019]), rng.choice([1, 3, 12]), 1], 1],
            "input": [rng.randint(-20, 100) for _ in range(n)], "chain": rng.random() < 0.3}


def _boundaries(u):
    _k, start, stop, _v = u[:4]
    out = [start, _shift(start, -1)]
    if stop is not None:
        out += [stop, _shift(stop, 1)]
    return out


def _shift(d, n):
    try:
        x = datetime.date(*d) + datetime.timedelta(days=n)
    except OverflowError:          # the day before 0001-01-01
        x = datetime.date(*d)
    return [x.year, x.month, x.day]


def generate(rng, tier):
    n = {"quick": 260, "escalated": 900, "thorough": 4000}[tier]
    cases = [gen_case(rng) for _ in range(n)]
    cases += [gen_runner_case(rng) for _ in range(max(30, n // 8))]
    cases += [gen_special_case(rng, k) for k in range(max(28, n // 10))]
    return cases + [gen_tworoots_case(rng) for _ in range(max(20, n // 12))]


# ---------------------------------------------------------------------------------------
# implementation driver
# ---------------------------------------------------------------------------------------

def _iso(d):
    y, m, dd = d
    return f"{y:04d}-{m:02d}-{dd:02d}"


def make_class(tbs, name, d, nref, switches):
    """The Variable subclass a country package / reform would write for [vdef] d."""
    attrs = {}
    if d["type"] is not None:
        attrs["value_type"] = PYTYPE[d["type"]]
    if d["ent"] is not None:
        # like the module-level entity objects of a country package: not bound to any system
        ent = copy.copy(tbs.person_entity if d["ent"] == "person" else tbs.group_entities[0])
        ent._tax_benefit_system = None
        attrs["entity"] = ent
    if d["unit"] is not None:
        attrs["definition_period"] = rules.UNIT_OBJ[d["unit"]]
    if d["end"] is not None:
        attrs["end"] = _iso(d["end"])
    if d["default"] is not None:
        attrs["default_value"] = PYTYPE[d["eff_type"]](d["default"])
    for start, e in d["formulas"]:
        attrs[rules.formula_name(start)] = rules.make_formula(nref, switches, e, d["eff_ent"])
    return type(f"v{name}", (rules.Variable,), attrs)


def _hist_data(h):
    return {"values": {_iso(d): {"value": z} for d, z in h}}


def add_extra_parameters(tbs, extras):
    """parameter number nflat: the leaf deep.inner.q; number nflat + 1: the rate of the second
    bracket of the scale sc (harness-side parameters, read by no formula)"""
    from openfisca_core.parameters import ParameterNode
    data = {}
    if len(extras) > 0:
        data["deep"] = {"inner": {"q": _hist_data(extras[0])}}
    if len(extras) > 1:
        data["sc"] = {"brackets": [
            {"threshold": {"values": {"2000-01-01": {"value": 0}}}, "rate": {"values": {"2000-01-01": {"value": 1}}}},
            {"threshold": {"values": {"2000-01-01": {"value": 100}}}, "rate": _hist_data(extras[1])}]}
    node = ParameterNode("", data=data)
    for name, child in node.children.items():
        tbs.parameters.add_child(name, child)
    tbs._parameters_at_instant_cache = {}


def param_object(tree, k, nflat):
    if k < nflat:
        return getattr(tree, f"p{k}")
    if k == nflat:
        return tree.deep.inner.q
    if k == nflat + 1:
        return tree.sc.brackets[1].rate
    raise AttributeError(f"p{k}")


def make_modifier(ups, nflat):
    def modifier(parameters):
        for u in ups:
            k, start, stop, value = u[:4]
            handle = u[4] if len(u) > 4 else 0
            param = param_object(parameters, k, nflat)
            if handle == 1:
                param = param.values_history          # the backward-compatibility alias of the parameter
            param.update(start=rules.periods.instant(_iso(start)),
                         stop=None if stop is None else rules.periods.instant(_iso(stop)), value=value)
        return parameters
    return modifier


def perform(tbs, mod, nref, switches):
    kind = mod[0]
    if kind == "add":
        tbs.add_variable(make_class(tbs, mod[1], mod[2], nref, switches))
    elif kind == "update":
        tbs.update_variable(make_class(tbs, mod[1], mod[2], nref, switches))
    elif kind == "replace":
        tbs.replace_variable(make_class(tbs, mod[1], mod[2], nref, switches))
    elif kind == "neutralize":
        tbs.neutralize_variable(f"v{mod[1]}")
    elif kind == "annualize":
        tbs.annualize_variable(f"v{mod[1]}")
    elif kind == "modify_params":
        out = tbs.modify_parameters(make_modifier(mod[1], nref["nflat"]))
        if isinstance(out, Exception):
            raise out
    elif kind == "edit_params":
        # the tree of a copy edited in place; the views already computed from it are dropped, as
        # one does after editing a live tree (C07: in-place edits after a read are no claimed route)
        make_modifier(mod[1], nref["nflat"])(tbs.parameters)
        tbs._parameters_at_instant_cache = {}
    else:
        raise AssertionError(kind)


def make_reform(mods, nref, switches):
    from openfisca_core.reforms import Reform

    def apply(self):
        for m in mods:
            perform(self, m, nref, switches)
    return type("R", (Reform,), {"apply": apply})


def look_variable(v):
    if v is None:
        return None
    dates = [[int(x) for x in k.split("-")] for k in v.formulas.keys()]
    end = None if v.end is None else [v.end.year, v.end.month, v.end.day]
    dv = v.default_value
    if isinstance(dv, float) and dv != int(dv):
        raise rules.Inexact(repr(dv))
    ty = {int: 0, float: 1, bool: 2}[v.value_type]
    unit = rules.UNITS.index(str(v.definition_period.value if hasattr(v.definition_period, "value") else v.definition_period))
    return [dates, unit, bool(v.is_neutralized), int(dv), ty, end, 0 if v.entity.key == "person" else 1]


def look_system(tbs, sim, nnames, nparams, dates, nflat):
    via_sys = [look_variable(tbs.get_variable(f"v{n}")) for n in range(nnames)]
    if sim is not None:
        ents = [sim.populations["person"].entity, sim.populations["household"].entity]
    else:
        ents = [tbs.person_entity, tbs.group_entities[0]]
    via_ent = [[look_variable(e.get_variable(f"v{n}")) for n in range(nnames)] for e in ents]
    params = []
    for k in range(nparams):
        row = []
        for d in dates:
            # the value in the tree itself, and (for leaves) the system's view at that instant
            x = param_object(tbs.parameters, k, nflat).get_at_instant(_iso(d))
            if k <= nflat:
                try:
                    view = param_object(tbs.get_parameters_at_instant(_iso(d)), k, nflat)
                except Exception:  # noqa: BLE001 - no value at that date: the child is absent
                    view = None
                if view != x:
                    row.append(f"view {view} differs from tree {x}")
                    continue
            if x is not None and x != int(x):
                raise rules.Inexact(repr(x))
            row.append(None if x is None else int(x))
        params.append(row)
    return [via_sys, via_ent, params]


_RUNNER_COUNT = [0]
_RUNNER_BASELINES = []

EXT_VARIABLE = """
from openfisca_core import periods
from openfisca_core.entities import build_entity
from openfisca_core.variables import Variable

_person = build_entity(key="person", plural="persons", label="", is_person=True)


class ext_bonus(Variable):
    value_type = int
    entity = _person
    definition_period = periods.DateUnit.MONTH
    default_value = {default}

    def formula(person, period, parameters):
        return person.empty_array() + parameters(period).extp.amount + parameters(period).ext_root
"""

REFORM_MODULE = """
import json

import c14

SPECS = json.loads(r\'\'\'{specs}\'\'\')
NREF = {{"vars": [None] * {nnames}, "max_loops": 1, "nflat": {nflat}}}
for _i, _mods in enumerate(SPECS):
    _cls = c14.make_reform(_mods, NREF, set())
    _cls.__name__ = "R%d" % _i
    globals()["R%d" % _i] = _cls
"""


def parameter_names(node, prefix=""):
    """every name of the tree (nodes, leaves, scales), dotted"""
    out = []
    for name, child in sorted(getattr(node, "children", {}).items()):
        out.append(prefix + name)
        out += parameter_names(child, prefix + name + ".")
    return out


def run_runner(case):
    """The derivations of the YAML test runner on a real baseline; what the baseline shows before
    and after each of them."""
    import importlib
    import logging
    import os
    import pathlib
    import shutil
    import sys as pysys
    import textwrap

    from openfisca_core.tools import test_runner

    sysj, pop = case["sys"], case["pop"]
    nparams, nflat = len(sysj["params"]), case["nflat"]
    nref = {"vars": [None] * case["nnames"], "max_loops": 1, "nflat": nflat}
    _RUNNER_COUNT[0] += 1
    tag = f"{os.getpid()}_{_RUNNER_COUNT[0]}"
    work = pathlib.Path(f"/root/scratch/c14-run-{tag}")
    rmod, ext = f"c14_reforms_{tag}", f"c14_extension_{tag}"
    switches = set()
    logging.disable(logging.CRITICAL)
    try:
        (work / ext / "parameters" / "extp").mkdir(parents=True)
        (work / f"{rmod}.py").write_text(REFORM_MODULE.format(specs=json.dumps(case["reforms"]), nnames=case["nnames"],
                                                              nflat=nflat))
        (work / ext / "__init__.py").write_text("")
        (work / ext / "bonus.py").write_text(EXT_VARIABLE.format(default=case["ext"]["default"]))
        leaf = "description: harness\nvalues:\n  {date}:\n    value: {value}\n"
        (work / ext / "parameters" / "extp" / "amount.yaml").write_text(
            leaf.format(date=_iso(case["ext"]["start"]), value=case["ext"]["amount"]))
        (work / ext / "parameters" / "ext_root.yaml").write_text(
            leaf.format(date=_iso(case["ext"]["start"]), value=case["ext"]["root"]))
        pysys.path.insert(0, str(work))
        importlib.invalidate_caches()
        with warnings.catch_warnings():
            warnings.simplefilter("ignore")
            base = rules.build_system(dict(sysj, params=sysj["params"][:nflat]), switches)
            add_extra_parameters(base, sysj["params"][nflat:])
            # the runner's cache is keyed by id(baseline): a baseline stays alive for the whole run,
            # as the system handed to run_tests does (a collected one would lend its id to the next)
            _RUNNER_BASELINES.append(base)

            def answers(tbs, reqs):
                sim = rules.build_simulation(tbs, pop, {}, nref)
                out = []
                for r in case["inputs"] + reqs:
                    try:
                        out.append(rules.do_request(sim, nref, switches, r))
                    except rules.Inexact:
                        raise
                    except Exception as e:  # noqa: BLE001
                        out.append(Err(errkind(e), f"{type(e).__name__}: {e}"[:200]))
                return out

            def observe_base():
                return {"look": look_system(base, None, case["nnames"], nparams, case["dates"], nflat),
                        "names": parameter_names(base.parameters),
                        "variables": sorted(base.variables),
                        "answers": answers(base, case["reqs"])}

            out = {"before": observe_base(), "calls": []}
            seen = {}
            for chain, with_ext in case["calls"]:
                paths = [f"{rmod}.R{k}" for k in chain]
                exts = [ext] if with_ext else []
                rec = {}
                try:
                    derived = test_runner._get_tax_benefit_system(base, paths, exts)
                    key = (tuple(chain), with_ext)
                    rec["same_object_as_before"] = None if key not in seen else seen[key] is derived
                    seen[key] = derived
                    rec["is_baseline"] = derived is base
                    rec["names"] = parameter_names(derived.parameters)
                    rec["has_ext_variable"] = derived.get_variable("ext_bonus") is not None
                    rec["look"] = look_system(derived, None, case["nnames"], nparams, case["dates"], nflat)
                    if with_ext:
                        sim = rules.build_simulation(derived, pop, {}, nref)
                        rec["ext_bonus"] = rules.ints(sim.calculate("ext_bonus", rules.mk_period(["month", [case["year"], 3, 1], 1])))
                    rec["error"] = None
                except rules.Inexact:
                    raise
                except Exception as e:  # noqa: BLE001
                    rec["error"] = Err(errkind(e), f"{type(e).__name__}: {e}"[:300])
                rec["base"] = observe_base()
                out["calls"].append(rec)
            return out
    except rules.Inexact:
        _SKIP.add(_key(case))
        return "skip"
    finally:
        logging.disable(logging.NOTSET)
        if str(work) in pysys.path:
            pysys.path.remove(str(work))
        for name in [m for m in pysys.modules if m == rmod or m == ext or m.endswith(f"_{tag}_bonus") or tag in m]:
            pysys.modules.pop(name, None)
        shutil.rmtree(work, ignore_errors=True)


def oracle_runner(case, obs):
    before = obs["before"]
    n = len(case["pop"]["ids"])
    for k, ((chain, with_ext), rec) in enumerate(zip(case["calls"], obs["calls"])):
        what = f"call {k} _get_tax_benefit_system(baseline, reforms {chain}, extension {with_ext})"
        for part in ("variables", "names", "look", "answers"):
            if rec["base"][part] != before[part]:
                return (f"runner-frame: after {what} the baseline's {part} changed: "
                        f"{_first_diff(before[part], rec['base'][part])}")
        if rec["error"] is not None:
            return f"runner-derivation-raised: {what}: {rec['error'].msg}"
        if rec["is_baseline"]:
            return f"runner-frame: {what} returned the baseline itself"
        if rec["same_object_as_before"] is False:
            return f"runner-cache: {what} did not return the system it built for the same arguments"
        if rec["has_ext_variable"] != with_ext:
            return f"runner-derived: {what}: extension variable present = {rec['has_ext_variable']}"
        if ("extp.amount" in rec["names"]) != with_ext or ("ext_root" in rec["names"]) != with_ext:
            return f"runner-derived: {what}: parameter names {rec['names']}"
        if with_ext and rec["ext_bonus"] != [case["ext"]["amount"] + case["ext"]["root"]] * n:
            return f"runner-derived: {what}: ext_bonus = {rec['ext_bonus']}"
        # variables the reforms do not name are the baseline's
        named = {m[1] for r in chain for m in case["reforms"][r] if m[0] not in ("modify_params", "edit_params")}
        for v, (a, b) in enumerate(zip(before["look"][0], rec["look"][0])):
            if v not in named and a != b:
                return f"runner-derived: {what}: v{v} is {b}, in the baseline {a}"
        if not any(m[0] == "modify_params" for r in chain for m in case["reforms"][r]) and rec["look"][2] != before["look"][2]:
            return f"runner-derived: {what}: parameters {rec['look'][2]}, in the baseline {before['look'][2]}"
    return None


def _first_diff(a, b):
    if isinstance(a, list) and isinstance(b, list):
        extra = [x for x in b if x not in a]
        missing = [x for x in a if x not in b]
        return f"new {extra[:6]}, gone {missing[:6]}"
    return f"{a} -> {b}"


def build_root(variables, params, nref, switches):
    """A root system built the way a country package does it: TaxBenefitSystem(entities),
    add_variable, parameters assigned - nothing else touched (no parameter ever read)."""
    from openfisca_core.parameters import ParameterNode
    from openfisca_core.taxbenefitsystems import TaxBenefitSystem
    # the entity definitions of harness/rules.py (the new system copies them, as it does with a
    # country package's module-level entities)
    person, household = rules.build_system({"vars": [], "params": [], "switches": []}, set()).entities
    tbs = TaxBenefitSystem([person, household])
    for name, d in enumerate(variables):
        tbs.add_variable(make_class(tbs, name, d, nref, switches))
    tbs.parameters = ParameterNode("", data={f"p{k}": _hist_data(h) for k, h in enumerate(params)})
    return tbs


def run_tworoots(case):
    n = case["persons"]
    pop = {"count": 1, "ids": [0] * n, "roles": [0] + [1] * (n - 1)}
    nref = {"vars": [None] * 4, "max_loops": 1, "nflat": 1}
    switches = set()
    def vd(formulas):
        return {"ent": "person", "type": "int", "unit": "month", "end": None, "default": 0, "formulas": formulas,
                "eff_ent": "person", "eff_type": "int"}
    variables = [vd([]), vd([[[1, 1, 1], ["bin", "add", ["dep", 0, "same", "plain"], ["param", 0]]]]),
                 vd([[[1, 1, 1], ["bin", "add", ["dep", 1, "same", "plain"], ["const", 1]]]])]
    period = rules.mk_period(case["period"])

    def answer(tbs):
        sim = rules.build_simulation(tbs, pop, {}, nref)
        sim.set_input("v0", period, numpy.array(case["input"]))
        return rules.ints(sim.calculate("v1", period))

    with warnings.catch_warnings():
        warnings.simplefilter("ignore")
        roots = [build_root(variables, [h], nref, switches) for h in case["hists"]]
        out = {}
        for tag, root in zip("AB", roots):        # reform A is built and used, then reform B
            reform = make_reform(case["mods"], nref, switches)(root)
            if case["chain"]:
                reform = make_reform([], nref, switches)(reform)
            out["reform" + tag] = answer(reform)
        for tag, root in zip("AB", roots):
            out["root" + tag] = answer(root)
    return out


def oracle_tworoots(case, obs):
    d = tuple(case["period"][1])
    for tag, h in zip("AB", case["hists"]):
        value = [z for start, z in h if tuple(start) <= d][-1]
        want = [x + value for x in case["input"]]
        if obs["root" + tag] != want:
            return f"tworoots-frame: root system {tag} (p0 = {value} at {list(d)}) answers v1 = {obs['root' + tag]}, expected {want}"
        if obs["reform" + tag] != want:
            return (f"tworoots-derived: the variables-only reform of root system {tag} (p0 = {value} at {list(d)}) answers "
                    f"v1 = {obs['reform' + tag]}, its baseline's rules give {want}")
    return None


def _bits(a):
    return numpy.asarray(a, dtype=numpy.float32).tobytes().hex()


def run_special(case):
    """answers as float32 bit patterns: [base before, derived (inputs given), base after]"""
    n = case["persons"]
    pop = {"count": 1, "ids": [0] * n, "roles": [0] + [1] * (n - 1)}
    unit = case["unit"]
    sysj = {"vars": [{"ent": "person", "type": "float", "unit": unit, "end": None, "formulas": [], "default": 0, "neutral": False},
                     {"ent": "person", "type": "float", "unit": unit, "end": None, "formulas": [], "default": 0, "neutral": False}],
            "params": [], "switches": [], "max_loops": 1}
    nref = {"vars": [None] * 4, "max_loops": 1, "nflat": 0}
    switches = set()
    period = [unit, [2018, 1, 1], 1]
    d = {"ent": "person", "type": "float", "unit": unit, "end": None, "default": case["default"],
         "formulas": [[[1, 1, 1], ["bin", "add", ["dep", 0, "same", "plain"], ["const", 1]]]] if case["formula"] else [],
         "eff_ent": "person", "eff_type": "float"}
    with warnings.catch_warnings():
        warnings.simplefilter("ignore")
        base = rules.build_system(sysj, switches)
        base.replace_variable(make_class(base, 1, d, nref, switches))     # the declared default: float(text)

        def answer(tbs, with_input):
            sim = rules.build_simulation(tbs, pop, {}, nref)
            sim.set_input("v0", rules.mk_period(period), numpy.array(case["input"]))
            if with_input:
                sim.set_input("v1", rules.mk_period(period), numpy.array(case["input"], dtype=numpy.float32) + 3)
            a = sim.calculate("v1", rules.mk_period(period))
            return [_bits(a), str(a.dtype), len(a)]

        out = {}
        if case["base_first"]:
            out["base_before"] = answer(base, False)
        via = case["via"]
        if via == "reform":
            derived = make_reform([["neutralize", 1]], nref, switches)(base)
        elif via == "clone":
            derived = base.clone()
            derived.neutralize_variable("v1")
        elif via == "chained":
            derived = make_reform([["neutralize", 1]], nref, switches)(make_reform([["neutralize", 0]], nref, switches)(base))
        else:
            derived = make_reform([["neutralize", 1]], nref, switches)(base).clone()
        out["derived"] = answer(derived, True)
        out["derived_default"] = _bits([derived.get_variable("v1").default_value])
        out["neutralized"] = bool(derived.get_variable("v1").is_neutralized)
        out["base_after"] = answer(base, False)
        out["base_neutralized"] = bool(base.get_variable("v1").is_neutralized)
    return out


def oracle_special(case, obs):
    n = case["persons"]
    declared = numpy.float32(float(case["default"]))
    want = _bits(numpy.full(n, declared, dtype=numpy.float32))
    got, dtype, size = obs["derived"]
    if not obs["neutralized"]:
        return "special-neutralised: the variable of the derived system is not neutralised"
    if dtype != "float32" or size != n:
        return f"special-neutralised: answer of dtype {dtype} and size {size}"
    if case["default"] == "nan":
        ok = bool(numpy.isnan(numpy.frombuffer(bytes.fromhex(got), dtype=numpy.float32)).all())
    else:
        ok = got == want                                  # bit for bit: the sign of zero counts
    if not ok:
        return (f"special-neutralised: float variable declared with default {case['default']}, neutralised through "
                f"{case['via']}, inputs given: answers {got} (float32 bits), the default is {want}")
    if obs["base_neutralized"]:
        return "special-frame: the baseline's variable became neutralised"
    if "base_before" in obs and obs["base_before"] != obs["base_after"]:
        return f"special-frame: the baseline answered {obs['base_before']} before and {obs['base_after']} after the derivation"
    return None


def run_impl(case):
    if case.get("kind") == "runner":
        return run_runner(case)
    if case.get("kind") == "special":
        return run_special(case)
    if case.get("kind") == "tworoots":
        return run_tworoots(case)
    sysj, pop = case["sys"], case["pop"]
    nref = {"vars": [None] * case["nnames"], "max_loops": sysj.get("max_loops", 1)}
    switches = set()
    nparams = len(sysj["params"])
    nflat = case.get("nflat", nparams)
    nref["nflat"] = nflat
    out = []
    with warnings.catch_warnings():
        warnings.simplefilter("ignore")
        world = [rules.build_system(dict(sysj, params=sysj["params"][:nflat]), switches)]
        add_extra_parameters(world[0], sysj["params"][nflat:])
        sims = {}

        def simulate(tbs, sim, reqs):
            answers = []
            if sim is None:
                sim = rules.build_simulation(tbs, pop, {}, nref)
                reqs = case["inputs"] + reqs
            for r in reqs:
                try:
                    a = rules.do_request(sim, nref, switches, r)
                except rules.Inexact:
                    raise
                except Exception as e:  # noqa: BLE001
                    a = Err(errkind(e), f"{type(e).__name__}: {e}"[:200])
                answers.append(a)
            return sim, answers

        try:
            for s in case["steps"]:
                kind = s[0]
                if kind in ("clone", "reform", "mod"):
                    if kind == "mod":
                        sims.pop(s[1], None)
                    if s[1] >= len(world):
                        out.append(Err("ENotFound", "no such system"))
                        continue
                    try:
                        if kind == "clone":
                            world.append(world[s[1]].clone())
                        elif kind == "reform":
                            world.append(make_reform(s[2], nref, switches)(world[s[1]]))
                        else:
                            perform(world[s[1]], s[2], nref, switches)
                        out.append(None)
                    except Exception as e:  # noqa: BLE001
                        out.append(Err(errkind(e), f"{type(e).__name__}: {e}"[:200]))
                elif kind == "eval":
                    _, i, fresh, reqs = s
                    if i >= len(world):
                        out.append(Err("ENotFound", "no such system"))
                        continue
                    if fresh:
                        _sim, answers = simulate(world[i], None, reqs)
                    else:
                        sims[i], answers = simulate(world[i], sims.get(i), reqs)
                    out.append(answers)
                elif kind == "look":
                    i = s[1]
                    if i >= len(world):
                        out.append(Err("ENotFound", "no such system"))
                        continue
                    out.append(look_system(world[i], sims.get(i), case["nnames"], nparams, case["dates"], nflat))
                else:
                    raise AssertionError(kind)
        except rules.Inexact:
            _SKIP.add(_key(case))
            return "skip"
    return out


# ---------------------------------------------------------------------------------------
# Coq rendering
# ---------------------------------------------------------------------------------------

CENT = {"person": "EPerson", "group": "EGroup"}
CTYPE = {"int": "TInt", "float": "TFloat", "bool": "TBool"}


def cvdef(d):
    fs = clist([f"({rules.cdate(s)}, {rules.cexpr(e)})" for s, e in d["formulas"]])
    return (f"(mk_vdef {copt(d['ent'], CENT.get)} {copt(d['type'], CTYPE.get)} "
            f"{copt(d['unit'], rules.UNIT_COQ.get)} {copt(d['end'], rules.cdate)} {copt(d['default'], cz)} {fs})")


def cups(ups):
    return clist([f"({rules.cnat(k)}, ({cz(rules.date_ord(start))}, {copt(stop, lambda x: cz(rules.date_ord(x)))}, "
                  f"{copt(value, cz)}))" for k, start, stop, value in (u[:4] for u in ups)])


def cmod(m):
    kind = m[0]
    if kind == "add":
        return f"(AddVar {rules.cnat(m[1])} {cvdef(m[2])})"
    if kind == "update":
        return f"(UpdateVar {rules.cnat(m[1])} {cvdef(m[2])})"
    if kind == "replace":
        return f"(ReplaceVar {rules.cnat(m[1])} {cvdef(m[2])})"
    if kind == "neutralize":
        return f"(Neutralize {rules.cnat(m[1])})"
    if kind == "annualize":
        return f"(Annualize {rules.cnat(m[1])})"
    if kind == "modify_params":
        return f"(ModifyParams {cups(m[1])})"
    if kind == "edit_params":
        return f"(EditParams {cups(m[1])})"
    raise AssertionError(kind)


def cstep(s, case):
    kind = s[0]
    if kind == "clone":
        return f"SDerive (DClone {rules.cnat(s[1])})"
    if kind == "reform":
        return f"SDerive (DReform {rules.cnat(s[1])} {clist([cmod(m) for m in s[2]])})"
    if kind == "mod":
        return f"SDerive (DMod {rules.cnat(s[1])} {cmod(s[2])})"
    if kind == "eval":
        return f"SEval {rules.cnat(s[1])} {cbool(s[2])} {clist([rules.crequest(r) for r in s[3]])}"
    if kind == "look":
        return (f"SLook {rules.cnat(s[1])} {rules.cnat(case['nnames'])} "
                f"{clist([cz(rules.date_ord(d)) for d in case['dates']])}")
    raise AssertionError(kind)


def coq_case(case):
    if _key(case) in _SKIP or case.get("kind") in ("runner", "special", "tworoots"):
        return "Corr_C14.CSkip"             # the test-runner stream is oracle only
    y0, ny = case["window"]
    return (f"(CCase {cz(y0)} {rules.cnat(ny)} {rules.csys(case['sys'], None)} {rules.cpop(case['pop'])} "
            f"{clist([rules.crequest(r) for r in case['inputs']])} {clist([cstep(s, case) for s in case['steps']])})")


def obs_for_coq(case, obs):
    if case.get("kind") in ("runner", "special", "tworoots") and not isinstance(obs, Err):
        return "skip"
    return obs


# ---------------------------------------------------------------------------------------
# oracle: the property evaluated on the implementation's observations, without the model
# ---------------------------------------------------------------------------------------

def _rkey(r):
    return json.dumps(r)


def _span(d, start, stop):
    return tuple(start) <= tuple(d) and (stop is None or tuple(d) <= tuple(stop))


def _expected_var(before, mod):
    """the look of a variable after one declared modification of it, from its look before"""
    kind = mod[0]
    if kind == "neutralize":
        return None if before is None else before[:2] + [True] + before[3:]
    if kind == "annualize":
        return None if before is None else before[:2] + [False] + before[3:]
    d = mod[2]
    base = before if kind == "update" else None
    new_dates = [list(s) for s, _ in d["formulas"]]
    if base is not None and new_dates:
        dates = [x for x in base[0] if x < new_dates[0]] + new_dates
    elif base is not None:
        dates = base[0]
    else:
        dates = new_dates
    def pick(declared, idx, dflt=None):
        if declared is not None:
            return declared
        return base[idx] if base is not None else dflt
    return [dates,
            pick(None if d["unit"] is None else rules.UNITS.index(d["unit"]), 1),
            False,
            pick(d["default"], 3, 0),
            pick(None if d["type"] is None else TYPE_CODE[d["type"]], 4),
            pick(d["end"], 5),
            pick(None if d["ent"] is None else ENT_CODE[d["ent"]], 6)]


def _walk(case, obs):
    """Replays the script's bookkeeping.  Yields nothing; returns the list of findings
    [(class, text, f20_candidate)] in the order: everything that is not F20 first."""
    findings, f20 = [], []
    pop = case["pop"]
    counts = {0: len(pop["ids"]), 1: pop["count"]}
    inputs = {(r[1], _rkey(r[2])) for r in case["inputs"]}
    nparams = len(case["sys"]["params"])
    # per system: parent, version, annual status, last look, answers by (version, request)
    meta = [{"base": None, "version": 0, "annual": set(), "has_annual": False, "nann": 0, "look": None, "answers": {}}]
    sims = {}       # system -> set of (var, period key) already answered on the long-lived simulation
    pending = []    # expectations to check at the next look of a system: (system, fn(look) -> str|None)

    def expect_table(j, ref_look, mods, what):
        """system j must show ref_look changed by mods (each variable touched at most once, else no claim)"""
        touched = {}
        for m in mods:
            if m[0] in ("modify_params", "edit_params"):
                continue
            touched.setdefault(m[1], []).append(m)
        pmods = [m for m in mods if m[0] in ("modify_params", "edit_params")]

        def check(look):
            for path, table in [("system", look[0]), ("person entity", look[1][0]), ("group entity", look[1][1])]:
                for n, got in enumerate(table):
                    if n in touched:
                        if len(touched[n]) > 1:
                            continue
                        want = _expected_var(ref_look[0][n], touched[n][0])
                        cls = {"update": "update-inherits", "neutralize": "neutralised-definition",
                               "annualize": "annualised-definition"}.get(touched[n][0][0], "declared-definition")
                    else:
                        want, cls = ref_look[0][n], "derived-keeps"
                    if got != want:
                        return f"{cls}: {what}: variable v{n} seen through the {path} is {got}, expected {want}"
            if len(pmods) <= 1:
                ups = pmods[0][1] if pmods else []
                for k in range(nparams):
                    for di, d in enumerate(case["dates"]):
                        want = ref_look[2][k][di]
                        for kk, start, stop, value in (u[:4] for u in ups):
                            if kk == k and _span(d, start, stop):
                                want = value
                        if look[2][k][di] != want:
                            return (f"modified-parameters: {what}: p{k} at {d} is {look[2][k][di]}, expected {want}")
            return None
        pending.append((j, check))

    for idx, (s, o) in enumerate(zip(case["steps"], obs)):
        kind = s[0]
        if kind in ("clone", "reform", "mod"):
            expect = s[-1]
            if kind == "mod":
                sims.pop(s[1], None)
            if isinstance(o, Err):
                if expect == "ok":
                    findings.append(("derivation-raised", f"step {idx} {s[0]} raised {o.kind}: {o.msg}"))
                continue
            if expect == "error":
                findings.append(("derivation-accepted", f"step {idx} {json.dumps(s)[:200]} should have been refused"))
            if kind == "clone":
                i = s[1]
                meta.append({"base": meta[i]["base"], "version": 0, "annual": set(meta[i]["annual"]),
                             "has_annual": meta[i]["has_annual"], "nann": meta[i]["nann"], "look": None, "answers": {},
                             "born": (i, [])})
            elif kind == "reform":
                i, mods = s[1], s[2]
                ann = set(meta[i]["annual"])
                for m in mods:
                    _track(ann, m)
                meta.append({"base": i, "version": 0, "annual": ann,
                             "has_annual": meta[i]["has_annual"] or any(m[0] == "annualize" for m in mods),
                             "nann": meta[i]["nann"] + sum(1 for m in mods if m[0] == "annualize"),
                             "look": None, "answers": {}, "born": (i, mods)})
            else:
                j, m = s[1], s[2]
                if j < len(meta):
                    _track(meta[j]["annual"], m)
                    meta[j]["has_annual"] = meta[j]["has_annual"] or m[0] == "annualize"
                    meta[j]["nann"] += 1 if m[0] == "annualize" else 0
                    meta[j]["version"] += 1
                    sims.pop(j, None)
                    if meta[j]["look"] is not None:
                        ref = meta[j]["look"]
                        if m[0] == "modify_params" and meta[j]["base"] is not None and meta[meta[j]["base"]]["look"] is not None:
                            # modify_parameters starts again from the BASELINE's parameters
                            ref = [ref[0], ref[1], meta[meta[j]["base"]]["look"][2]]
                        expect_table(j, ref, [m], f"after {m[0]} on system {j} (step {idx})")
                    meta[j]["look"] = None
            continue
        if isinstance(o, Err):
            continue
        i = s[1]
        if i >= len(meta):
            continue
        me = meta[i]
        if kind == "look":
            for path, table in [("person entity", o[1][0]), ("group entity", o[1][1])]:
                if table != o[0]:
                    findings.append(("entity-resolution", f"step {idx}: the {path} of system {i} does not resolve variables "
                                     f"in system {i}: {table} vs {o[0]}"))
            if me["look"] is not None and me["look"] != o:
                findings.append(("frame", f"step {idx}: system {i} was not modified but its definitions changed: "
                                 f"{_diff(me['look'], o)}"))
            born = me.pop("born", None)
            if born is not None and meta[born[0]]["look"] is not None:
                parent_look = meta[born[0]]["look"]
                expect_table(i, parent_look, born[1], f"system {i} derived from system {born[0]}")
            still = []
            for j, check in pending:
                if j == i:
                    msg = check(o)
                    if msg:
                        findings.append((msg.split(":")[0], msg.split(":", 1)[1].strip()))
                else:
                    still.append((j, check))
            pending[:] = still
            me["look"] = o
            continue
        # eval
        fresh, reqs = s[2], s[3]
        known_ = set() if fresh or i not in sims else sims[i]
        created = fresh or i not in sims
        allreqs = (case["inputs"] if created else []) + reqs
        if len(o) != len(allreqs):
            findings.append(("driver", f"step {idx}: {len(o)} answers for {len(allreqs)} requests"))
            continue
        table = me["look"][0] if me["look"] is not None else None
        jan_seen = {}
        for r, a in zip(allreqs, o):
            if r[0] == "set":
                if not isinstance(a, Err):
                    known_.add((r[1], _rkey(r[2])))
                continue
            key = (me["version"], _rkey(r))
            if not me["has_annual"]:
                if key in me["answers"] and me["answers"][key] != a:
                    findings.append(("frame", f"step {idx}: system {i} was not modified but {r} now yields {a}, "
                                     f"earlier {me['answers'][key]}"))
                me["answers"].setdefault(key, a)
            v = r[1]
            lv = table[v] if table is not None and v < len(table) else None
            if r[0] == "calc" and lv is not None and not isinstance(a, Err):
                if lv[2] and a != [lv[3]] * counts[lv[6]]:
                    findings.append(("neutralised", f"step {idx}: system {i}: neutralised v{v} at {r[2]} yields {a}, "
                                     f"default is {lv[3]}"))
                if (v in me["annual"] and lv[1] == rules.UNITS.index("month") and lv[5] is None and r[2][0] == "month"
                        and r[2][2] == 1 and r[2][1][2] == 1):
                    y, m = r[2][1][0], r[2][1][1]
                    jkey = (v, _rkey(["month", [y, 1, 1], 1]))
                    if m == 1:
                        jan_seen[(v, y)] = a
                    elif (v, _rkey(r[2])) not in inputs and any(tuple(d) <= (y, m, 1) for d in lv[0]):
                        # (a month before the first formula starts has no formula to annualise)
                        jan_seen.setdefault(("asked", v, y), []).append((r, a, jkey in known_, lv[3], counts[lv[6]]))
                known_.add((v, _rkey(r[2])))
        # annualised: every month equals the January value of the same simulation
        for k, asked in jan_seen.items():
            if k[0] != "asked":
                continue
            _, v, y = k
            jan = jan_seen.get((v, y))
            if jan is None or isinstance(jan, Err):
                continue
            for r, a, jan_known, dflt, cnt in asked:
                if a == jan:
                    continue
                if jan_known and me["nann"] == 1:
                    # (with several annualised variables a January value may itself have been
                    # discarded by the spiral cut of another one: F20 again, decided by the model)
                    findings.append(("annualised", f"step {idx}: system {i}: annualised v{v} at {r[2]} yields {a} "
                                     f"although its January value {jan} was already known"))
                else:
                    f20.append(("annualised-january-later", f"step {idx}: system {i}: annualised v{v} asked for {r[2]} "
                                f"before January yields {a}, January then yields {jan}", a == [dflt] * cnt))
        if not fresh:
            sims[i] = known_
    return findings, f20


def _track(ann, m):
    if m[0] == "annualize":
        ann.add(m[1])
    elif m[0] in ("neutralize", "update", "replace", "add"):
        ann.discard(m[1])


def _diff(a, b):
    for name, x, y in [("variables", a[0], b[0]), ("through entities", a[1], b[1]), ("parameters", a[2], b[2])]:
        if x != y:
            if name == "variables":
                for n, (p, q) in enumerate(zip(x, y)):
                    if p != q:
                        return f"v{n}: {p} -> {q}"
            return f"{name}: {x} -> {y}"
    return "?"


def oracle(case, obs):
    if obs == "skip" or isinstance(obs, Err):
        return None if obs == "skip" else f"driver: {obs.kind} {obs.msg}"
    if case.get("kind") == "runner":
        return oracle_runner(case, obs)
    if case.get("kind") == "special":
        return oracle_special(case, obs)
    if case.get("kind") == "tworoots":
        return oracle_tworoots(case, obs)
    findings, f20 = _walk(case, obs)
    if findings:
        cls, text = findings[0]
        return f"{cls}: {text}"
    if f20:
        cls, text, _ = f20[0]
        return f"{cls}: {text}"
    return None


def known(case, obs, msg):
    """F20: only when nothing else fails on the case, and every failing month shows exactly the
    recorded defect (the default array, January not yet known in that simulation)."""
    if not msg.startswith("annualised-january-later:"):
        return None
    findings, f20 = _walk(case, obs)
    if findings or not f20 or not all(is_default for _, _, is_default in f20):
        return None
    return SIG_F20


def nontrivial(case, obs):
    if obs == "skip" or isinstance(obs, Err):
        return False
    if case.get("kind") == "special":
        return obs["neutralized"]
    if case.get("kind") == "tworoots":
        return obs["rootA"] != obs["rootB"]
    if case.get("kind") == "runner":
        return any(chain and with_ext and rec["error"] is None for (chain, with_ext), rec in zip(case["calls"], obs["calls"]))
    derived_ok = any(s[0] in ("clone", "reform", "mod") and o is None for s, o in zip(case["steps"], obs))
    ran = any(s[0] == "eval" and s[1] > 0 and isinstance(o, list) and any(isinstance(a, list) for a in o)
              for s, o in zip(case["steps"], obs))
    return derived_ok and ran


def classify(case, obs):
    if obs == "skip":
        return "skipped-inexact"
    if isinstance(obs, Err):
        return "driver-error"
    if case.get("kind") == "runner":
        return "test-runner"
    if case.get("kind") == "special":
        return "special-default " + case["default"]
    if case.get("kind") == "tworoots":
        return "two-roots"
    kinds = set()
    for s in case["steps"]:
        if s[0] == "clone":
            kinds.add("clone")
        elif s[0] == "reform":
            kinds.add("reform")
            kinds.update(m[0] for m in s[2])
        elif s[0] == "mod":
            kinds.add("inplace")
            kinds.add(s[2][0])
    tags = [k for k in ("clone", "reform", "inplace") if k in kinds]
    for k in ("annualize", "neutralize", "update", "modify_params"):
        if k in kinds:
            tags.append(k[:5])
    return "+".join(tags) or "none"
