"""C18 - a failed calculation leaves the simulation consistent and reusable.

A case is a rule system of harness/rules.py (compiled to REAL Variable subclasses) in which
one failure has been injected into the formula(s) of one variable of the evaluation tree
of a target request, a population, a trace flag and a request sequence that makes the
target request fail, removes the cause and repeats the request.

Failure kinds: a formula that raises while a harness-side switch is on ("raise": one
switch, "raise2": two switches in two variables), a dependency requested for a text that
is not a period ("bad_period"), for an unknown variable ("unknown_var"), for a period of
the wrong unit ("wrong_unit"), a variable that reads itself at the same period
("cycle_direct") and two variables that read each other ("cycle_mutual").  Cause removal:
["switch", k, false], or ["replace", v, formulas, "replace"|"update"] = a corrected class for the
variable given to TaxBenefitSystem.replace_variable / update_variable under the live
simulation (model side: a new segment of Corr_C18.CSeq with the new rule system and the
state carried over), or - when the failure is a dependency on an unknown variable -
["addvar", var] = TaxBenefitSystem.add_variable of that variable under the live simulation
(model side: the next segment's rule system contains it), or the pseudo request ["fix"] = set_input on the injected variable
at the period at which it was being computed when the last failure fired (resolved at run
time from the recorded stack; the resolved request is what the Coq model is given).

What is observed harness-side, with no hook in /repo: Simulation.calculate is wrapped on
the simulation *instance*; the wrapper keeps its own list of the (variable, period) calls
in progress and, the first time an exception passes through it, records that list: these
are the computations that did not complete.

The oracle is the property's text evaluated on the real simulation, independently of the
Coq model: see oracle().
"""
from __future__ import annotations

import copy
import json
import shutil
import warnings

import numpy

from openfisca_core.variables import Variable

import rules
from common import Err, clist, errkind

PROP = "C18"
COQ_HEADER = "From Verif Require Import Np Group Param Engine CorrEng Corr_C18."
COQ_RUN = "Corr_C18.run"
SHARD = 30
ANCHORS = ["openfisca_core/simulations/simulation.py", "openfisca_core/tracers/simple_tracer.py",
           "openfisca_core/tracers/full_tracer.py", "openfisca_core/holders/holder.py",
           "openfisca_core/populations/_core_population.py"]
RULE = ("ranked rule systems (5-9 variables over the expression language of coq/model/Engine.v, compiled to real "
        "Variable subclasses) with a target request; for EVERY variable with a formula in the dependency cone of the "
        "target in turn, one case with a failure injected into its formula(s) - kinds raise (switch), two raises, "
        "non-period text, unknown variable, wrong-unit dependency, direct cycle, mutual cycle - at the first, last or "
        "an inner position of the formula (so that none, all or some of the other dependencies have completed when it "
        "fires); request sequences: inputs, failing and succeeding requests mixed, cause removed (switch off / "
        "set_input on the failing node / the variable's class corrected on the live tax-benefit system with "
        "replace_variable or update_variable / the unknown variable added with add_variable), same request repeated, further requests; max_spiral_loops 1-3; "
        "FullTracer on or off; plus a stream of circular definitions passing through 1-2 other periods of the same "
        "variable before closing under max_spiral_loops 1-3 (missing input then supplied), and a stream "
        "of self-dependent (spiralling) systems with raising formulas and malformed requests for which only the "
        "stack / cursor / purge / re-entrance part is claimed; oracle-only (model side skipped): 20 chains of 400 "
        "variables requested from 10 call depths (RecursionError inside the engine, then bottom-up and again), and "
        "float systems whose unguarded divisions give NaN / inf for some persons (set_input correcting the input "
        "only after a request that failed).  Non-trivial: an injected failure fired below the top-level "
        "request with at least one unfinished frame; distinct by JSON text")
TRUSTED = ["harness/rules.py: compiler from rule-system terms to real Variable subclasses (formulas call the public API)",
           "harness/c18.py: the wrapper around Simulation.calculate (instance attribute) that records the calls in "
           "progress when an exception first passes"]
ASSUMPTIONS = ["switches are only turned ON before the first calculation of a case: turning a raise on under a live "
               "cache changes the rule system under cached values and is outside the property",
               "fresh-simulation comparisons (oracle parts c, d, e) are claimed for systems that cannot spiral (ranked, "
               "or ranked plus a same-period cycle); for self-dependent systems only error propagation, no entry for "
               "unfinished frames, empty stack, trace cursor and empty invalidated set are claimed",
               "FullTracer._current_node is not part of the Coq machine state (the evaluation stack and the invalidated "
               "set are); the cursor is checked on the implementation only",
               "generated values stay below 2^22 in absolute value; inexact cases are discarded and counted"]

BASE = {"nvars": (5, 9), "bad": 0.0, "badreq": 0.0, "nparams": 2, "neutral": 0.03, "depth": 3}
SPIRAL = {"nvars": (2, 5), "spiral": 0.5, "bad": 0.04, "badreq": 0.08, "nparams": 1, "depth": 2, "raise": 0.5,
          "nreq": (4, 9)}
KINDS = ["raise", "bad_period", "unknown_var", "wrong_unit", "cycle_direct", "cycle_mutual", "raise2", "raise"]
EXPR_TAGS = ("const", "dep", "bin", "not", "where", "param", "agg", "nb", "project", "field", "raise")

_RESOLVED = {}     # case key -> resolved request list, or "skip"


def _key(case):
    return json.dumps(case, sort_keys=True)


# ---------------------------------------------------------------------------------------
# generator
# ---------------------------------------------------------------------------------------

def cone_of(sys, t):
    """variables reachable from t through formulas (t included), ascending"""
    seen, todo = set(), [t]
    while todo:
        i = todo.pop()
        if i in seen or i >= len(sys["vars"]):
            continue
        seen.add(i)
        for _, e in sys["vars"][i]["formulas"]:
            for d in rules.deps_of(e):
                todo.append(d[1])
    return sorted(seen)


def leaves(e, ctx, path, acc):
    """(path, context entity) of every leaf of e"""
    tag = e[0]
    if tag == "bin":
        leaves(e[2], ctx, path + [2], acc)
        leaves(e[3], ctx, path + [3], acc)
    elif tag == "not":
        leaves(e[1], ctx, path + [1], acc)
    elif tag == "where":
        for k in (1, 2, 3):
            leaves(e[k], ctx, path + [k], acc)
    elif tag == "agg":
        leaves(e[3], "person", path + [3], acc)
    elif tag == "project":
        leaves(e[2], "group", path + [2], acc)
    else:
        acc.append((path, ctx))
    return acc


def dep_contexts(e, ctx, idx, acc):
    """entity contexts in which variable idx is requested inside e"""
    tag = e[0]
    if tag == "dep":
        if e[1] == idx:
            acc.add(ctx)
    elif tag == "bin":
        dep_contexts(e[2], ctx, idx, acc), dep_contexts(e[3], ctx, idx, acc)
    elif tag == "not":
        dep_contexts(e[1], ctx, idx, acc)
    elif tag == "where":
        for k in (1, 2, 3):
            dep_contexts(e[k], ctx, idx, acc)
    elif tag == "agg":
        dep_contexts(e[3], "person", idx, acc)
    elif tag == "project":
        dep_contexts(e[2], "group", idx, acc)
    elif tag not in EXPR_TAGS:          # newer constructors of rules.py: walk every sub-expression, same context
        for x in e[1:]:
            if isinstance(x, list) and x and isinstance(x[0], str):
                dep_contexts(x, ctx, idx, acc)
    return acc


def replace_at(e, path, f):
    if not path:
        return f(e)
    e = list(e)
    e[path[0]] = replace_at(e[path[0]], path[1:], f)
    return e


def injection(rng, sys, f, kind, ctx, nv, ghost=None):
    """the failing sub-expression for variable f evaluated in entity context ctx"""
    vs = sys["vars"]
    if kind in ("raise", "raise2"):
        return ["raise", 0]
    same_ent = [j for j in range(f) if vs[j]["ent"] == ctx]
    if kind == "bad_period":
        j = rng.choice(same_ent) if same_ent else rng.randrange(max(f, 1))
        return ["dep", j, "bad", "plain"]
    if kind == "unknown_var":
        return ["dep", nv + 5 if ghost is None else ghost, rng.choice(["same", "same", ["offset", -1]]),
                rng.choice(["plain", "plain", "add"])]
    if kind == "wrong_unit":
        u = vs[f]["unit"]
        other = [j for j in same_ent if vs[j]["unit"] not in (u, "eternity")]
        if other and rng.random() < 0.7:
            return ["dep", rng.choice(other), "same", "plain"]
        dated = [j for j in same_ent if vs[j]["unit"] != "eternity"]
        if dated:
            j = rng.choice(dated)
            return ["dep", j, ["fixed", rules.gen_period(rng, vs[j]["unit"], size=rng.choice([2, 3]))], "plain"]
        return ["dep", rng.randrange(max(f, 1)), "same", "both"]     # incompatible options: also a ValueError
    if kind == "cycle_direct":
        return ["dep", f, "same", "plain"]
    if kind == "cycle_mutual":
        return ["dep", nv, "same", "plain"]
    raise AssertionError(kind)


def inject(rng, sys, f, kind, where, switch=0):
    """a copy of sys with a failure of the given kind in every formula of variable f"""
    sys = copy.deepcopy(sys)
    nv = len(sys["vars"])
    v = sys["vars"][f]
    which = None if rng.random() < 0.8 else rng.randrange(len(v["formulas"]))
    ghost = nv if rng.random() < 0.7 else nv + 5      # nv: the next free index, so that the variable can be added
    for n, se in enumerate(v["formulas"]):
        if which is not None and n != which:
            continue
        old = se[1]
        if where == "first":
            inj = injection(rng, sys, f, kind, v["ent"], nv, ghost)
            new = ["bin", "add", inj, old]
        elif where == "last":
            inj = injection(rng, sys, f, kind, v["ent"], nv, ghost)
            new = ["bin", "add", old, inj]
        else:
            path, ctx = rng.choice(leaves(old, v["ent"], [], []))
            inj = injection(rng, sys, f, kind, ctx, nv, ghost)
            if rng.random() < 0.5:
                new = replace_at(old, path, lambda leaf: ["bin", "add", leaf, inj])
            else:
                new = replace_at(old, path, lambda leaf: ["bin", "add", inj, leaf])
        if inj[0] == "raise":
            inj[1] = switch
        se[1] = new
    if kind == "cycle_mutual":
        sys["vars"].append({"ent": v["ent"], "type": rng.choice(["int", "float"]), "unit": v["unit"], "end": None,
                            "formulas": [[[1, 1, 1], rng.choice([["dep", f, "same", "plain"],
                                                                 ["bin", "add", ["dep", f, "same", "plain"], ["const", 1]]])]],
                            "default": 0, "neutral": False})
    return sys


def gen_calc_request(rng, sys, i, year):
    """a well-formed calculate / calculate_add / calculate_divide request on variable i"""
    u = sys["vars"][i]["unit"]
    r = rng.random()
    if u == "eternity":
        return ["calc", i, rules.gen_period(rng, rng.choice(["month", "year", "day"]), year=year)]
    if r < 0.65:
        return ["calc", i, rules.gen_period(rng, u, year=rng.choice([year, year, year + 1]))]
    if r < 0.87:
        bigger = {"day": ["month", "day"], "month": ["year", "month"], "year": ["year"],
                  "weekday": ["week", "weekday"], "week": ["week"]}[u]
        bu = rng.choice(bigger)
        size = rng.choice([1, 1, 2, 3]) if not (u == "day" and bu == "month") else 1
        return ["add", i, rules.gen_period(rng, bu, size=size, year=year)]
    smaller = {"year": ["month", "day", "year"], "month": ["day", "month"], "week": ["weekday", "week"],
               "day": ["day"], "weekday": ["weekday"]}[u]
    return ["div", i, rules.gen_period(rng, rng.choice(smaller), year=year)]


def gen_base(rng):
    sys = rules.gen_system(rng, BASE)
    for v in sys["vars"]:
        if v["unit"] == "eternity":
            v["formulas"] = []         # eternal variables are inputs (ranked systems of EngineProofs.v)
            v["neutral"] = False
    pop = rules.gen_pop(rng, 5)
    year = rng.choice(rules.BASE_YEARS)
    sets = []
    for i, v in enumerate(sys["vars"]):
        if v["formulas"] and rng.random() < 0.9:
            continue
        if rng.random() < 0.85:
            for _ in range(rng.randint(1, 3)):
                p = rules.gen_period(rng, v["unit"], year=rng.choice([year, year, year - 1]))
                if v["unit"] == "month" and rng.random() < 0.5:
                    p = ["month", [year, rng.randint(1, 12), 1], 1]
                sets.append(["set", i, p, rules.input_values(rng, v, rules.count_for(pop, v))])
    for v in sys["vars"]:
        v.pop("divisible", None)
    return sys, pop, year, sets


def gen_injected(rng, counter):
    """all the cases of one base system: one per variable with a formula in the cone of the target"""
    sys0, pop, year, sets = gen_base(rng)
    with_formula = [i for i, v in enumerate(sys0["vars"]) if v["formulas"] and not v.get("neutral")]
    if not with_formula:
        return []
    sizes = {i: len(cone_of(sys0, i)) for i in with_formula}
    best = sorted(with_formula, key=lambda i: (-sizes[i], i))[:2]       # deep evaluation trees
    t = rng.choice(best)
    target = gen_calc_request(rng, sys0, t, year)
    cone = [i for i in cone_of(sys0, t) if sys0["vars"][i]["formulas"] and not sys0["vars"][i].get("neutral")]
    out = []
    for f in cone:
        kind = KINDS[counter[0] % len(KINDS)]
        where = ["first", "last", "inner"][(counter[0] // len(KINDS)) % 3]
        counter[0] += 1
        k1 = rng.choice([1, 2])       # 1: the formula raises an Exception; 2: a BaseException (rules.HarnessAbort)
        k2 = 3 - k1
        sys = inject(rng, sys0, f, kind, where, switch=k1)
        sys["max_loops"] = rng.choice([1, 1, 2, 3])
        nv0 = len(sys0["vars"])
        # third way of removing the cause: the variable's class is corrected on the live tax-benefit system
        swap = ["replace", f, copy.deepcopy(sys0["vars"][f]["formulas"]), rng.choice(["replace", "update"])]
        others = lambda k: [gen_calc_request(rng, sys0, rng.randrange(nv0), year) for _ in range(k)]  # noqa: E731
        reqs = list(sets)
        if kind in ("raise", "raise2"):
            on = [k1]
            if kind == "raise2":
                g = rng.choice(cone)
                sys = inject(rng, sys, g, "raise", rng.choice(["first", "last", "inner"]), switch=k2)
                on = [k1, k2]
            if rng.random() < 0.5:
                sys["switches"] = list(on)
            else:
                reqs += [["switch", k, True] for k in on]
            first = others(rng.randint(1, 3)) + [target]
            rng.shuffle(first)
            reqs += first
            if kind == "raise2":
                order = on if rng.random() < 0.5 else on[::-1]
                reqs += [["switch", order[0], False], target] + others(rng.randint(0, 1))
                reqs += [["switch", order[1], False], target]
            else:
                if rng.random() < 0.3:
                    reqs += [target]                                   # fails twice in a row
                reqs += [swap if rng.random() < 0.3 else ["switch", k1, False], target]
            again = [r for r in first if r != target]
            reqs += rng.sample(again, min(len(again), 2)) + others(rng.randint(0, 2))
        else:
            first = others(rng.randint(1, 3)) + [target]
            rng.shuffle(first)
            ctxs = set()
            for _, e in sys["vars"][f]["formulas"]:
                dep_contexts(e, sys["vars"][f]["ent"], nv0, ctxs)
            if kind == "unknown_var" and len(ctxs) == 1 and rng.random() < 0.6:
                # fourth way: the unknown variable is added to the live tax-benefit system
                ent = ctxs.pop()
                u = sys["vars"][f]["unit"]
                inputs_ = [j for j in range(nv0) if not sys0["vars"][j]["formulas"] and sys0["vars"][j]["ent"] == ent
                           and sys0["vars"][j]["unit"] in (u, "eternity")]
                formulas = []
                if inputs_ and rng.random() < 0.4:
                    formulas = [[[1, 1, 1], ["bin", "add", ["dep", rng.choice(inputs_), "same", "plain"],
                                             ["const", rng.randint(1, 5)]]]]
                newvar = {"ent": ent, "type": rng.choice(["int", "int", "float"]), "unit": u, "end": None,
                          "formulas": formulas, "default": rng.choice([0, 1, 3]), "neutral": False}
                cnt = rules.count_for(pop, newvar)
                tp = rules.gen_period(rng, u, year=year)
                use = lambda: rng.choice([["set", nv0, tp if rng.random() < 0.5 else rules.gen_period(rng, u, year=year),  # noqa: E731
                                           [rng.randint(-9, 30) for _ in range(cnt)]],
                                          ["calc", nv0, tp], ["add", nv0, tp]])
                reqs += first + ([use()] if rng.random() < 0.3 else []) + [["addvar", newvar]]
                # inputs of the new variable first: a set_input made after its readers were computed would change
                # an input under a live cache, which is outside the property
                after = [use() for _ in range(rng.randint(0, 2))] + [target] + [use() for _ in range(rng.randint(0, 1))]
                reqs += [r for r in after if r[0] == "set"] + [r for r in after if r[0] != "set"]
            elif rng.random() < 0.5:
                reqs += first + [["fix"], target]
                if rng.random() < 0.5:
                    reqs += [["fix"], target]
                if rng.random() < 0.3:
                    reqs += [swap, target]
            else:
                reqs += first + [swap, target]
            again = [r for r in first if r != target]
            reqs += rng.sample(again, min(len(again), 2)) + others(rng.randint(0, 2))
            if kind.startswith("cycle") and rng.random() < 0.5:
                reqs += [gen_calc_request(rng, sys, f, year)]
        cfg = {"trace": rng.random() < 0.5}
        if rng.random() < 0.35:
            # non-default storage: everything on disk but the priority variables; some variables never stored
            nvs = len(sys["vars"])
            cfg.update({"disk": rng.random() < 0.75, "priority": [i for i in range(nvs) if rng.random() < 0.25],
                        "drop": [i for i in range(nvs) if rng.random() < 0.15]})
        out.append({"sys": sys, "pop": pop, "cfg": cfg, "requests": reqs,
                    "mode": "full", "inject": {"var": f, "kind": kind, "where": where, "target": target},
                    "fixvals": [rng.randint(-9, 30) for _ in range(6)]})
    return out


def gen_spiral(rng):
    case = rules.gen_case(rng, dict(SPIRAL, max_loops=rng.choice([1, 1, 2, 3])))
    case["sys"]["switches"] = sorted(rng.sample([0, 1, 2], rng.randint(1, 3)))
    case["cfg"] = {"trace": rng.random() < 0.5}
    reqs = case["requests"]
    vs = case["sys"]["vars"]
    selfdep = [i for i, v in enumerate(vs) if v["unit"] != "eternity"
               and any(d[1] >= i and d[1] < len(vs) for _, e in v["formulas"] for d in rules.deps_of(e))]
    if selfdep and rng.random() < 0.75:
        # a spiral taints cache entries, then the top-level formula raises: the purge must still run
        j = rng.choice(selfdep)
        k = rng.choice(case["sys"]["switches"])
        vs.append({"ent": vs[j]["ent"], "type": "int", "unit": vs[j]["unit"], "end": None, "default": 0, "neutral": False,
                   "formulas": [[[1, 1, 1], ["bin", "add", ["dep", j, "same", "plain"], ["raise", k]]]]})
        year = rng.choice(rules.BASE_YEARS)
        for _ in range(rng.randint(1, 2)):
            reqs.insert(rng.randint(0, len(reqs)), ["calc", len(vs) - 1, rules.gen_period(rng, vs[j]["unit"], year=year)])
    calcs = [r for r in reqs if r[0] in ("calc", "add", "div")]
    for k in case["sys"]["switches"]:
        reqs.append(["switch", k, False])
        reqs += rng.sample(calcs, min(len(calcs), 2))
    case["mode"] = "stack"
    case["inject"] = {"var": None, "kind": "spiral-stream", "where": None, "target": None}
    case["fixvals"] = []
    return case


def gen_long_cycle(rng):
    """A circular definition that passes through the same variable at m - 1 OTHER periods before it closes
    (f@D -> f@D-1 -> ... -> f@D-(m-1) -> f@D), under max_spiral_loops L in 1..3.  With L >= m every re-entry is a
    circular-definition error and no request on the periods of the circle can spiral (full oracle); with L < m the
    spiral cut fires first (stack / purge part only).  The cause is removed by supplying the missing input."""
    m = rng.choice([2, 2, 3])
    loops = rng.choice([1, 2, 2, 3, 3])
    unit = rng.choice(["year", "year", "month"])
    ent = rng.choice(["person", "person", "group"])
    y = rng.choice([2018, 2019, 2020])
    mo = 1 if unit == "year" else rng.randint(4, 12)

    def per(j):     # the period j steps before D
        return ["year", [y - j, 1, 1], 1] if unit == "year" else ["month", [y, mo - j, 1], 1]

    start = per(m - 2)[1]
    var = lambda formulas, ty="int": {"ent": ent, "type": ty, "unit": unit, "end": None, "formulas": formulas,  # noqa: E731
                                      "default": rng.choice([0, 1, 3]), "neutral": False}
    back = ["bin", "add", ["dep", 1, ["offset", -1], "plain"], ["dep", 0, "same", "plain"]]
    if unit == "year" and rng.random() < 0.4:
        back = ["bin", "add", ["dep", 1, "last_year", "plain"], ["dep", 0, "same", "plain"]]
    if rng.random() < 0.3:
        back = ["bin", "add", back[3], back[2]]
    fwd = ["bin", "sub", ["dep", 1, ["offset", m - 1], "plain"], ["dep", 0, ["offset", m - 1], "plain"]]
    vs = [var([]),
          var([[[1, 1, 1], fwd], [start, back]], rng.choice(["int", "float"])),
          var([[[1, 1, 1], rng.choice([["bin", "mul", ["const", 2], ["dep", 1, "same", "plain"]],
                                       ["bin", "add", ["dep", 0, "same", "plain"], ["dep", 1, "same", "plain"]]])]]),
          var([[[1, 1, 1], ["bin", "add", ["dep", 2, "same", "plain"], ["dep", 0, "same", "plain"]]]]),
          var([[[1, 1, 1], ["bin", "add", ["dep", 0, "same", "plain"], ["const", rng.randint(1, 5)]]]])]
    sys = {"vars": vs, "params": [], "switches": [], "max_loops": loops}
    pop = rules.gen_pop(rng, 4)
    n = rules.count_for(pop, vs[0])
    reqs = [["set", 0, per(j), [rng.randint(-20, 100) for _ in range(n)]] for j in range(m) if rng.random() < 0.9]
    target = ["calc", rng.choice([2, 2, 3, 1]), per(rng.choice([0, 0, 1]) if loops >= m else 0)]
    circle = lambda k: [["calc", rng.choice([1, 2, 3, 4]), per(rng.randrange(m))] for _ in range(k)]  # noqa: E731
    first = circle(rng.randint(1, 2)) + [target]
    rng.shuffle(first)
    reqs += first
    if rng.random() < 0.6:
        reqs += [["set", 1, per(rng.randrange(m)), [rng.randint(-9, 30) for _ in range(n)]]]    # the missing input
    else:
        reqs += [["fix"]]
    reqs += [target] + circle(rng.randint(1, 3))
    return {"sys": sys, "pop": pop, "cfg": {"trace": rng.random() < 0.5}, "requests": reqs,
            "mode": "full" if loops >= m else "stack",
            "inject": {"var": 1, "kind": f"cycle-through-{m}-periods-L{loops}", "where": None, "target": target},
            "fixvals": [rng.randint(-9, 30) for _ in range(6)]}


def gen_eternal_spiral(rng):
    """amount@p -> reference (ETERNITY, formula) -> amount@p-1: the eternal variable sits between the two
    occurrences of the spiralling variable and is marked for purge; the top-level formula then fails (or not)."""
    unit = rng.choice(["year", "year", "month"])
    ent = rng.choice(["person", "person", "group"])
    y = rng.choice([2018, 2019, 2020])
    mo = 1 if unit == "year" else rng.randint(3, 12)
    per = lambda j: ["year", [y - j, 1, 1], 1] if unit == "year" else ["month", [y, mo - j, 1], 1]  # noqa: E731
    k = rng.choice([1, 2])
    var = lambda u, formulas, ty="int": {"ent": ent, "type": ty, "unit": u, "end": None,  # noqa: E731
                                         "formulas": [[[1, 1, 1], e] for e in formulas],
                                         "default": rng.choice([0, 1, 3]), "neutral": False}
    back = rng.choice([["offset", -1], "last_year" if unit == "year" else "last_month"])
    fail = ["raise", k] if rng.random() < 0.8 else ["dep", 11, "same", "plain"]
    top = ["bin", "add", ["dep", 2, "same", "plain"], fail] if rng.random() < 0.8 else \
          ["bin", "add", fail, ["dep", 2, "same", "plain"]]
    vs = [var(unit, []),                                                                   # 0 dated input
          var("eternity", []),                                                             # 1 eternal input
          var(unit, [["bin", "add", ["dep", 3, "same", "plain"], ["dep", 0, "same", "plain"]]]),      # 2 amount
          var("eternity", [["bin", "add", ["dep", 2, back, "plain"], ["dep", 1, "same", "plain"]]],
              rng.choice(["int", "float"])),                                               # 3 reference
          var(unit, [top]),                                                                # 4 ratio (fails)
          var(unit, [["bin", "add", ["dep", 3, "same", "plain"], ["const", rng.randint(1, 4)]]]),     # 5 reads 3
          var("eternity", [["bin", "mul", ["const", 2], ["dep", 3, "same", "plain"]]])]     # 6 eternal on eternal
    sys = {"vars": vs, "params": [], "switches": [k], "max_loops": rng.choice([1, 1, 2, 3])}
    pop = rules.gen_pop(rng, 4)
    n = rules.count_for(pop, vs[0])
    vals = lambda: [rng.randint(-20, 100) for _ in range(n)]  # noqa: E731
    reqs = [["set", 0, per(j), vals()] for j in range(3) if rng.random() < 0.8]
    if rng.random() < 0.7:
        reqs.append(["set", 1, rng.choice([list(rules.ETERNITY), per(0)]), vals()])
    some = lambda c: [["calc", rng.choice([2, 3, 5, 6, 4]), per(rng.choice([0, 0, 1]))] for _ in range(c)]  # noqa: E731
    reqs += some(rng.randint(0, 1)) + [["calc", 4, per(0)]] + some(rng.randint(1, 3))
    reqs += [["switch", k, False], ["calc", 4, per(0)]] + some(rng.randint(0, 2))
    return {"sys": sys, "pop": pop, "cfg": {"trace": rng.random() < 0.5}, "requests": reqs, "mode": "stack",
            "inject": {"var": None, "kind": "eternal-in-spiral", "where": None, "target": ["calc", 4, per(0)]},
            "fixvals": []}


def gen_deep_chain(k, trace):
    """v0 input, v_i = v_(i-1) + 1, deeper than the interpreter's recursion limit allows: the top request dies with a
    RecursionError raised somewhere inside the engine.  The request is issued from call depth +k (k = 0..9 covers
    every alignment of the limit with the engine's frames), then the chain is computed bottom-up in steps the limit
    allows and the top request repeated.  Oracle only (the model has no recursion limit)."""
    n = 400
    var = lambda fs: {"ent": "person", "type": "int", "unit": "month", "end": None, "formulas": fs,  # noqa: E731
                      "default": 0, "neutral": False}
    vs = [var([])] + [var([[[1, 1, 1], ["bin", "add", ["dep", i - 1, "same", "plain"], ["const", 1]]]])
                      for i in range(1, n)]
    p = ["month", [2020, 1, 1], 1]
    reqs = [["set", 0, p, [5, 7]], ["calc", 30, p], ["calc", n - 1, p], ["calc", n - 1, p]]
    reqs += [["calc", t, p] for t in range(60, n, 60)] + [["calc", n - 1, p], ["calc", n - 1, ["month", [2020, 2, 1], 1]]]
    return {"sys": {"vars": vs, "params": [], "switches": [], "max_loops": 1},
            "pop": {"count": 1, "ids": [0, 0], "roles": [0, 1]}, "cfg": {"trace": trace}, "requests": reqs,
            "mode": "deep", "pad": k, "inject": {"var": None, "kind": "deep-chain", "where": None, "target": None},
            "fixvals": []}


FLOAT_VALUES = [0, 0, 0, 1, 2.5, -3, 100, 0.5]


def gen_float(rng):
    """float variables whose formulas divide, subtract and multiply without guarding: 0/0, inf-inf, inf*0 give NaN
    and x/0 gives inf for some persons.  Oracle only (the model computes in Z).  ["condset", v, p, vals] is a
    set_input made only if the request just before it failed."""
    fvar = lambda fx: {"ent": "person", "type": "float", "unit": "month", "fx": fx}  # noqa: E731
    second = rng.choice([["sub", ["div", ["in", 0], ["in", 1]], ["div", ["in", 2], ["in", 1]]],      # inf - inf
                         ["mul", ["div", ["in", 0], ["in", 1]], ["in", 2]],                          # inf * 0
                         ["div", ["sub", ["in", 0], ["in", 2]], ["sub", ["in", 1], ["in", 2]]]])
    vs = [fvar(None), fvar(None), fvar(None),
          fvar(["div", ["in", 0], ["in", 1]]),                     # 3: a / b
          fvar(second),                                            # 4
          fvar(["add", ["mul", ["in", 3], ["num", 2]], ["in", 2]]),   # 5 reads 3
          fvar(["add", ["in", 0], ["in", 2]]),                     # 6 healthy
          fvar(["add", ["lastm", 3], ["in", 0]])]                  # 7 reads 3 one month earlier
    pop = rules.gen_pop(rng, 4)
    n = len(pop["ids"])
    y, mo = rng.choice([2019, 2020]), rng.randint(2, 12)
    per = lambda j: ["month", [y, mo - j, 1], 1]  # noqa: E731
    vals = lambda: [rng.choice(FLOAT_VALUES) for _ in range(n)]  # noqa: E731
    reqs = [["set", i, per(j), vals()] for i in range(3) for j in range(2) if rng.random() < 0.9]
    calcs = lambda c: [["calc", rng.choice([3, 4, 5, 7, 3, 4, 6]), per(0)] for _ in range(c)]  # noqa: E731
    first = calcs(rng.randint(2, 4))
    reqs += first
    for r in rng.sample(first, min(2, len(first))):
        reqs += [r, ["condset", 1, per(rng.choice([0, 0, 1])), [rng.choice([1, 2, -4, 0.5]) for _ in range(n)]], r]
    reqs += calcs(rng.randint(1, 2))
    return {"sys": {"float": True, "vars": vs, "params": [], "switches": [], "max_loops": 1}, "pop": pop,
            "cfg": {"trace": rng.random() < 0.5}, "requests": reqs, "mode": "float",
            "inject": {"var": 1, "kind": "float-special-values", "where": None, "target": None}, "fixvals": []}


def gen_checked(rng):
    """The cause of the failure is an input VALUE: a formula refuses (raises on) a negative input it has just read.
    The input is overwritten with set_input (only after a request that failed, at the period at which it was read),
    and the request repeated; under memory / disk / priority / drop configurations, with tracing, and on a clone.
    Only variable 3 reads the checked input directly, so nothing computed can depend on the refused value.
    Oracle only (the model has no data-dependent failure)."""
    fvar = lambda fx: {"ent": "person", "type": "float", "unit": "month", "fx": fx}  # noqa: E731
    vs = [fvar(None), fvar(None), fvar(None),
          fvar(["mul", ["check", ["in", 0]], ["num", 2]]),              # 3 checked: raises when input 0 is negative
          fvar(["add", ["in", 2], ["num", 100]]),                       # 4 other
          fvar(["add", ["in", 4], ["in", 3]]),                          # 5 total: other completes, checked raises
          fvar(["add", ["in", 5], ["in", 1]]),                          # 6 above total
          fvar(["add", ["lastm", 3], ["in", 1]]),                       # 7 reads checked one month earlier
          fvar(["sub", ["in", 3], ["in", 4]])]                          # 8 checked first
    pop = rules.gen_pop(rng, 4)
    n = len(pop["ids"])
    y, mo = rng.choice([2019, 2020]), rng.randint(2, 12)
    per = lambda j: ["month", [y, mo - j, 1], 1]  # noqa: E731
    bad = lambda: [rng.choice([-1, -2.5, 3, 0, 7]) for _ in range(n)]  # noqa: E731
    good = lambda: [rng.choice([1, 2.5, 3, 0, 7]) for _ in range(n)]  # noqa: E731
    reqs = [["set", 0, per(j), bad() if rng.random() < 0.7 else good()] for j in range(2) if rng.random() < 0.9]
    reqs += [["set", i, per(j), good()] for i in (1, 2) for j in range(2) if rng.random() < 0.8]
    calcs = lambda c: [["calc", rng.choice([5, 5, 6, 7, 8, 3, 4]), per(0)] for _ in range(c)]  # noqa: E731
    first = calcs(rng.randint(2, 3))
    reqs += first
    if rng.random() < 0.35:
        reqs.insert(rng.randint(0, len(reqs)), ["clone"])
    for r in rng.sample(first, min(2, len(first))):
        reqs += [r, ["condset", 0, None, good()], r]
        if rng.random() < 0.3:
            reqs += [["condset", 0, None, good()], r]
    reqs += calcs(rng.randint(1, 2))
    cfg = {"trace": rng.random() < 0.5}
    if rng.random() < 0.7:
        cfg.update({"disk": True, "priority": [i for i in range(len(vs)) if rng.random() < 0.2],
                    "drop": [i for i in range(3, len(vs)) if rng.random() < 0.15]})
    return {"sys": {"float": True, "vars": vs, "params": [], "switches": [], "max_loops": 1}, "pop": pop,
            "cfg": cfg, "requests": reqs, "mode": "float",
            "inject": {"var": 3, "kind": "refused-input-value", "where": None, "target": None}, "fixvals": []}


def generate(rng, tier):
    n_full, n_spiral = {"quick": (420, 60), "escalated": (1500, 200), "thorough": (3600, 400)}[tier]
    cases, counter = [], [rng.randrange(len(KINDS) * 3)]
    while len(cases) < n_full:
        cases += gen_injected(rng, counter)
    cases = cases[:n_full]
    for _ in range(n_spiral):
        cases.append(gen_spiral(rng))
    for _ in range(n_spiral):
        cases.append(gen_long_cycle(rng))
    for _ in range(n_spiral // 2):
        cases.append(gen_eternal_spiral(rng))
    for k in range(10):
        cases.append(gen_deep_chain(k, trace=k % 2 == 1))
        cases.append(gen_deep_chain(k, trace=k % 2 == 0))
    for _ in range(n_spiral):
        cases.append(gen_float(rng))
    for _ in range(n_spiral):
        cases.append(gen_checked(rng))
    return cases


# ---------------------------------------------------------------------------------------
# implementation driver
# ---------------------------------------------------------------------------------------

class Runner:
    """One real simulation.  With probe=True, Simulation.calculate is wrapped on the instance."""

    def __init__(self, case, probe=False, trace=None):
        self.sys, self.pop = copy.deepcopy(case["sys"]), case["pop"]     # self.sys follows ["replace", ...] requests
        self.switches = set(self.sys.get("switches", []))
        self.pad = case.get("pad", 0)
        self.float = bool(self.sys.get("float"))
        if self.float:
            self.tbs = build_float_system(self.sys)
        else:
            self.tbs = rules.build_system(self.sys, self.switches)
        cfg = dict(case.get("cfg") or {})
        if trace is not None:
            cfg["trace"] = trace
        self.sim = rules.build_simulation(self.tbs, self.pop, cfg, self.sys)
        self.inprogress = []      # calls of Simulation.calculate in progress (harness-side)
        self.fired = None         # calls in progress when an exception first passed, + its kind
        self.reentered = None     # a (variable, period) requested while it was being computed
        self.tainted = []         # (variable, period) marked for purge during the last top-level calculation
        self.added = []           # variables added to the live system: self.sys keeps its length (the formulas
                                  # already compiled keep asking for the name they asked for before)
        if probe:
            self._wrap()

    def _wrap(self):
        original = self.sim.calculate        # bound method of the real class

        def calculate(variable_name, period):
            if not self.inprogress:
                self.tainted = []            # taints of the top-level calculation now starting
            if self.reentered is None and any(n == variable_name and p == period for n, p in self.inprogress):
                self.reentered = frame_json(variable_name, period)
            self.inprogress.append((variable_name, period))
            try:
                return original(variable_name, period)
            except BaseException as e:  # noqa: BLE001 - rules.HarnessAbort is not an Exception
                if self.fired is None:
                    self.fired = (list(self.inprogress), errkind(e))
                raise
            finally:
                self.inprogress.pop()

        self.sim.calculate = calculate       # population(...) and calculate_add/divide go through self.calculate
        taint = self.sim.invalidate_cache_entry

        def invalidate_cache_entry(variable, period):
            self.tainted.append((variable, period))
            return taint(variable, period)

        self.sim.invalidate_cache_entry = invalidate_cache_entry

    def replace(self, f, formulas, how):
        """TaxBenefitSystem.replace_variable / update_variable under the live simulation: a new class for
        variable f, same attributes, other formulas (built like rules.build_system builds it)"""
        v = self.sys["vars"][f]
        old = self.tbs.get_variable(f"v{f}")
        attrs = {"value_type": rules.TYPES[v["type"]], "entity": old.entity,
                 "definition_period": rules.UNIT_OBJ[v["unit"]],
                 "default_value": rules.TYPES[v["type"]](v["default"])}
        if v.get("end"):
            y, m, d = v["end"]
            attrs["end"] = f"{y:04d}-{m:02d}-{d:02d}"
        v["formulas"] = copy.deepcopy(formulas)
        for start, e in v["formulas"]:
            attrs[rules.formula_name(start)] = rules.make_formula(self.sys, self.switches, e, v["ent"])
        cls = type(f"v{f}", (Variable,), attrs)
        if how == "update":
            self.tbs.update_variable(cls)
        else:
            self.tbs.replace_variable(cls)

    def cur_sys(self):
        """the rule system as it is now (what a new simulation would be built from, what the model is given)"""
        return dict(self.sys, vars=self.sys["vars"] + self.added)

    def add_variable(self, v):
        """TaxBenefitSystem.add_variable under the live simulation; the class is named as the formulas name it"""
        idx = len(self.sys["vars"]) + len(self.added)
        if idx != len(self.sys["vars"]):
            raise AssertionError("one added variable per case")
        name = rules.var_name(self.sys, idx)
        ents = {e.key: e for e in self.tbs.entities}
        attrs = {"value_type": rules.TYPES[v["type"]], "entity": ents[rules.ENT_KEY[v["ent"]]],
                 "definition_period": rules.UNIT_OBJ[v["unit"]],
                 "default_value": rules.TYPES[v["type"]](v["default"])}
        for start, e in v["formulas"]:
            attrs[rules.formula_name(start)] = rules.make_formula(self.sys, self.switches, e, v["ent"])
        self.tbs.add_variable(type(name, (Variable,), attrs))
        self.added.append(copy.deepcopy(v))

    def do(self, r):
        self.fired = None
        self.reentered = None
        self.tainted = []
        try:
            if r[0] == "replace":
                self.replace(r[1], r[2], r[3])
                return None
            if r[0] == "addvar":
                self.add_variable(r[1])
                return None
            if r[0] == "clone":
                # continue on a clone of the simulation (the wrappers live on the instance: re-installed)
                wrapped = "calculate" in self.sim.__dict__
                for name in ("calculate", "invalidate_cache_entry"):
                    self.sim.__dict__.pop(name, None)
                old = self.sim
                self.sim = old.clone(trace=bool(old.trace))
                self.old_dirs = getattr(self, "old_dirs", []) + [getattr(old, "_data_storage_dir", None)]
                self.old_sims = getattr(self, "old_sims", []) + [old]
                if wrapped:
                    self._wrap()
                return None
            if self.float:
                return float_request(self.sim, r)
            return padded(self.pad, lambda: rules.do_request(self.sim, self.sys, self.switches, r))
        except rules.Inexact:
            raise
        except Exception as e:  # noqa: BLE001
            return Err(errkind(e), f"{type(e).__name__}: {e}"[:200])

    def cache(self):
        if self.float:
            return float_cache(self.sim, self.sys)
        entries = rules.cache_obs(self.sim, self.sys)
        for k in range(len(self.added)):
            idx = len(self.sys["vars"]) + k
            # read-only observation: the holder if one was created, without going through the engine's lookups
            population = self.sim.populations[rules.ENT_KEY[self.added[k]["ent"]]]
            holder = population._holders.get(rules.var_name(self.sys, idx))
            for p in (holder.get_known_periods() if holder is not None else []):
                entries.append([[idx] + rules.period_key(rules.period_json(p)), rules.ints(holder._memory_storage.get(p))])
        entries.sort(key=lambda e: e[0])
        return entries

    def close(self):
        # the whole temporary directory is removed here: the per-holder clean-up of OnDiskStorage.__del__ is told not to
        for population in self.sim.populations.values():
            for holder in getattr(population, "_holders", {}).values():
                if getattr(holder, "_disk_storage", None) is not None:
                    holder._disk_storage.preserve_storage_dir = True
        for sim in getattr(self, "old_sims", []):
            for population in sim.populations.values():
                for holder in getattr(population, "_holders", {}).values():
                    if getattr(holder, "_disk_storage", None) is not None:
                        holder._disk_storage.preserve_storage_dir = True
        for d in [getattr(self.sim, "_data_storage_dir", None)] + getattr(self, "old_dirs", []):
            if d:
                shutil.rmtree(d, ignore_errors=True)


def padded(k, f):
    """f() called k Python frames deeper"""
    return f() if k <= 0 else padded(k - 1, f)


# float systems (oracle only): values are observed as text, so that nan = nan and -0.0 is not 0.0

def fev(fx, person, period):
    tag = fx[0]
    if tag == "in":
        return person(f"v{fx[1]}", period)
    if tag == "lastm":
        return person(f"v{fx[1]}", period.last_month)
    if tag == "num":
        return numpy.float32(fx[1])
    if tag == "check":
        a = fev(fx[1], person, period)
        if (a < 0).any():
            raise ValueError("negative input refused")
        return a
    a, b = fev(fx[1], person, period), fev(fx[2], person, period)
    with numpy.errstate(all="ignore"):
        return {"add": numpy.add, "sub": numpy.subtract, "mul": numpy.multiply, "div": numpy.divide}[tag](a, b)


def build_float_system(sys):
    tbs = rules.build_system({"vars": [], "params": []}, set())
    person = [e for e in tbs.entities if e.key == "person"][0]
    for i, v in enumerate(sys["vars"]):
        attrs = {"value_type": float, "entity": person, "definition_period": rules.UNIT_OBJ[v["unit"]]}
        if v["fx"] is not None:
            attrs["formula"] = (lambda fx: lambda person, period, parameters: fev(fx, person, period))(v["fx"])
        tbs.add_variable(type(f"v{i}", (Variable,), attrs))
    return tbs


def ftext(a):
    return [repr(float(x)) for x in numpy.asarray(a, dtype=numpy.float64).reshape(-1).tolist()]


def float_request(sim, r):
    if r[0] == "set":
        sim.set_input(f"v{r[1]}", rules.mk_period(r[2]), numpy.array(r[3], dtype=numpy.float32))
        return None
    if r[0] == "calc":
        return ftext(sim.calculate(f"v{r[1]}", rules.mk_period(r[2])))
    raise AssertionError(r)


def float_cache(sim, sys):
    entries = []
    for i in range(len(sys["vars"])):
        holder = sim.get_holder(f"v{i}")
        for p in holder.get_known_periods():
            arr = holder._memory_storage.get(p)
            if arr is None and holder._disk_storage:
                arr = holder._disk_storage.get(p)
            entries.append([[i] + rules.period_key(rules.period_json(p)), ftext(arr)])
    entries.sort(key=lambda e: e[0])
    return entries


def frame_key(sys, name, period):
    """cache key of a call in progress, None when it cannot name a cache entry"""
    if not isinstance(name, str):
        return None
    if name.startswith("v") and name[1:].isdigit():
        i = int(name[1:])
    elif name.startswith("ghost") and name[5:].isdigit():
        i = int(name[5:])           # a variable added later keeps the name under which it was unknown
    else:
        return None
    if i >= len(sys["vars"]) or not hasattr(period, "unit"):
        return None
    pj = rules.ETERNITY if sys["vars"][i]["unit"] == "eternity" else rules.period_json(period)
    return [i] + rules.period_key(pj)


def frame_json(name, period):
    try:
        return [name, rules.period_json(period)]
    except Exception:  # noqa: BLE001
        return [name, str(period)]


def resolve_fix(case, last_fired, count_of):
    """["fix"] -> set_input on the injected variable at the period at which it was being computed"""
    f = case["inject"]["var"]
    if f is None or not last_fired:
        return None
    for name, period in reversed(last_fired):
        if name == f"v{f}" and hasattr(period, "unit"):
            v = case["sys"]["vars"][f]
            vals = [(x % 2 if v["type"] == "bool" else x) for x in case["fixvals"][:count_of(v)]]
            return ["set", f, rules.period_json(period), vals]
    return None


def is_calc(r):
    return r[0] in ("calc", "add", "div")


def run_impl(case):
    key = _key(case)
    with warnings.catch_warnings():
        warnings.simplefilter("ignore")
        try:
            out = _run(case)
        except rules.Inexact:
            out = "skip"
        except BaseException:
            _RESOLVED[key] = "skip"      # the driver itself failed: reported by the oracle, no model case
            raise
    _RESOLVED[key] = "skip" if out == "skip" else out["requests"]
    return out


def _fresh_case(case, requests, switches, sys=None):
    c = dict(case)
    c["sys"] = dict(sys if sys is not None else case["sys"])
    c["sys"]["switches"] = sorted(switches)
    c["cfg"] = {}          # the fresh simulation of the comparison is a default one (in memory, no tracer)
    c["requests"] = requests
    return c


def _run(case):
    sys, pop = case["sys"], case["pop"]
    full = case.get("mode") in ("full", "float")
    count_of = lambda v: rules.count_for(pop, v)  # noqa: E731
    main = Runner(case, probe=True)
    steps, resolved, fired, state, fresh, entries = [], [], [], [], [], []
    last_fired = None
    inputs = []          # the set requests accepted so far (full mode)
    try:
        before = main.cache()
        for r in case["requests"]:
            if r[0] == "fix":
                r = resolve_fix(case, last_fired, count_of)
                if r is None:
                    continue
            if r[0] == "condset":       # the offending input is corrected, only if the request before failed
                if not (steps and isinstance(steps[-1][0], Err)):
                    continue
                r = ["set"] + r[1:]
                if r[2] is None:
                    where = [p for n, p in reversed(last_fired or []) if n == f"v{case['inject']['var']}"
                             and hasattr(p, "unit")] if fired and fired[-1] is not None else []
                    if not where:
                        continue
                    r[2] = rules.period_json(where[0])
            switches_before = set(main.switches)
            a = main.do(r)
            after = main.cache()
            tracer = main.sim.tracer
            cursor_ok = getattr(tracer, "_current_node", None) is None
            steps.append([a, len(tracer.stack), after])
            tainted = []
            for n, p in main.tainted:
                tk = frame_key(main.cur_sys(), n, p)
                if tk is not None and tk not in tainted:
                    tainted.append(tk)
            state.append([cursor_ok, len(main.sim.invalidated_caches), len(main.inprogress), main.reentered, tainted])
            if main.fired is not None:
                frames, kind = main.fired
                fired.append({"kind": kind, "frames": [frame_json(n, p) for n, p in frames],
                              "keys": [frame_key(main.cur_sys(), n, p) for n, p in frames]})
                last_fired = frames
            else:
                fired.append(None)
            # fresh simulations (no probe, no tracer): the request alone on the inputs so far with the current
            # switches; and every entry this request added, with every switch off
            fr, en = None, []
            if full and r[0] == "set":
                # is this an input at all?  Decided on a new simulation of the rule system AS IT IS NOW (a
                # set_input on a variable that does not exist yet is refused and gives nothing to later systems)
                f0 = Runner(_fresh_case(case, [], switches_before, main.cur_sys()), trace=False)
                for q in inputs:
                    f0.do(q)
                if not isinstance(f0.do(r), Err):
                    inputs = inputs + [r]
                f0.close()
            if full and is_calc(r):
                f1 = Runner(_fresh_case(case, [], switches_before, main.cur_sys()), trace=False)
                for q in inputs:
                    f1.do(q)
                fr = f1.do(r)
                f1.close()
                old = {json.dumps(e[0]) for e in before}
                new = [e for e in after if json.dumps(e[0]) not in old]
                if new:
                    f2 = Runner(_fresh_case(case, [], [], main.cur_sys()), trace=False)
                    for q in inputs:
                        f2.do(q)
                    for k, val in new:
                        i, (u, y, m, d, size) = k[0], k[1:]
                        pj = [rules.UNITS[u], [y, m, d], size]
                        if rules.UNITS[u] == "eternity":
                            pj = ["year", [2018, 1, 1], 1]
                        en.append([k, val, f2.do(["calc", i, pj])])
                    f2.close()
            fresh.append(fr)
            entries.append(en)
            resolved.append(r)
            before = after
        # the same sequence on a simulation where the failed requests are never made
        replay = None
        if full or case.get("mode") == "deep":
            failed = [k for k, (r, s) in enumerate(zip(resolved, steps)) if is_calc(r) and isinstance(s[0], Err)]
            ref = Runner(case, trace=False)
            replay = []
            for k, r in enumerate(resolved):
                replay.append(None if k in failed else ref.do(r))
            ref.close()
            if case.get("mode") == "deep":
                # a failed request is compared too: with the simulation on which the failed requests BEFORE it were
                # never made (a new simulation cannot answer a deep request alone)
                for k in failed:
                    ref = Runner(case, trace=False)
                    for j in range(k):
                        if j not in failed:
                            ref.do(resolved[j])
                    replay[k] = ref.do(resolved[k])
                    ref.close()
    finally:
        main.close()
    return {"steps": steps, "requests": resolved, "fired": fired, "state": state, "fresh": fresh,
            "entries": entries, "replay": replay}


def coq_case(case):
    res = _RESOLVED.get(_key(case))
    if res is None:
        run_impl(case)
        res = _RESOLVED.get(_key(case))
    if res == "skip" or case.get("mode") in ("deep", "float"):
        return "Corr_C18.CSkip"          # oracle only: recursion limits and NaN / inf are not in the model
    cur = copy.deepcopy(case["sys"])
    switches = list(cur.get("switches", []))
    segs, reqs = [], []
    for r in res:
        if r[0] in ("replace", "addvar"):
            segs.append((cur, reqs))
            cur = copy.deepcopy(cur)
            if r[0] == "replace":
                cur["vars"][r[1]]["formulas"] = copy.deepcopy(r[2])
            else:
                cur["vars"].append(copy.deepcopy(r[1]))
            cur["switches"] = sorted(set(switches))
            reqs = []
            continue
        if r[0] == "switch":
            switches = [k for k in switches if k != r[1]] + ([r[1]] if r[2] else [])
        reqs.append(r)
    segs.append((cur, reqs))
    body = clist([f"({rules.csys(sy, case.get('cfg'))}, {clist([rules.crequest(r) for r in rs])})" for sy, rs in segs])
    return f"(Corr_C18.CSeq {rules.cpop(case['pop'])} {body})"


def obs_for_coq(case, obs):
    if obs == "skip" or isinstance(obs, Err):
        return obs
    if case.get("mode") in ("deep", "float"):
        return "skip"
    return obs["steps"]


# ---------------------------------------------------------------------------------------
# oracle: the property's text on the implementation's observations
# ---------------------------------------------------------------------------------------

def oracle(case, obs):
    if obs == "skip":
        return None
    if isinstance(obs, Err):
        return f"driver: the harness driver failed: {obs.kind} {obs.msg}"
    full = case.get("mode") in ("full", "float")
    deep = case.get("mode") == "deep"
    reqs, steps = obs["requests"], obs["steps"]
    prev_cache = []
    for k, (r, (a, depth, cache)) in enumerate(zip(reqs, steps)):
        fired = obs["fired"][k]
        cursor_ok, n_invalid, n_inprogress, reentered, tainted = obs["state"][k]
        what = f"request {k} {json.dumps(r)}"
        # (f) stack, trace cursor, tainted set
        if depth != 0:
            return f"stack: evaluation stack not empty after {what}: depth {depth}"
        if not cursor_ok:
            return f"cursor: FullTracer._current_node is not None after {what}"
        if n_invalid != 0:
            return f"purge: {n_invalid} invalidated cache entries left after {what}"
        # a value derived from a computation cut short by a spiral is provisional: none may stay recorded once the
        # top-level calculation that marked it has ended
        for tk in tainted:
            if any(e[0] == tk for e in cache):
                return f"tainted: entry {tk} was marked for purge during {what} and is still recorded afterwards"
        # (a) the error reaches the caller
        if fired is not None:
            if not isinstance(a, Err):
                return f"swallowed: an exception ({fired['kind']}) was raised under {what} but the caller got a value"
            if a.kind != fired["kind"]:
                return f"swallowed: the caller of {what} got {a.kind}, the failure was {fired['kind']}"
        if reentered is not None and a != Err("ECycle"):
            return f"swallowed: {reentered} was requested while it was being computed under {what}; the caller got {a}"
        old = {json.dumps(e[0]): e[1] for e in prev_cache}
        now = {json.dumps(e[0]): e[1] for e in cache}
        # (b) no value recorded for a computation that did not complete
        if fired is not None:
            for fk, fj in zip(fired["keys"], fired["frames"]):
                if fk is not None and json.dumps(fk) in now and json.dumps(fk) not in old:
                    return f"half-stored: {what} failed while computing {fj} and a value was recorded for it"
        if deep and is_calc(r):
            # a chain deeper than the recursion limit: a new simulation cannot answer the request alone either, so
            # the comparison is with the same sequence minus the failed requests
            for kk, val in old.items():
                if now.get(kk) != val:
                    return f"lost: cache entry {kk} changed or disappeared during {what}"
            if obs["replay"][k] != a:
                return (f"not-transparent: {what} returned {a}; on a simulation where the failed requests before it "
                        f"were never made it returns {obs['replay'][k]}")
        if full and is_calc(r):
            # values completed before remain (the cache only grows), with the same content
            for kk, val in old.items():
                if now.get(kk) != val:
                    return f"lost: cache entry {kk} changed or disappeared during {what}"
            # (c) every entry added is what a fresh simulation computes for it
            for ek, val, fresh_val in obs["entries"][k]:
                if fresh_val != val:
                    return (f"wrong-entry: {what} recorded {val} for {ek}; a fresh simulation with the same "
                            f"inputs computes {fresh_val}")
            # (d)/(e) the answer is what a fresh simulation answers to this request alone
            if obs["fresh"][k] != a:
                return (f"history: {what} returned {a}; a fresh simulation with the same inputs and switches "
                        f"returns {obs['fresh'][k]}")
            if not isinstance(a, Err) and obs["replay"][k] != a:
                return (f"not-transparent: {what} returned {a}; on a simulation where the failed requests "
                        f"were never made it returns {obs['replay'][k]}")
        prev_cache = cache
    return None


def recovered(case, obs):
    """a request that failed, and succeeded when repeated after the cause was removed"""
    failed = set()
    for r, s in zip(obs["requests"], obs["steps"]):
        if not is_calc(r):
            continue
        kk = json.dumps(r)
        if isinstance(s[0], Err):
            failed.add(kk)
        elif kk in failed:
            return True
    return False


def nontrivial(case, obs):
    if obs == "skip" or isinstance(obs, Err):
        return False
    if case.get("mode") == "float":
        return any(isinstance(st[0], list) and any(x in ("nan", "inf", "-inf") for x in st[0]) for st in obs["steps"])
    return any(f is not None and len(f["frames"]) >= 1 for f in obs["fired"])


def classify(case, obs):
    if obs == "skip":
        return "skipped-inexact"
    if isinstance(obs, Err):
        return "driver-error"
    kind = case["inject"]["kind"]
    depth = max([len(f["frames"]) for f in obs["fired"] if f is not None] or [0])
    tag = f"{case.get('mode')}:{kind}:{'trace' if (case.get('cfg') or {}).get('trace') else 'notrace'}"
    tag += f":depth{min(depth, 3)}{'+' if depth > 3 else ''}"
    if any(r[0] == "replace" for r in obs["requests"]):
        tag += ":class-replaced"
    if any(r[0] == "addvar" for r in obs["requests"]):
        tag += ":variable-added"
    if case.get("mode") == "full":
        tag += ":recovered" if recovered(case, obs) else ":not-recovered"
    if case.get("mode") == "float":
        vals = [x for st in obs["steps"] if isinstance(st[0], list) for x in st[0]]
        tag += ":nan" if "nan" in vals else (":inf" if "inf" in vals or "-inf" in vals else ":finite")
    return tag


def neighbours(case, rng):
    """cases near a mismatching one: the other trace setting, prefixes of the request sequence, every switch off"""
    out = []
    c = copy.deepcopy(case)
    c["cfg"] = {"trace": not (case.get("cfg") or {}).get("trace")}
    out.append(c)
    n = len(case["requests"])
    for k in sorted({n - 1, n - 2, n // 2, max(1, n // 3)}):
        if 0 < k < n:
            c = copy.deepcopy(case)
            c["requests"] = case["requests"][:k]
            out.append(c)
    c = copy.deepcopy(case)
    c["sys"]["switches"] = []
    c["requests"] = [r for r in case["requests"] if r[0] != "switch"]
    out.append(c)
    return out


def shrink(case, still_fails):
    """drop requests one at a time while the oracle still fails"""
    cur = case
    changed, budget = True, 200
    while changed and budget > 0:
        changed = False
        for k in range(len(cur["requests"]) - 1, -1, -1):
            budget -= 1
            cand = dict(cur)
            cand["requests"] = cur["requests"][:k] + cur["requests"][k + 1:]
            if still_fails(cand):
                cur, changed = cand, True
                break
            if budget <= 0:
                break
    return cur if cur is not case else None
