"""Entry point of every check:  ./check Cxx [--tier quick|thorough] [--replay FILE]

Pipeline (DESIGN.md section 2): regenerate tables + rebuild and re-check the
property's theorems; run corpus + generated cases on the implementation; evaluate
the same cases on the Coq model (vm_compute) and compare; evaluate the property's
oracle on the implementation's observations; verdict; evidence.
"""
from __future__ import annotations

import argparse
import collections
import importlib
import json
import os
import pathlib
import random
import sys
import time
import traceback
import warnings

warnings.simplefilter("ignore")

import common
from common import VERIF, Err, cobs, guarded, jsonable

MAX_REPORTED = 5


def load_corpus(prop):
    d = VERIF / "corpus" / prop
    out = []
    if d.exists():
        for f in sorted(d.glob("*.json")):
            try:
                data = json.loads(f.read_text())
            except ValueError:
                continue
            out.append(data["case"] if isinstance(data, dict) and "case" in data else data)
    return out


def write_replay(prop, kind, payload):
    d = VERIF / "replays" / prop
    d.mkdir(parents=True, exist_ok=True)
    n = len(list(d.glob("*.json")))
    path = d / f"{kind}_{int(time.time())}_{n:03d}.json"
    payload = dict(payload)
    payload["property"] = prop
    payload["kind"] = kind
    payload["seed"] = int(os.environ.get("VERIF_SEED") or 0)
    payload["pythonhashseed"] = os.environ.get("PYTHONHASHSEED")
    payload["replay_cmd"] = f"cd /verif && VERIF_SEED={int(os.environ.get('VERIF_SEED') or 0)} ./check {prop} --replay {path}"
    path.write_text(json.dumps(jsonable(payload), indent=1, sort_keys=True))
    return path


def model_obs_text(mod, case):
    try:
        return common.model_observation(mod.PROP, mod.COQ_HEADER, mod.COQ_RUN, mod.coq_case(case))
    except Exception as e:  # noqa: BLE001
        return f"(model evaluation failed: {e})"


def replay(mod, path):
    data = json.loads(pathlib.Path(path).read_text())
    print(f"replay of {path}: kind={data.get('kind')}")
    if "case" not in data or data["case"] is None:
        print("no concrete input recorded (broken obligation):", data.get("broken"))
        b = common.build(mod.PROP)
        ok = b.ok and not b.bad_axioms and not b.forbidden
        print("proof obligations now:", "ok" if ok else f"BROKEN at {b.failed_at}")
        return 0 if ok else 1
    case = data["case"]
    obs = guarded(mod.run_impl, case)
    print("case:", json.dumps(case, sort_keys=True)[:2000])
    print("implementation observation:", json.dumps(jsonable(obs), sort_keys=True)[:2000])
    msg = mod.oracle(case, obs)
    print("oracle on implementation:", msg or "property holds on this input")
    common.build(mod.PROP)
    print("model observation:", model_obs_text(mod, case))
    mism, errs = common.run_correspondence(mod.PROP, mod.COQ_HEADER, mod.COQ_RUN,
                                           [f"({mod.coq_case(case)}, {cobs(mod.obs_for_coq(case, obs))})"])
    print("model and implementation", "DIFFER" if (mism or errs) else "agree", *errs)
    return 1 if (msg or mism or errs) else 0


def main():
    ap = argparse.ArgumentParser()
    ap.add_argument("prop")
    ap.add_argument("--tier", default=os.environ.get("VERIF_TIER") or "quick", choices=["quick", "thorough"])
    ap.add_argument("--replay")
    ap.add_argument("--build-only", action="store_true")
    args = ap.parse_args()
    prop = args.prop.upper()
    seed = int(os.environ.get("VERIF_SEED") or 0)
    t0 = time.time()

    try:
        mod = importlib.import_module(prop.lower())
    except Exception:  # noqa: BLE001
        # the implementation under test does not even import: nothing can be shown
        tb = traceback.format_exc()
        path = write_replay(prop, "harness", {"case": None, "broken": "harness/implementation import failed", "traceback": tb})
        print(tb)
        print(f"VIOLATION property={prop} replay={path} no-failing-input-found")
        return 1
    if not hasattr(mod, "obs_for_coq"):
        mod.obs_for_coq = lambda case, obs: obs

    if args.replay:
        return replay(mod, args.replay)

    # 1. proofs --------------------------------------------------------------------
    b = common.build(prop)
    n_thm = len(b.theorems)
    proof_ok = (b.ok and not b.forbidden and not b.bad_axioms and n_thm > 0
                and len(b.assumptions) >= n_thm)
    print(f"[{prop}] build {'ok' if b.ok else 'FAILED'} in {b.seconds:.1f}s; tables {b.tables}; "
          f"{n_thm} theorems; assumptions: "
          f"{sum(1 for a in b.assumptions if a == 'closed')} closed, "
          f"{sum(1 for a in b.assumptions if a != 'closed')} with axioms")
    if args.build_only:
        if not b.ok:
            print(b.log[-3000:])
        return 0 if proof_ok else 1

    # 2. cases ---------------------------------------------------------------------
    fp_now = common.fingerprint(getattr(mod, "ANCHORS", []))
    fp_file = VERIF / "fingerprints" / f"{prop}.json"
    fp_old = json.loads(fp_file.read_text()) if fp_file.exists() else {}
    fp_changed = sorted(k for k in fp_now if fp_old.get(k) != fp_now[k]) if fp_old else []
    gen_tier = args.tier
    if fp_changed and args.tier == "quick":
        gen_tier = "escalated"   # quick run with larger volume: code under the model changed
        print(f"[{prop}] anchored sources changed ({', '.join(fp_changed)}): escalating case volume")

    rng = random.Random(f"{prop}:{seed}")
    corpus = load_corpus(prop)
    cases = list(corpus) + list(mod.generate(rng, gen_tier))
    t1 = time.time()
    obs = [guarded(mod.run_impl, c) for c in cases]
    t_impl = time.time() - t1

    # 3. oracle on the implementation -----------------------------------------------
    failures = []   # (index, message)
    oracle_checked = 0
    for i, (c, o) in enumerate(zip(cases, obs)):
        try:
            msg = mod.oracle(c, o)
        except Exception as e:  # noqa: BLE001
            msg = f"oracle crashed: {type(e).__name__}: {e}"
        oracle_checked += 1
        if msg:
            failures.append((i, msg))

    # 4. model side -------------------------------------------------------------------
    t2 = time.time()
    corr_ok = b.corr_ok
    mism, shard_errors = [], []
    if corr_ok:
        coq_cases = []
        for c, o in zip(cases, obs):
            coq_cases.append(f"({mod.coq_case(c)}, {cobs(mod.obs_for_coq(c, o))})")
        mism, shard_errors = common.run_correspondence(
            prop, mod.COQ_HEADER, mod.COQ_RUN, coq_cases, shard=getattr(mod, "SHARD", 400))
    else:
        shard_errors = [f"corr/Corr_{prop}.vo was not built: the model no longer compiles: " + b.corr_log[-600:]]
    t_coq = time.time() - t2
    mism_set = set(mism)

    # 5. verdict ---------------------------------------------------------------------
    kf = common.known_findings()
    open_sigs = {f["signature"]: f for f in kf.get("open", []) if f.get("property") == prop}
    violations = []      # (line suffix, replay path)
    known_hits = collections.Counter()
    reported_msgs = set()

    for i, msg in failures:
        c, o = cases[i], obs[i]
        sig = mod.known(c, o, msg) if hasattr(mod, "known") else None
        if sig is not None and sig in open_sigs and i not in mism_set:
            known_hits[sig] += 1
            continue
        key = msg.split(":")[0]
        if key in reported_msgs or len(violations) >= MAX_REPORTED:
            continue
        reported_msgs.add(key)
        if hasattr(mod, "shrink"):
            try:
                c2 = mod.shrink(c, lambda cc: bool(mod.oracle(cc, guarded(mod.run_impl, cc))))
                if c2 is not None:
                    c = c2
                    o = guarded(mod.run_impl, c)
                    msg = mod.oracle(c, o) or msg
            except Exception:  # noqa: BLE001
                pass
        path = write_replay(prop, "failing-input", {
            "case": c, "impl_observation": o, "oracle_message": msg,
            "model_observation": model_obs_text(mod, c) if corr_ok else None,
            "model_agrees": i not in mism_set})
        violations.append(("", path))

    fail_idx = {i for i, _ in failures}
    only_mism = [i for i in mism if i not in fail_idx]
    if only_mism and not violations:
        # correspondence broken without a failing input so far: search around the cases
        found = None
        if hasattr(mod, "neighbours"):
            budget = 400
            for i in only_mism[:20]:
                for c in mod.neighbours(cases[i], rng):
                    budget -= 1
                    o = guarded(mod.run_impl, c)
                    msg = mod.oracle(c, o)
                    if msg:
                        found = (c, o, msg)
                        break
                    if budget <= 0:
                        break
                if found or budget <= 0:
                    break
        if found:
            c, o, msg = found
            path = write_replay(prop, "failing-input", {
                "case": c, "impl_observation": o, "oracle_message": msg,
                "model_observation": model_obs_text(mod, c), "found_by": "neighbourhood search around a correspondence mismatch"})
            violations.append(("", path))
        else:
            i = only_mism[0]
            path = write_replay(prop, "correspondence", {
                "case": cases[i], "impl_observation": obs[i],
                "model_observation": model_obs_text(mod, cases[i]),
                "broken": f"correspondence Corr_{prop}.run: model and implementation differ on {len(only_mism)} case(s); "
                          "the property's oracle found no failing input among the cases and their neighbours",
                "all_mismatching_cases": [cases[j] for j in only_mism[:10]]})
            violations.append((" no-failing-input-found", path))
    if shard_errors and not violations:
        path = write_replay(prop, "correspondence", {
            "case": None, "broken": f"correspondence for {prop} could not be evaluated", "errors": shard_errors[:5]})
        violations.append((" no-failing-input-found", path))
    if not proof_ok:
        what = {"failed_at": b.failed_at, "forbidden": b.forbidden, "bad_axioms": b.bad_axioms,
                "theorems": b.theorems, "log_tail": b.log[-1500:]}
        if not violations:
            path = write_replay(prop, "proof", {
                "case": None,
                "broken": f"proof obligation: {b.failed_at or b.forbidden or b.bad_axioms or 'props file incomplete'}",
                "detail": what})
            violations.append((" no-failing-input-found", path))

    # 6. evidence --------------------------------------------------------------------
    seen = set()
    nontrivial = 0
    dist = collections.Counter()
    for c, o in zip(cases, obs):
        key = json.dumps(jsonable(c), sort_keys=True)
        if key in seen:
            continue
        seen.add(key)
        try:
            if mod.nontrivial(c, o):
                nontrivial += 1
            dist[mod.classify(c, o)] += 1
        except Exception:  # noqa: BLE001
            pass
    def shorten(x, depth=0):
        # evidence samples stay readable: long lists keep their head and their length
        if isinstance(x, dict):
            return {k: shorten(v, depth + 1) for k, v in x.items()}
        if isinstance(x, list):
            if len(x) > (40 if depth < 2 else 12):
                k = 40 if depth < 2 else 12
                return [shorten(v, depth + 1) for v in x[:k]] + [f"... {len(x) - k} more items"]
            return [shorten(v, depth + 1) for v in x]
        if isinstance(x, str) and len(x) > 2000:
            return x[:2000] + f"... {len(x) - 2000} more characters"
        return x

    samples = []
    step = max(1, len(cases) // 6)
    for i in range(0, len(cases), step):
        samples.append({"case": shorten(jsonable(cases[i])), "impl_observation": shorten(jsonable(obs[i]))})
        if len(samples) >= 6:
            break
    for t, a in zip(b.theorems, b.assumptions):
        samples.append({"obligation": t, "print_assumptions": a})
    discharged = n_thm if proof_ok else 0
    axioms_used = sorted({a for blk in b.assumptions if blk != "closed" for a in blk})
    evidence = {
        "property_id": prop,
        "tier": args.tier,
        "seed": seed,
        "level": "proof",
        "coverage": {
            "obligations": max(n_thm, 1),
            "discharged": discharged,
            "checker_cmd": f"cd /verif/coq && make props/{prop}.vo  (coqc 8.16.1 full .vo build; Print Assumptions under every theorem)",
            "trusted_base": [
                "Coq 8.16.1 kernel and vm_compute (no native_compute)",
                "axioms reported by Print Assumptions: " + (", ".join(axioms_used) if axioms_used else "none (all theorems closed under the global context)"),
                "hand-written Gallina model tied to /repo by the correspondence run below (differential, not exhaustive)",
                "harness/gen_tables.py (fail-closed ast translator: regenerates coq/gen/Tables.v (unit tables) and coq/gen/Guards.v (the guard/dispatch structure of _check_period_consistency, calculate_add, calculate_divide, CorePopulation.__call__) from /repo sources on every run)",
                "harness: generators, implementation driver, canonicalisation of observations, reading of the mismatch index list",
            ] + list(getattr(mod, "TRUSTED", [])),
            "theorems": b.theorems,
            "evaluations": len(cases),
            "distinct_nontrivial": nontrivial,
            "rule": getattr(mod, "RULE", ""),
            "samples": samples,
            "correspondence": {
                "cases_compared_model_vs_impl": len(cases) if corr_ok and not shard_errors else 0,
                "mismatches": len(mism),
                "shard_errors": shard_errors[:3],
                "corpus_cases": len(corpus),
            },
            "oracle_on_implementation": {"checked": oracle_checked, "failures": len(failures)},
            "input_distribution": dict(sorted(dist.items(), key=lambda kv: -kv[1])[:40]),
            "known_finding_hits": dict(known_hits),
            "tables": b.tables,
            "fingerprints_changed": fp_changed,
            "timing_s": {"build": round(b.seconds, 1), "implementation": round(t_impl, 1), "coq_cases": round(t_coq, 1)},
        },
        "assumptions": list(getattr(mod, "ASSUMPTIONS", [])),
        "wall_s": round(time.time() - t0, 2),
        "violations": len(violations),
    }
    (VERIF / "evidence").mkdir(exist_ok=True)
    (VERIF / "evidence" / f"{prop}.json").write_text(json.dumps(evidence, indent=1))

    print(f"[{prop}] tier={args.tier} seed={seed}: {len(cases)} cases ({len(corpus)} corpus), "
          f"{nontrivial} distinct non-trivial; impl {t_impl:.1f}s, coq {t_coq:.1f}s; "
          f"mismatches={len(mism)} oracle_failures={len(failures)} proofs={'ok' if proof_ok else 'BROKEN'}")
    for sig, n in known_hits.items():
        print(f"KNOWN-FINDING: property={prop} {open_sigs[sig].get('what', sig)} ({n} case(s) this run)")
    for suffix, path in violations:
        print(f"VIOLATION property={prop} replay={path}{suffix}")
    return 1 if violations else 0


if __name__ == "__main__":
    sys.exit(main())
