#!/usr/bin/env python3
"""Records the AST fingerprints of every property's anchored sources (fingerprints/<id>.json,
committed).  A quick run whose anchored sources differ from the recorded ones escalates its
case volume (harness/main.py); a fingerprint never decides a verdict.

    PYTHONPATH=/repo:/verif/harness /venv/bin/python harness/record_fingerprints.py
"""
import importlib
import json
import pathlib
import sys
import warnings

warnings.simplefilter("ignore")
import common

out = common.VERIF / "fingerprints"
out.mkdir(exist_ok=True)
for i in range(1, 21):
    prop = f"C{i:02d}"
    if not (common.VERIF / "harness" / f"{prop.lower()}.py").exists():
        continue
    try:
        mod = importlib.import_module(prop.lower())
    except Exception as e:  # noqa: BLE001
        print(prop, "import failed:", e)
        continue
    fp = common.fingerprint(getattr(mod, "ANCHORS", []))
    (out / f"{prop}.json").write_text(json.dumps(fp, indent=1, sort_keys=True))
    print(prop, len(fp), "files")
