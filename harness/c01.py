"""C01 - a calculated value equals the rule system's meaning on the given inputs."""
from __future__ import annotations

import json

import c01_typed
import pyden
import rules
from common import Err

PROP = "C01"
COQ_HEADER = "From Verif Require Import Np Group Param Engine CorrEng."
COQ_RUN = "CorrEng.run"
SHARD = 40
ANCHORS = ["openfisca_core/simulations/simulation.py", "openfisca_core/variables/variable.py",
           "openfisca_core/holders/holder.py", "openfisca_core/populations/_core_population.py",
           "openfisca_core/data_storage/in_memory_storage.py"]
RULE = ("random rule systems (3-8 variables over the expression language of coq/model/Engine.v: every value type, "
        "definition period, dated formulas, end dates, neutralised variables, parameters with histories, person/group "
        "entities with roles, ADD/DIVIDE dependencies), compiled to real Variable subclasses, random populations and "
        "request sequences (set_input, calculate, calculate_add, calculate_divide, get_array, delete_arrays); a case is "
        "non-trivial when at least one request ran a formula (a value was cached that is not an input); distinct by JSON text")
TRUSTED = ["harness/rules.py: compiler from rule-system terms to real Variable subclasses (formulas call the public API)"]
ASSUMPTIONS = ["the engine model carries int/float/bool values; Enum, date and str variables and the dtype casts of "
               "_cast_formula_result are exercised by an oracle-only stream (harness/c01_typed.py, CSkip on the Coq side)",
               "generated values stay below 2^22 in absolute value (exact in int32 and float32); cases producing a "
               "non-integer or larger value are discarded and counted (classify = 'skipped-inexact')",
               "the cycle clause is claimed for cycles in which no other variable repeats before the cycle closes"]

PROFILE = {"nvars": (3, 8), "bad": 0.04, "badreq": 0.1, "nparams": 2, "neutral": 0.05}
CYCLE_PROFILE = {"nvars": (2, 5), "spiral": 0.5, "bad": 0.0, "badreq": 0.0, "nparams": 1, "depth": 2}

_SKIP = set()


def _key(case):
    return json.dumps(case, sort_keys=True)


def generate(rng, tier):
    n = {"quick": 1000, "escalated": 1500, "thorough": 6000}[tier]
    cases = []
    for k in range(n):
        cases.append(rules.gen_case(rng, CYCLE_PROFILE if k % 8 == 7 else PROFILE))
    for _ in range(max(40, n // 12)):
        cases.append(c01_typed.gen(rng))      # Enum / date / str / cast stream (oracle only)
    return cases


def run_impl(case):
    if case.get("typed"):
        return c01_typed.run(case)
    out = rules.run_case(case)
    if out == "skip":
        _SKIP.add(_key(case))
    return out


def coq_case(case):
    if case.get("typed"):
        return "CSkip"
    return rules.coq_case(case, skip=_key(case) in _SKIP)


def obs_for_coq(case, obs):
    if case.get("typed"):
        return "skip"
    return obs


def oracle(case, obs):
    if case.get("typed"):
        if isinstance(obs, Err):
            return f"typed: the driver failed: {obs.msg}"
        if obs["stack"] != 0:
            return "stack: evaluation stack not empty after the typed requests"
        return ("typed: " + "; ".join(obs["typed"][:3])) if obs["typed"] else None
    if obs == "skip" or isinstance(obs, Err):
        return None
    for k, (a, depth, _cache) in enumerate(obs):
        if depth != 0:
            return f"stack: evaluation stack not empty after request {k}: depth {depth}"
    return pyden.check_case(case, obs)


def nontrivial(case, obs):
    if case.get("typed"):
        return not isinstance(obs, Err)
    if obs == "skip" or isinstance(obs, Err):
        return False
    nset = sum(1 for r in case["requests"] if r[0] == "set")
    return any(len(o[2]) > 0 for o in obs) and len(obs[-1][2]) + 0 >= 0 and any(
        not isinstance(o[0], Err) and o[0] is not None for o in obs) and nset >= 0


def classify(case, obs):
    if case.get("typed"):
        return "typed:" + case["enum_returns"] + "/" + case["num_returns"]
    if obs == "skip":
        return "skipped-inexact"
    if isinstance(obs, Err):
        return "driver-error"
    kinds = sorted({o[0].kind for o in obs if isinstance(o[0], Err)})
    tag = "ranked" if rules.is_ranked(case["sys"]) else "self-dependent"
    return tag + ("+" + "+".join(kinds) if kinds else "")


def known(case, obs, msg):
    # F33 (open): an ETERNITY variable with a formula keeps ONE cache slot for all periods: the value
    # of whichever period is requested first answers every later request
    if msg.startswith("meaning:") and any(v["unit"] == "eternity" and v["formulas"] for v in case["sys"]["vars"]):
        return "eternal-variable-period-dependent-formula"
    return None
