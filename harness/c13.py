"""C13 - a cloned simulation and its original never affect each other.

A case is a rule system (harness/rules.py: compiled to real Variable subclasses), a
population, a storage configuration and a sequence of operations over a growing world of
simulations: requests (set_input / delete_arrays / calculate / calculate_add /
calculate_divide / get_array) on any simulation, `clone` of any simulation (so: original,
clone, clone of clone), trace toggles.  After every operation the answer and the complete
state of EVERY simulation of the world are observed and compared with coq/model/Heap.v.

Oracle on the implementation (independent of the model):
  (a) immediately after clone both sides have equal caches and equal entity structure;
  (b) every part of the clone refers to the clone (populations, holders, members, tracer,
      mutable containers are the clone's own objects);
  (c) non-interference: for every simulation of the world, a shadow world in which only
      that simulation's own lineage of operations is executed (separately built, cloned at
      the same points) shows, at every step, exactly what the simulation shows in the
      interleaved run;
  (d) a clone is as good as its source: the lineage executed on ONE simulation that is never
      cloned gives the same answers and the same stored values (trace flag apart).

A second, oracle-only stream (not sent to the Coq model, which has no set_input rules and no
Enum / str / date values) runs the same oracle on a directly built system: variables with
set_input_divide_by_period / set_input_dispatch_by_period where the array handed to set_input
IS an array object read from the cache that original and clone share, with some sub-periods
already set; Enum / str / date inputs kept in memory or on disk, cloned, and read through a
formula comparing them with an Enum member, a string and a date on every side; household
values read through projectors (person.household(...), household.first_person(...), chained
person.household.sum / nb_persons / first_person) on the original before the clone and on every
side after the group input has diverged; float inputs with -0.0 / 0.0 / inf / -inf / NaN, stored for
consecutive periods in arrays that are equal as numbers and differ in the sign of a zero (stored
values are compared with the sign of zero kept, NaN equal to NaN) and read through a sign-sensitive
formula; scale cases with one household of 256..400 members beside small ones, where the original
computes value_nth_person / max / min / first person values (which builds the lazy index arrays)
before it is cloned and every side recomputes them on diverged member values.
"""
from __future__ import annotations

import gc
import json
import shutil
import warnings

import numpy

import rules
from common import Err, cbool, clist, errkind

PROP = "C13"
COQ_HEADER = "From Verif Require Import Np Group Param Engine CorrEng Heap Corr_C13."
COQ_RUN = "Corr_C13.run"
SHARD = 25
ANCHORS = ["openfisca_core/simulations/simulation.py", "openfisca_core/populations/population.py",
           "openfisca_core/populations/group_population.py", "openfisca_core/holders/holder.py",
           "openfisca_core/commons/misc.py", "openfisca_core/data_storage/in_memory_storage.py",
           "openfisca_core/data_storage/on_disk_storage.py"]
RULE = ("random rule systems (3-6 variables of coq/model/Engine.v's expression language: person and group "
        "variables, eternal and dated, formulas with dated starts, ADD dependencies, a spiral stream with "
        "self-dependence at last_month), random populations, storage configuration (memory, forced on-disk with "
        "priority variables, variables_to_drop, cache blacklist, trace), and an operation sequence over "
        "(original, clone[, clone of either]): 0-6 operations before the first clone (clone of a fresh simulation, "
        "clone with inputs, clone with cached results), then interleaved set_input / delete_arrays / calculate / "
        "calculate_add / calculate_divide / get_array on any side over a small pool of periods (so both sides hit "
        "the same variable and period), trace toggles, an optional second clone; a `lazy` third of the cases looks "
        "at nothing before the first clone (holders are created lazily).  A case is non-trivial when, after a "
        "clone, at least two simulations each ran a state-changing operation and the final states of two "
        "simulations differ; distinct by JSON text.  Oracle-only stream (160 cases quick, not compared with the model): "
        "a directly built system with float/int variables using set_input_divide_by_period / "
        "set_input_dispatch_by_period, an Enum, a str and a date input and formulas comparing them with an Enum "
        "member / string / date; memory or forced on-disk storage with random priority variables; the original is "
        "populated (some months of the rule variables pre-set), cloned, then both sides get set_input calls whose "
        "value IS the array object returned by calculate / get_array (shared between the sides), further inputs, "
        "deletions, calculations, an optional second clone, and a final read of the formula on every side; a "
        "household input read by person- and household-level formulas through projectors (person.household(...), "
        "household.first_person(...), chains), evaluated on the original before the clone and on every side after "
        "each side got its own value of the household input; a quarter of these cases draws floats from "
        "{0.0, -0.0, inf, -inf, NaN, +-1.5} and stores arrays differing only in the sign of a zero for consecutive "
        "months (stored values compared bit-faithfully for zeros, NaN = NaN); one case in twenty has a household "
        "of 256..400 members beside small ones, with max / min / value_nth_person / first-person values computed "
        "before the clone and recomputed on every side")
TRUSTED = ["harness/rules.py: compiler from rule-system terms to real Variable subclasses (formulas call the public API)",
           "harness/c13.py: reading of Holder/Simulation attributes (_memory_storage, _disk_storage, invalidated_caches, "
           "tracer, population back-pointers) for the identity part of the oracle"]
ASSUMPTIONS = ["generated values stay below 2^22 in absolute value (exact in int32 and float32); cases producing a "
               "non-integer or larger value are discarded and counted (classify = 'skipped-inexact')",
               "arrays handed out by get_array / calculate are not written into by the caller (the stores share the "
               "immutable numpy arrays between a simulation and its clone; the model treats arrays as values)",
               "the rule system (TaxBenefitSystem, parameters) is shared by design and is not modified by the operations"]

PROFILE = {"nvars": (3, 6), "bad": 0.0, "nparams": 1, "neutral": 0.06, "depth": 2,
           "units": ["month"] * 6 + ["year"] * 3 + ["eternity"] * 2 + ["day"]}
SPIRAL_PROFILE = {"nvars": (2, 4), "spiral": 0.6, "bad": 0.0, "nparams": 1, "depth": 2,
                  "units": ["month"] * 5 + ["year"]}

_SKIP = set()


def _key(case):
    return json.dumps(case, sort_keys=True)


# ---------------------------------------------------------------------------------------
# generator
# ---------------------------------------------------------------------------------------

def _period_for(rng, unit, year):
    if unit == "month":
        return ["month", [year, rng.choice([1, 1, 2, 3, 12]), 1], 1]
    if unit == "year":
        return ["year", [rng.choice([year, year, year + 1]), 1, 1], 1]
    if unit == "day":
        return ["day", [year, rng.choice([1, 2]), rng.choice([1, 15])], 1]
    if unit == "eternity":
        return list(rules.ETERNITY)
    return rules.gen_period(rng, unit, year=year)


def gen_request(rng, sys, pop, year):
    vs = sys["vars"]
    i = rng.randrange(len(vs))
    v = vs[i]
    u = v["unit"]
    r = rng.random()
    n = rules.count_for(pop, v)
    if r < 0.30:
        p = _period_for(rng, u, year)
        if u == "eternity" and rng.random() < 0.3:
            p = _period_for(rng, "month", year)          # stored under eternity all the same
        if rng.random() < 0.04:
            # maybe a mismatch (not the eternity period for a variable with an end date: computing
            # `period.start.date` raises ValueError there, which Engine.set_input does not model)
            p = _period_for(rng, rng.choice(["month", "year"] + ([] if v.get("end") else ["eternity"])), year)
        vals = rules.input_values(rng, v, n if rng.random() > 0.03 else n + 1)
        return ["set", i, p, vals]
    if r < 0.62:
        p = _period_for(rng, u if u != "eternity" else rng.choice(["month", "year"]), year)
        return ["calc", i if rng.random() > 0.02 else len(vs) + 1, p]
    if r < 0.72:
        bigger = {"day": "month", "month": "year", "year": "year", "weekday": "week", "week": "week",
                  "eternity": "year"}[u]
        return ["add", i, _period_for(rng, bigger, year)]
    if r < 0.76:
        smaller = {"year": "month", "month": "month", "week": "weekday", "day": "day", "weekday": "weekday",
                   "eternity": "month"}[u]
        return ["div", i, _period_for(rng, smaller, year)]
    if r < 0.86:
        return ["get", i, _period_for(rng, u if u != "eternity" else "month", year)]
    if rng.random() < 0.4:
        return ["delete", i, None]
    return ["delete", i, _period_for(rng, rng.choice([u, "year"]) if u != "eternity" else "eternity", year)]


def gen_cfg(rng, sys):
    n = len(sys["vars"])
    some = lambda p: [i for i in range(n) if rng.random() < p]  # noqa: E731
    r = rng.random()
    if r < 0.45:
        return {"trace": rng.random() < 0.3}
    if r < 0.85:
        return {"trace": rng.random() < 0.3, "disk": True, "priority": some(0.3)}
    return {"trace": rng.random() < 0.5, "disk": rng.random() < 0.5, "priority": some(0.3),
            "drop": some(0.2), "blacklist": some(0.25), "opt_out": rng.random() < 0.5}


def gen_case(rng, k):
    spiral = k % 5 == 4
    sys = rules.gen_system(rng, SPIRAL_PROFILE if spiral else PROFILE)
    if spiral:
        # make sure one monthly variable really reads itself one month back
        cands = [i for i, v in enumerate(sys["vars"]) if v["unit"] == "month" and not v["neutral"]]
        if cands:
            i = rng.choice(cands)
            v = sys["vars"][i]
            back = ["dep", i, "last_month", "plain"]
            if v["formulas"]:
                v["formulas"][0][1] = ["bin", "add", back, v["formulas"][0][1]]
            else:
                v["formulas"] = [[[1, 1, 1], ["bin", "add", back, ["const", 1]]]]
            v["end"] = None
        sys["max_loops"] = rng.choice([1, 1, 2])
    pop = rules.gen_pop(rng, 4)
    cfg = gen_cfg(rng, sys)
    year = rng.choice(rules.BASE_YEARS)
    ops = []
    nsims = 1

    def some_ops(count, only=None):
        for _ in range(count):
            target = only if only is not None else rng.randrange(nsims)
            if rng.random() < 0.07:
                ops.append(["trace", target, rng.random() < 0.5])
            else:
                ops.append(["on", target, gen_request(rng, sys, pop, year)])

    some_ops(rng.choice([0, 0, 1, 2, 4, 6]), only=0)
    ops.append(["clone", 0, rng.random() < 0.3])
    nsims += 1
    some_ops(rng.randint(2, 8))
    if rng.random() < 0.45:
        ops.append(["clone", rng.randrange(nsims), rng.random() < 0.3])
        nsims += 1
        some_ops(rng.randint(2, 6))
    for v in sys["vars"]:
        v.pop("divisible", None)
    return {"sys": sys, "pop": pop, "cfg": cfg, "lazy": k % 3 == 2, "ops": ops}


def generate(rng, tier):
    n = {"quick": 360, "escalated": 800, "thorough": 4000}[tier]
    cases = [gen_case(rng, k) for k in range(n)]
    m = {"quick": 160, "escalated": 400, "thorough": 1500}[tier]
    return cases + [gen_typed_case(rng, k) for k in range(m)]


# ---------------------------------------------------------------------------------------
# implementation driver
# ---------------------------------------------------------------------------------------

def _var_index(name):
    name = str(name)
    digits = "".join(ch for ch in name if ch.isdigit())
    return int(digits) if digits else -1


def inv_obs(sim):
    keys = {tuple([_var_index(c.variable)] + rules.period_key(rules.period_json(c.period)))
            for c in sim.invalidated_caches}
    return [list(k) for k in sorted(keys)]


def pop_obs(sim):
    hh = sim.populations["household"]
    roles = [rules.ROLE_KEYS.index(r.key) for r in hh.members_role]
    return [int(hh.count), [int(x) for x in hh.members_entity_id], roles]


class RuleDriver:
    """cases over the rule systems of harness/rules.py (these also go to the Coq model)"""

    def __init__(self, case):
        self.case = case
        self.sys = case["sys"]
        self.switches = set(self.sys.get("switches", []))
        self.tbs = rules.build_system(self.sys, self.switches)

    def build(self):
        return rules.build_simulation(self.tbs, self.case["pop"], self.case.get("cfg") or {}, self.sys)

    def cache(self, sim):
        return rules.cache_obs(sim, self.sys)

    def obs(self, sim):
        return [self.cache(sim), inv_obs(sim), bool(sim.trace), pop_obs(sim)]

    def request(self, sim, req):
        return rules.do_request(sim, self.sys, self.switches, req)


def refs_obs(sims, nvars):
    """back-pointers of every simulation of the world in canonical form: an object is named by
    the number of the simulation it belongs to (-1: none of them), a population also by its
    kind (0 persons, 1 household); compared with coq/model/HeapRefs.v"""
    def sim_ref(x):
        return next((j for j, s in enumerate(sims) if s is x), -1)

    def tracer_ref(x):
        return next((j for j, s in enumerate(sims) if s.tracer is x), -1)

    def pop_ref(x):
        for j, s in enumerate(sims):
            if s.populations["person"] is x:
                return [j, 0]
        for j, s in enumerate(sims):
            if s.populations["household"] is x:
                return [j, 1]
        return [-1, -1]

    out = []
    for s in sims:
        pp, gg = s.populations["person"], s.populations["household"]
        holders = []
        for v in range(nvars):
            h = s.get_holder(f"v{v}")
            holders.append([sim_ref(h.simulation), pop_ref(h.population)])
        out.append([sim_ref(pp.simulation), sim_ref(gg.simulation), pop_ref(gg.members), tracer_ref(s.tracer), holders])
    return out


def driver_for(case):
    return TypedDriver(case) if case.get("kind") == "typed" else RuleDriver(case)


def structure(sim):
    """entity structure of a simulation, as plain data"""
    out = {}
    for key, pop in sorted(sim.populations.items()):
        d = {"count": int(pop.count), "ids": [str(x) for x in pop.ids]}
        if key != "person":
            d["members_entity_id"] = [int(x) for x in pop.members_entity_id]
            d["members_role"] = [r.key for r in pop.members_role]
            d["members_position"] = [int(x) for x in pop.members_position]
            omap = pop._ordered_members_map      # lazily built; copied by clone when it exists
            d["ordered_members_map"] = None if omap is None else [int(x) for x in omap]
        out[key] = d
    return out


def clone_checks(orig, new, drv, step):
    """parts (a) and (b) of the oracle, evaluated right after `new = orig.clone()`"""
    bad = []

    def need(cond, what):
        if not cond:
            bad.append(f"step {step}: {what}")

    # (a)
    need(drv.cache(orig) == drv.cache(new), "clone-equal: caches differ right after clone")
    need(structure(orig) == structure(new), "clone-equal: entity structure differs right after clone")
    need(inv_obs(orig) == inv_obs(new), "clone-equal: invalidated_caches differ right after clone")
    need(new.max_spiral_loops == orig.max_spiral_loops and new.opt_out_cache == orig.opt_out_cache
         and new.memory_config is orig.memory_config and new.tax_benefit_system is orig.tax_benefit_system,
         "clone-equal: configuration differs")
    # (b)
    need(new is not orig, "clone-refers: clone is the original")
    need(new.persons is new.populations["person"] and getattr(new, "person") is new.persons,
         "clone-refers: persons shortcut")
    need(new.populations is not orig.populations, "clone-refers: populations dict shared")
    need(new.tracer is not orig.tracer, "clone-refers: tracer shared")
    need(len(new.tracer.stack) == 0, "clone-refers: tracer stack of the clone not empty")
    need(new.invalidated_caches is not orig.invalidated_caches, "clone-refers: invalidated_caches set shared")
    for key, pop in new.populations.items():
        opop = orig.populations[key]
        need(pop is not opop, f"clone-refers: population {key} shared")
        need(pop.simulation is new, f"clone-refers: population {key}.simulation is not the clone")
        need(getattr(new, key) is pop, f"clone-refers: shortcut simulation.{key}")
        need(pop.entity is opop.entity, f"clone-refers: population {key} entity changed")
        if key != "person":
            need(pop.members is new.persons, f"clone-refers: {key}.members is not the clone's persons")
        need(pop._holders is not opop._holders, f"clone-refers: {key}._holders dict shared")
        need(set(pop._holders) == set(opop._holders), f"clone-refers: {key} holders lost")
        for name, h in pop._holders.items():
            oh = opop._holders[name]
            need(h is not oh, f"clone-refers: holder {name} shared")
            need(h.simulation is new, f"clone-refers: holder {name}.simulation is not the clone")
            need(h.population is pop, f"clone-refers: holder {name}.population is not the clone's population")
            need(h.variable is oh.variable, f"clone-refers: holder {name}.variable changed")
            need(h._memory_storage is not oh._memory_storage
                 and h._memory_storage._arrays is not oh._memory_storage._arrays,
                 f"clone-refers: holder {name} memory store shared")
            if oh._disk_storage is not None:
                need(h._disk_storage is not None and h._disk_storage is not oh._disk_storage
                     and h._disk_storage.storage_dir != oh._disk_storage.storage_dir,
                     f"clone-refers: holder {name} disk store shared")
    return bad


def _apply(sims, drv, op):
    """runs one operation on the list of simulations; returns the answer"""
    if op[0] == "on":
        try:
            return drv.request(sims[op[1]], op[2])
        except rules.Inexact:
            raise
        except Exception as e:  # noqa: BLE001
            return Err(errkind(e), f"{type(e).__name__}: {e}"[:200])
    if op[0] == "trace":
        sims[op[1]].trace = bool(op[2])
        return None
    raise AssertionError(op)


def _dirs(sims, acc):
    for s in sims:
        d = getattr(s, "_data_storage_dir", None)
        if d:
            acc.add(d)


def lineage(ops, target):
    """chain of simulation numbers from 0 to target, and for each member but the first the
    index of the clone operation that created it"""
    created, parent, n = {}, {}, 1
    for k, op in enumerate(ops):
        if op[0] == "clone":
            created[n], parent[n] = k, op[1]
            n += 1
    chain = [target]
    while chain[0] != 0:
        chain.insert(0, parent[chain[0]])
    return chain, created, n


def _untraced(o):
    return [x for i, x in enumerate(o) if i != 2]


def shadow(case, target, steps, dirs, clone_free=False):
    """part (c): run only the lineage of `target` on separately built simulations (cloned at the
    same points) and compare, at every step, with what the interleaved run showed for the same
    simulation.  With clone_free (part (d)) the lineage is run on ONE simulation that is never
    cloned: a clone must be as good as the simulation it was taken from (trace flag apart)."""
    ops = case["ops"]
    chain, created, _ = lineage(ops, target)
    if clone_free and len(chain) == 1:
        return None
    drv = driver_for(case)
    sim = drv.build()
    keep = [sim]
    pos = 0
    quiet = bool(case.get("lazy"))
    if not quiet:
        drv.cache(sim)
    last = None
    what = "clone-unfaithful" if clone_free else "interference"
    alone = ("on a simulation that was never cloned" if clone_free else "operated alone")
    try:
        for k, op in enumerate(ops):
            cur = chain[pos]
            applied = False
            if op[0] == "clone":
                quiet = False
                if pos + 1 < len(chain) and created[chain[pos + 1]] == k:
                    if clone_free:
                        sim.trace = bool(op[2])
                    else:
                        sim = sim.clone(trace=bool(op[2]))
                        keep.append(sim)
                    pos += 1
                    cur = chain[pos]
                    applied = True
            elif op[1] == cur:
                ans = _apply([sim] * (cur + 1), drv, op)
                applied = True
                if ans != steps[k][0]:
                    return (f"{what}: simulation {target}: answer of step {k} {op} is {steps[k][0]!r} in the "
                            f"interleaved run and {ans!r} {alone}")
            if quiet:
                continue
            if applied or last is None:
                last = drv.obs(sim)
            seen = steps[k][1][cur]
            if (_untraced(last) != _untraced(seen)) if clone_free else (last != seen):
                return (f"{what}: simulation {cur} (lineage of {target}) after step {k} {op}: interleaved run "
                        f"shows {seen!r}, {alone} it shows {last!r}")
        return None
    finally:
        _dirs(keep, dirs)


def _run(case, dirs):
    drv = driver_for(case)
    sims = [drv.build()]
    quiet = bool(case.get("lazy"))
    steps, checks = [], []
    try:
        if not quiet:
            drv.cache(sims[0])
        for k, op in enumerate(case["ops"]):
            if op[0] == "clone":
                sims.append(sims[op[1]].clone(trace=bool(op[2])))
                quiet = False
                checks += clone_checks(sims[op[1]], sims[-1], drv, k)
                ans = None
            else:
                ans = _apply(sims, drv, op)
            if any(len(s.tracer.stack) != 0 for s in sims):
                checks.append(f"step {k}: stack: evaluation stack not empty between operations")
            refs = None if quiet or case.get("kind") == "typed" else refs_obs(sims, len(case["sys"]["vars"]))
            steps.append([ans, None if quiet else [drv.obs(s) for s in sims], refs])
        inter = None
        for clone_free in (False, True):
            for target in range(len(sims)):
                inter = inter or shadow(case, target, steps, dirs, clone_free)
        return {"steps": steps, "checks": checks, "interference": inter}
    finally:
        _dirs(sims, dirs)


def run_impl(case):
    dirs = set()
    with warnings.catch_warnings():
        warnings.simplefilter("ignore")
        try:
            return _run(case, dirs)
        except rules.Inexact:
            _SKIP.add(_key(case))
            return "skip"
        finally:
            if dirs:
                gc.collect()      # OnDiskStorage.__del__ removes its own directory first
            for d in dirs:
                shutil.rmtree(d, ignore_errors=True)


# ---------------------------------------------------------------------------------------
# oracle-only stream: set_input rules, Enum / str / date values, on-disk stores
# (coq/model/Engine.v has no set_input rules and no such value types: these cases are not
#  sent to the model; oracle parts (a)-(d) are evaluated as for every other case)
# ---------------------------------------------------------------------------------------

from openfisca_core import holders as _holders, indexed_enums as _enums, periods as _periods  # noqa: E402
from openfisca_core.entities import build_entity as _build_entity  # noqa: E402
from openfisca_core.experimental import MemoryConfig as _MemoryConfig  # noqa: E402
from openfisca_core.populations import ADD as _ADD  # noqa: E402
from openfisca_core.simulations import SimulationBuilder as _SimulationBuilder  # noqa: E402
from openfisca_core.taxbenefitsystems import TaxBenefitSystem as _TaxBenefitSystem  # noqa: E402
from openfisca_core.variables import Variable as _Variable  # noqa: E402
import datetime as _datetime  # noqa: E402



class Housing(_enums.Enum):
    owner = "Owner"
    tenant = "Tenant"
    free = "Free lodger"


def _typed_variables(_Person, _Household):
    class income(_Variable):
        value_type = float
        entity = _Person
        definition_period = _periods.DateUnit.YEAR

    class salary(_Variable):
        value_type = float
        entity = _Person
        definition_period = _periods.DateUnit.MONTH
        set_input = _holders.set_input_divide_by_period

    class bonus(_Variable):
        value_type = float
        entity = _Person
        definition_period = _periods.DateUnit.MONTH
        set_input = _holders.set_input_dispatch_by_period

    class hours(_Variable):
        value_type = int
        entity = _Person
        definition_period = _periods.DateUnit.MONTH
        set_input = _holders.set_input_divide_by_period

    class rent(_Variable):
        value_type = float
        entity = _Person
        definition_period = _periods.DateUnit.MONTH

    class housing(_Variable):
        value_type = _enums.Enum
        possible_values = Housing
        default_value = Housing.owner
        entity = _Person
        definition_period = _periods.DateUnit.MONTH

    class name(_Variable):
        value_type = str
        entity = _Person
        definition_period = _periods.DateUnit.ETERNITY

    class birth(_Variable):
        value_type = _datetime.date
        entity = _Person
        definition_period = _periods.DateUnit.ETERNITY

    class benefit(_Variable):
        value_type = float
        entity = _Person
        definition_period = _periods.DateUnit.MONTH

        def formula(person, period):
            tenant = person("housing", period) == Housing.tenant
            free = person("housing", period) == Housing.free
            bob = person("name", period) == "bob"
            old = person("birth", period) < numpy.datetime64("1990-01-01")
            return tenant * person("rent", period) * 0.5 + free * 7 + bob * 1 + old * 2

    class total(_Variable):
        value_type = float
        entity = _Person
        definition_period = _periods.DateUnit.YEAR

        def formula(person, period):
            return (person("income", period) + person("salary", period, options=[_ADD])
                    + person("bonus", period, options=[_ADD]))

    # group values read THROUGH PROJECTORS (person.household(...), household.first_person(...), chains)
    class hrent(_Variable):
        value_type = float
        entity = _Household
        definition_period = _periods.DateUnit.MONTH

    class rent_share(_Variable):
        value_type = float
        entity = _Person
        definition_period = _periods.DateUnit.MONTH

        def formula(person, period):
            return person.household("hrent", period) / person.household.nb_persons()

    class hsalary(_Variable):
        value_type = float
        entity = _Household
        definition_period = _periods.DateUnit.MONTH

        def formula(household, period):
            return household.sum(household.members("salary", period)) + household.first_person("rent", period)

    class peers(_Variable):
        value_type = float
        entity = _Person
        definition_period = _periods.DateUnit.MONTH

        def formula(person, period):
            return (person.household("hsalary", period) - person("salary", period)
                    + person.household.first_person("rent", period)
                    + person.household.sum(person.household.members("rent", period)))

    # sign- and special-value-sensitive reading of a stored float
    class signed(_Variable):
        value_type = float
        entity = _Person
        definition_period = _periods.DateUnit.MONTH

        def formula(person, period):
            x = person("rent", period)
            return numpy.copysign(1, x) + 10 * numpy.isnan(x) + 100 * numpy.isinf(x)

    # position-dependent group primitives: they use the lazily built members_position / ordered_members_map
    class hmax(_Variable):
        value_type = float
        entity = _Household
        definition_period = _periods.DateUnit.MONTH

        def formula(household, period):
            return household.max(household.members("rent", period))

    class hnth(_Variable):
        value_type = float
        entity = _Household
        definition_period = _periods.DateUnit.MONTH

        def formula(household, period):
            rent = household.members("rent", period)
            return (household.value_nth_person(1, rent, default=-1) + household.value_from_first_person(rent)
                    + household.min(rent))

    return [income, salary, bonus, hours, rent, housing, name, birth, benefit, total, hrent, rent_share, hsalary, peers,
            signed, hmax, hnth]


TYPED_NAMES = ["income", "salary", "bonus", "hours", "rent", "housing", "name", "birth", "benefit", "total",
               "hrent", "rent_share", "hsalary", "peers", "signed", "hmax", "hnth"]
TYPED_GROUP = {"hrent", "hsalary", "hmax", "hnth"}


def canon(a):
    """array -> plain data that tells an EnumArray from bare indices"""
    if a is None:
        return None
    if isinstance(a, _enums.EnumArray):
        return ["enum", [str(x) for x in a.decode_to_str()]]
    a = numpy.asarray(a)
    if a.ndim == 0:
        a = a.reshape(1)
    k = a.dtype.kind
    if k == "f":
        # text form that keeps the sign of a zero and makes NaN comparable
        return ["f", [repr(float(x)) for x in a.tolist()]]
    if k in "iu":
        return ["i", [int(x) for x in a.tolist()]]
    if k == "b":
        return ["b", [bool(x) for x in a.tolist()]]
    if k == "M":
        return ["d", [str(x) for x in a.astype("datetime64[D]")]]
    return ["s", [str(x) for x in a.tolist()]]


class TypedDriver:
    def __init__(self, case):
        self.case = case
        person = _build_entity(key="person", plural="persons", label="", is_person=True)
        household = _build_entity(key="household", plural="households", label="", roles=[
            {"key": "parent", "plural": "parents", "max": 2}, {"key": "child", "plural": "children"}])
        self.tbs = _TaxBenefitSystem([person, household])
        for v in _typed_variables(person, household):
            self.tbs.add_variable(v)

    def build(self):
        cfg = self.case.get("cfg") or {}
        ids = self.case.get("ids") or [0] * self.case["count"]
        sb = _SimulationBuilder()
        sb.create_entities(self.tbs)
        sb.declare_person_entity("person", [f"p{i}" for i in range(len(ids))])
        hp = sb.declare_entity("household", [f"h{j}" for j in range(max(ids) + 1)])
        hp.members_entity_id = numpy.array(ids, dtype=numpy.int64)
        parent, child = hp.entity.roles[0], hp.entity.roles[1]
        seen, roles = {}, []
        for g in ids:
            roles.append(parent if seen.get(g, 0) < 2 else child)
            seen[g] = seen.get(g, 0) + 1
        hp.members_role = numpy.array(roles, dtype=object)
        sim = sb.build(self.tbs)
        if cfg.get("disk"):
            sim.memory_config = _MemoryConfig(max_memory_occupation=0,
                                              priority_variables=list(cfg.get("priority", [])))
        if cfg.get("trace"):
            sim.trace = True
        return sim

    def cache(self, sim):
        out = []
        for name in TYPED_NAMES:
            holder = sim.get_holder(name)
            for p in sorted(holder.get_known_periods(), key=str):
                out.append([name, str(p), canon(holder.get_array(p))])
        return out

    def obs(self, sim):
        inv = sorted([str(c.variable), str(c.period)] for c in sim.invalidated_caches)
        hh = sim.populations["household"]
        return [self.cache(sim), inv, bool(sim.trace),
                [int(sim.persons.count), int(hh.count), [int(x) for x in hh.members_entity_id]]]

    def request(self, sim, req):
        kind = req[0]
        if kind == "set":
            sim.set_input(req[1], req[2], req[3])
            return None
        if kind == "setfrom":
            # the value handed to set_input IS an array object read from the cache
            src = sim.calculate(req[3], req[4]) if req[5] == "calc" else sim.get_array(req[3], req[4])
            if src is None:
                return "no-source"
            sim.set_input(req[1], req[2], src)
            return None
        if kind == "calc":
            return canon(sim.calculate(req[1], req[2]))
        if kind == "add":
            return canon(sim.calculate_add(req[1], req[2]))
        if kind == "get":
            return canon(sim.get_array(req[1], req[2]))
        if kind == "delete":
            sim.delete_arrays(req[1], req[2])
            return None
        raise AssertionError(req)


SPECIAL_FLOATS = [0.0, -0.0, -0.0, 0.0, float("inf"), float("-inf"), float("nan"), 1.5, -1.5]
_SPECIAL = [0.0]        # probability that a generated float is a special value (set per case)


def _typed_value(rng, name, n):
    if name == "housing":
        return [rng.choice(["owner", "tenant", "tenant", "free"]) for _ in range(n)]
    if name == "name":
        return [rng.choice(["bob", "alice", "bob", ""]) for _ in range(n)]
    if name == "birth":
        return [rng.choice(["1980-05-17", "1995-01-01", "1989-12-31", "1990-01-01"]) for _ in range(n)]
    if name == "hours":
        return [rng.choice([0, 120, 1440, 1800]) for _ in range(n)]
    pool = [0, 400, 900, 1200, 2400] if name == "hrent" else [0, 600, 1200, 12000, 24000, 36000.5]
    return [rng.choice(SPECIAL_FLOATS) if rng.random() < _SPECIAL[0] else float(rng.choice(pool)) for _ in range(n)]


def _typed_request(rng, n, year, g=1):
    month = lambda: f"{year}-{rng.choice([1, 1, 2, 3, 12]):02d}"  # noqa: E731
    if rng.random() < 0.3:
        # the group variable diverges; the person-level variables projecting from it are (re)read
        q = rng.random()
        if q < 0.4:
            return ["set", "hrent", month(), _typed_value(rng, "hrent", g)]
        if q < 0.8:
            return ["calc", rng.choice(["rent_share", "rent_share", "peers", "hsalary", "hmax", "hnth", "signed"]), month()]
        return ["delete", rng.choice(["rent_share", "peers", "hsalary", "hrent"]), rng.choice([None, month()])]
    r = rng.random()
    if r < 0.22:
        # feed a cached array back as an input of a variable with a set_input rule
        dst = rng.choice(["salary", "salary", "bonus"])
        src, sp = rng.choice([("income", str(year)), ("income", str(year)), ("total", str(year)), ("rent", month()),
                              ("salary", month()), ("benefit", month())])
        dp = rng.choice([str(year), str(year), f"month:{year}-01:3", month()])
        return ["setfrom", dst, dp, src, sp, rng.choice(["calc", "calc", "get"])]
    if r < 0.30:
        return ["setfrom", "rent", month(), rng.choice(["rent", "salary", "bonus"]), month(), "get"]
    if r < 0.55:
        name = rng.choice(["income", "salary", "salary", "bonus", "hours", "rent", "housing", "housing", "name", "birth"])
        if name == "income":
            p = str(year)
        elif name in ("name", "birth"):
            p = "eternity"
        elif name in ("salary", "bonus", "hours") and rng.random() < 0.4:
            p = rng.choice([str(year), f"month:{year}-01:3"])
        else:
            p = month()
        return ["set", name, p, _typed_value(rng, name, n)]
    if r < 0.75:
        name = rng.choice(["benefit", "benefit", "total", "housing", "salary", "name"])
        return ["calc", name, str(year) if name == "total" else month()]
    if r < 0.82:
        return ["add", rng.choice(["benefit", "salary", "bonus"]), str(year)]
    if r < 0.92:
        name = rng.choice(TYPED_NAMES)
        return ["get", name, str(year) if name in ("income", "total") else month()]
    name = rng.choice(["salary", "benefit", "total", "housing", "rent", "income"])
    return ["delete", name, rng.choice([None, str(year), month()])]


def _scale_case(rng, k):
    """one household of 256..400 members beside small ones; the original computes position-dependent
    group values (which builds members_position / ordered_members_map) BEFORE it is cloned; then both
    sides get different member values and recompute"""
    big = rng.randint(256, 400)
    small = rng.randint(1, 3)
    ids = [0] * big + [1] * small + ([2] if rng.random() < 0.5 else [])
    if rng.random() < 0.7:
        rng.shuffle(ids)
    if rng.random() < 0.5:
        ids = [{0: 1, 1: 0}.get(i, i) for i in ids]          # the big household is not always the first
    n, g = len(ids), max(ids) + 1
    year = 2018
    rents = lambda: [float(rng.randint(1, 5000)) for _ in range(n)]  # noqa: E731
    ops = [["on", 0, ["set", "rent", f"{year}-01", rents()]],
           ["on", 0, ["set", "hrent", f"{year}-01", _typed_value(rng, "hrent", g)]]]
    forced = rng.random() < 0.85
    if forced:
        for name in rng.sample(["hmax", "hnth"], rng.randint(1, 2)):
            ops.append(["on", 0, ["calc", name, f"{year}-01"]])
    ops.append(["clone", 0, False])
    nsims = 2
    if rng.random() < 0.3:
        ops.append(["clone", 1, False])
        nsims = 3
    for i in range(nsims):
        ops.append(["on", i, ["set", "rent", f"{year}-02", rents()]])
    for i in rng.sample(range(nsims), nsims):
        ops.append(["on", i, ["calc", "hnth", f"{year}-02"]])
        ops.append(["on", i, ["calc", "hmax", f"{year}-02"]])
        ops.append(["on", i, ["calc", "rent_share", f"{year}-01"]])
    return {"kind": "typed", "flavour": "scale", "count": n, "ids": ids, "cfg": {"trace": False},
            "lazy": not forced and rng.random() < 0.5, "ops": ops}


def gen_typed_case(rng, k):
    if k % 20 == 7:
        return _scale_case(rng, k)
    special = k % 4 == 1
    _SPECIAL[0] = 0.35 if special else 0.0
    try:
        return _gen_typed_case(rng, k, special)
    finally:
        _SPECIAL[0] = 0.0


def _flip_zeros(rng, a):
    return [(-x if x == 0 and rng.random() < 0.7 else x) for x in a]


def _gen_typed_case(rng, k, special):
    n = rng.randint(1, 4)
    g = rng.randint(1, min(3, n))
    ids = list(range(g)) + [rng.randrange(g) for _ in range(n - g)]     # every household has a member
    rng.shuffle(ids)
    year = rng.choice([2017, 2018])
    disk = k % 2 == 0
    cfg = {"trace": rng.random() < 0.2}
    if disk:
        cfg.update({"disk": True, "priority": [v for v in TYPED_NAMES if rng.random() < 0.25]})
    ops = []
    # a populated original: inputs of every type, some months of the rule variables, often a result
    ops.append(["on", 0, ["set", "income", str(year), _typed_value(rng, "income", n)]])
    if special:
        # consecutive periods whose arrays are equal as numbers and differ in the sign of a zero
        for name in rng.sample(["rent", "hrent", "salary"], rng.randint(1, 3)):
            size = g if name in TYPED_GROUP else n
            base = _typed_value(rng, name, size)
            base[rng.randrange(size)] = rng.choice([0.0, -0.0])
            for m in (1, 2, 3):
                ops.append(["on", 0, ["set", name, f"{year}-{m:02d}", _flip_zeros(rng, base) if m > 1 else base]])
    for name in ("housing", "rent", "salary", "bonus", "hrent"):
        for m in sorted(rng.sample([1, 2, 3, 12], rng.randint(0, 2))):
            ops.append(["on", 0, ["set", name, f"{year}-{m:02d}", _typed_value(rng, name, g if name in TYPED_GROUP else n)]])
    for name in ("name", "birth"):
        if rng.random() < 0.8:
            ops.append(["on", 0, ["set", name, "eternity", _typed_value(rng, name, n)]])
    if rng.random() < 0.5:
        ops.append(["on", 0, rng.choice([["calc", "benefit", f"{year}-01"], ["calc", "total", str(year)],
                                          ["calc", "income", str(year)]])])
    if rng.random() < 0.7:
        # the original reads group values through projectors / position-dependent primitives BEFORE it is cloned
        ops.append(["on", 0, ["calc", rng.choice(["rent_share", "rent_share", "peers", "hnth", "hmax"]),
                              f"{year}-{rng.choice([1, 2]):02d}"]])
    if special and rng.random() < 0.6:
        ops.append(["on", 0, ["calc", "signed", f"{year}-{rng.choice([1, 2, 3]):02d}"]])
    nsims = 1
    ops.append(["clone", 0, rng.random() < 0.3])
    nsims += 1
    for _ in range(rng.randint(3, 8)):
        ops.append(["on", rng.randrange(nsims), _typed_request(rng, n, year, g)])
    if rng.random() < 0.4:
        ops.append(["clone", rng.randrange(nsims), False])
        nsims += 1
        for _ in range(rng.randint(2, 5)):
            ops.append(["on", rng.randrange(nsims), _typed_request(rng, n, year, g)])
    # every side finally gets its own value of the group input and reads what depends on the inputs
    m = rng.choice([1, 2, 3])
    for i in range(nsims):
        ops.append(["on", i, ["set", "hrent", f"{year}-{m:02d}", [float(100 * (i + 1) + 10 * j) for j in range(g)]]])
    for i in rng.sample(range(nsims), nsims):
        ops.append(["on", i, ["delete", "rent_share", None]])
        ops.append(["on", i, ["calc", "rent_share", f"{year}-{m:02d}"]])
        ops.append(["on", i, ["calc", rng.choice(["benefit", "peers", "signed", "hnth"]), f"{year}-{m:02d}"]])
        if special:
            ops.append(["on", i, ["calc", "signed", f"{year}-{rng.choice([1, 2, 3]):02d}"]])
    return {"kind": "typed", "flavour": "special" if special else "plain", "count": n, "ids": ids, "cfg": cfg,
            "lazy": k % 3 == 2, "ops": ops}


# ---------------------------------------------------------------------------------------
# Coq rendering
# ---------------------------------------------------------------------------------------

def disk_flags(case):
    cfg = case.get("cfg") or {}
    n = len(case["sys"]["vars"])
    return [bool(cfg.get("disk")) and v not in cfg.get("priority", []) for v in range(n)]


def cop(op):
    if op[0] == "on":
        return f"OpOn {rules.cnat(op[1])} ({rules.crequest(op[2])})"
    if op[0] == "clone":
        return f"OpClone {rules.cnat(op[1])} {cbool(op[2])}"
    if op[0] == "trace":
        return f"OpTrace {rules.cnat(op[1])} {cbool(op[2])}"
    raise AssertionError(op)


def coq_case(case):
    if case.get("kind") == "typed" or _key(case) in _SKIP:
        return "CSkip"
    cfg = case.get("cfg") or {}
    return (f"(CWorld {rules.csys(case['sys'], cfg)} {rules.cpop(case['pop'])} "
            f"{clist([cbool(b) for b in disk_flags(case)])} {cbool(cfg.get('trace'))} {cbool(case.get('lazy'))} "
            f"{clist([cop(o) for o in case['ops']])})")


def obs_for_coq(case, obs):
    if case.get("kind") == "typed":
        return "skip" if isinstance(obs, dict) else obs    # not sent to the model (CSkip)
    if isinstance(obs, dict):
        return obs["steps"]
    return obs


# ---------------------------------------------------------------------------------------
# oracle, statistics
# ---------------------------------------------------------------------------------------

def oracle(case, obs):
    if obs == "skip" or isinstance(obs, Err):
        return None
    if obs["interference"]:
        extra = f" [also: {len(obs['checks'])} identity check(s) failed, first: {obs['checks'][0]}]" if obs["checks"] else ""
        return obs["interference"] + extra
    if obs["checks"]:
        return obs["checks"][0].split(": ", 1)[1] + f" [{obs['checks'][0].split(':')[0]}; {len(obs['checks'])} check(s) failed]"
    return None


CHANGING = ("set", "setfrom", "delete", "calc", "add", "div")


def nontrivial(case, obs):
    if not isinstance(obs, dict):
        return False
    seen_clone, active = False, set()
    for op in case["ops"]:
        if op[0] == "clone":
            seen_clone = True
        elif seen_clone and op[0] == "on" and op[2][0] in CHANGING:
            active.add(op[1])
    last = obs["steps"][-1][1]
    differ = any(last[i][0] != last[j][0] for i in range(len(last)) for j in range(i))
    return len(active) >= 2 and differ


def classify(case, obs):
    if obs == "skip":
        return "skipped-inexact"
    if isinstance(obs, Err):
        return "driver-error"
    cfg = case.get("cfg") or {}
    tags = ["disk" if cfg.get("disk") else "memory"]
    if case.get("kind") == "typed":
        tags.append("typed" if case.get("flavour", "plain") == "plain" else "typed-" + case["flavour"])
        if any(o[0] == "on" and o[2][0] == "setfrom" for o in case["ops"]):
            tags.append("cached-array-as-input")
    else:
        tags.append("spiral" if not rules.is_ranked(case["sys"]) else "ranked")
    nclone = sum(1 for o in case["ops"] if o[0] == "clone")
    tags.append(f"{nclone + 1}sims")
    first = next(k for k, o in enumerate(case["ops"]) if o[0] == "clone")
    cached = isinstance(obs, dict) and obs["steps"][first][1] and len(obs["steps"][first][1][0][0]) > 0
    tags.append("clone-with-values" if cached else "clone-empty")
    if case.get("lazy"):
        tags.append("lazy")
    return "+".join(tags)


def _failure_class(case):
    try:
        msg = oracle(case, run_impl(case))
    except Exception:  # noqa: BLE001
        return None
    return msg.split(":")[0] if msg else None


def shrink(case, still_fails):
    """drop operations (clones are kept, so simulation numbers keep their meaning) while the
    oracle keeps failing in the same way (interference stays interference)"""
    cls = _failure_class(case)
    if cls is None:
        return None
    cur = case
    changed = True
    while changed:
        changed = False
        for k in range(len(cur["ops"]) - 1, -1, -1):
            if cur["ops"][k][0] == "clone":
                continue
            cand = dict(cur)
            cand["ops"] = cur["ops"][:k] + cur["ops"][k + 1:]
            if _failure_class(cand) == cls:
                cur, changed = cand, True
    return cur if cur is not case else None
