#!/usr/bin/env python3
"""Regenerates /verif/MANIFEST.json from the table below (run by hand after adding a check).

    python3 harness/mk_manifest.py
"""
import json
import pathlib

VERIF = pathlib.Path(__file__).resolve().parent.parent

ALL = [f"C{i:02d}" for i in range(1, 21)]

# property -> (level text, level note, technique, design section)
COMMON_NOTE = (
    "Trusted: Coq 8.16.1 kernel + vm_compute (no native_compute); no axiom declared by the development "
    "(Print Assumptions under every theorem is scanned on every run; standard-library axioms would be named in the evidence); "
    "harness (generators, implementation driver, canonicalisation, reading of the mismatch index list); harness/gen_tables.py. "
    "The model is hand-written; the correspondence check is differential testing, its strength is bounded by the generator. "
)

CLAIMED = {
    "C04": (
        "Theorems in coq/props/C04.v over the calendar/period model (Cal.v, Period.v) for all dates and sizes; model tied to /repo on every run by the correspondence check (same cases run on openfisca_core.periods and on the model under vm_compute) and by regenerated unit tables; Python datetime/isocalendar as independent oracle for the failing-input search.",
        "pendulum/datetime arithmetic is modelled, not verified.",
        "DESIGN.md section 7, C04"),
    "C06": (
        "Theorems in coq/props/C06.v over the parameter-history model (Param.v) for every history, every update span and every query date; model tied to /repo on every run by the correspondence check (random histories, update sequences, node/scale at-instant views run on openfisca_core.parameters and on the model) plus a before/after span oracle on the implementation.",
        "YAML loading, ISO-string comparison of dates and numpy are modelled, not verified.",
        "DESIGN.md section 7, C06"),
    "C08": (
        "Theorems in coq/props/C08.v over the rational tax-scale model (Scale.v) for every bracket list and base; model tied to /repo on every run by the correspondence check (bracket indices and decisions exactly, amounts within 1e-9 of the model's rational) plus naive per-base definitions as oracle on the implementation.",
        "numpy float arithmetic (dot, clip, digitize) is modelled over Q; float rounding is outside the theorems.",
        "DESIGN.md section 7, C08"),
    "C10": (
        "Theorems in coq/props/C10.v over the list model of group populations and projectors (Np.v, Group.v) for every membership map, role map and storage order; model tied to /repo on every run by the correspondence check (all primitives on generated memberships) plus naive per-group loops as oracle on the implementation.",
        "numpy primitives (bincount, argsort, searchsorted...) are modelled as list functions, not verified.",
        "DESIGN.md section 7, C10"),
    "C15": (
        "Theorems in coq/props/C15.v over the enum codec model (EnumModel.v) for every enumeration and input sequence; model tied to /repo on every run by the correspondence check (names, indices, members, foreign members, mixed and malformed inputs on openfisca_core.indexed_enums and on the model) plus round-trip/validity oracle on the implementation.",
        "numpy dtype handling and Python's enum machinery are modelled, not verified.",
        "DESIGN.md section 7, C15"),
}

# filled in by later commits
EXTRA = VERIF / "harness" / "manifest_claims.json"


def main():
    claimed = dict(CLAIMED)
    if EXTRA.exists():
        for k, v in json.loads(EXTRA.read_text()).items():
            claimed[k] = tuple(v)
    checks = []
    for p in sorted(claimed):
        text, note, ref = claimed[p]
        checks.append({
            "property_id": p,
            "quick_cmd": f"./check {p} --tier quick",
            "thorough_cmd": f"./check {p} --tier thorough",
            "evidence_file": f"/verif/evidence/{p}.json",
            "replay_cmd_template": f"./check {p} --replay {{path}}",
            "engine": "coq-model-and-correspondence",
            "level_claimed": {"category": "proof", "text": text, "design_ref": ref},
            "level_note": COMMON_NOTE + note,
            "technique": "Coq proof over a hand-written model + differential correspondence check",
        })
    na = [{"property_id": p,
           "reason": "not yet built in this commit (work in progress; planned, see DESIGN.md section 7)"}
          for p in ALL if p not in claimed]
    m = {
        "version": 1,
        "setup_cmd": "cd /verif && ./setup.sh",
        "hooks": {
            "guard": "OPENFISCA_CORE_VERIF",
            "enable": "no hooks: every observation goes through the public API and harness-side wrappers; the guard name is reserved and exported by ./check",
            "baseline_off_cmd": "cd /repo && /venv/bin/python -m pytest -ra -q -p no:cacheprovider --timeout=900 --continue-on-collection-errors",
            "source_commits": [],
            "add_only": True,
        },
        "engines": [{
            "name": "coq-model-and-correspondence",
            "path": "/verif/check",
            "serves_properties": sorted(claimed),
            "kind_free_text": "Coq 8.16 theorems over hand-written Gallina models (coq/model, coq/proofs, coq/props) + regenerated tables (harness/gen_tables.py) + correspondence check evaluating the model inside Coq (vm_compute) on the cases the implementation ran + property oracle on the implementation as failing-input search",
        }],
        "checks": checks,
        "not_applicable": na,
        "notes": "Work in progress: properties are added as their models are built.",
    }
    (VERIF / "MANIFEST.json").write_text(json.dumps(m, indent=1) + "\n")
    print("claimed:", sorted(claimed))


if __name__ == "__main__":
    main()
