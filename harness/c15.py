"""C15 - Enum values survive encoding and decoding; invalid ones are rejected.

Cases are single calls of openfisca_core.indexed_enums: Enum.encode (alone, or followed
by EnumArray.decode / decode_to_str / a second encode), decode of a directly built
EnumArray, and the helpers of _utils.py (_int_to_index, _str_to_index, _enum_to_index)
together with the numpy.argsort / numpy.searchsorted calls _str_to_index is made of.

The enumerations are created dynamically (functional API, one class per distinct
(identity, names, aliases) triple, every class with its own name string) with 1..200 members
and adversarial names; about every third one also declares 1..3 ALIASES (a further name bound
to the value of an existing member, declared right after it / in the middle / last).  An alias
is not a member: it is neither in E.names nor in E.enums nor counted by len(E); E[alias] is the
member itself; an alias NAME is an unknown name for Enum.encode (that is what the code does).
The model therefore sees the canonical member names only.  The oracle evaluates the property's statement on the
implementation's answer with naive Python (list.index, sorted, bisect), independently
of the Coq model.
"""
from __future__ import annotations

import bisect

import numpy

from openfisca_core import indexed_enums as ie
from openfisca_core.indexed_enums import _utils

from common import Err, clist, cstr, cz, guarded

PROP = "C15"
COQ_HEADER = "From Verif Require Import EnumModel Corr_C15."
COQ_RUN = "Corr_C15.run"
SHARD = 250
ANCHORS = ["openfisca_core/indexed_enums/enum.py", "openfisca_core/indexed_enums/_utils.py",
           "openfisca_core/indexed_enums/_guards.py", "openfisca_core/indexed_enums/enum_array.py",
           "openfisca_core/indexed_enums/_enum_type.py", "openfisca_core/indexed_enums/_errors.py"]
RULE = ("per enumeration (1..200 members; names that are prefixes of each other, case variants, digit "
        "suffixes, trailing blanks/punctuation, random strings over a tiny alphabet; declared sorted, "
        "reversed or shuffled) a battery of Enum.encode inputs: numpy arrays of str_, of each of the 8 "
        "integer dtypes, of object (members), of float/bytes/bool/complex; lists, tuples and ranges of names, "
        "ints, bools, members and mixtures; an invalid element (unknown near-miss name, -1, n, dtype "
        "extremes, 2**63.., foreign member, float/bytes/None/numpy scalar) first / last / in the middle / "
        "everywhere; empty inputs of every kind; already encoded EnumArrays (own or foreign "
        "possible_values); every accepted encode is decoded both ways and encoded again.  Plus decode of "
        "directly built EnumArrays (valid, out-of-range, negative, possible_values None) and the helper "
        "functions on partly invalid inputs.  A case is non-trivial when its input is not empty; cases are "
        "distinct as (operation, enumeration, input).  Enumerations with 1..3 aliases (pointing at the first / a "
        "middle / the last member, declared right after the member, in the middle or last): index inputs at "
        "len(members) .. len(members)+aliases+1 alone and among valid ones, alias names as str input (rejected "
        "as unknown names), members obtained through the alias (the member itself), foreign members obtained "
        "through an alias, decode of everything accepted.  Groups of 2-3 enumerations that share ONE class-name "
        "string (a baseline enumeration and redefinitions: members reordered / replaced / added / removed / "
        "another size) used in one process on freshly created classes: 3-10 interleaved round-trip steps (names "
        "in declaration and sorted order, random names, a name that only the other enumeration has, indices, own "
        "members, members of ANOTHER enumeration of the group: all of them / one among own ones first, last, "
        "in the middle / its last one / those that coincide; the other enumeration being larger, permuted, "
        "identical or an extension), in both orders and grouped by enumeration; every step is compared with its "
        "own enumeration.  Stateful sequences on ONE EnumArray: a valid input is encoded, the whole array is "
        "(or is not) decoded / printed / compared / encoded again, and 2-6 parts or reorderings of it (slices with "
        "every sign of start/stop/step, boolean masks, fancy indexing with repeats and negative positions, "
        "copy/view/reshape/encode, chains of up to 3 of these; some taken BEFORE the whole array was touched) are "
        "decoded both ways and compared with the model's decoding of those positions and with a freshly built "
        "EnumArray of the same indices (decode twice, decode_to_str, repr, str, == member, encode again); then "
        "the whole array once more.  LONG sequences: lists / tuples of 65537..70000 items given run by run (sent "
        "to the model in that form, the index array compared run-length compressed): 2 all-valid ones (decoded: every "
        "position by decode_to_str, run borders / 65535 / 65536 / every 997th by decode) and, for ints, names and "
        "members, inputs whose ONLY invalid element (a float inside the index range, an out-of-range index, the "
        "bytes of a member name, None, an unknown name, a foreign member, an element of another kind) is at "
        "position 0, 65535, 65536 or last.  After EVERY encode of a numpy array or list the harness overwrites "
        "its own input buffer (other valid indices / values that designate nothing / '~' / None) BEFORE it looks at "
        "the returned array: indices, decode, decode_to_str and re-encoding must be those of the input as it was "
        "when encoded.  uint8 inputs (the index dtype) come as fresh arrays, as first.view(numpy.ndarray) of an "
        "EnumArray, as arrays over a bytearray and as strided slices; int8 as well")
TRUSTED = ["numpy 1.26 (asarray, isin, argsort, searchsorted, fancy indexing, unicode comparison) and Python's "
           "enum machinery are modelled by EnumModel.v (lists, insertion sort, binary search), covered by the "
           "correspondence only"]
ASSUMPTIONS = ["enumerations have at most 256 members (index dtype uint8; the cast is not modelled); generated: 1..200",
               "Python bool counts as int (True encodes as index 1)",
               "the identity of an enumeration is what EnumType.__eq__ compares (identity of the class-name string): "
               "every generated enumeration class has its own name string",
               "two classes whose __name__ is the same string object compare equal (EnumType.__eq__): the model gives "
               "them one identity; a member of the other class of that name is accepted by Enum.encode exactly when "
               "this enumeration has a member of the same name at the same index (it is then that member)",
               "member names are printable ASCII, non-empty, without leading underscore; inputs are one-dimensional",
               "an alias (second name for an existing member's value) is not a member name: Enum.encode rejects it like "
               "any unknown name, E[alias] is the canonical member; the model's enumeration is the list of canonical names"]

INT_DTYPES = ["int8", "int16", "int32", "int64", "uint8", "uint16", "uint32", "uint64"]
OTHER_KINDS = ["float", "bytes", "bool", "complex", "float32"]
RESERVED = {"mro", "index", "name", "value", "names", "indices", "enums", "encode", "items"}

# ---- the enumerations --------------------------------------------------------------------

_CLASSES: dict = {}


def declaration(names, aliases):
    """The (name, value) pairs in declaration order: aliases = [[alias name, member index, position]],
    inserted one after the other at `position` (always after the member they point at)."""
    decl = [(n, "v%d" % i) for i, n in enumerate(names)]
    for a, t, pos in aliases:
        decl.insert(pos, (a, "v%d" % t))
    return decl


def enum_class(k, names, aliases=()):
    """The enumeration number k of a case: one class per (k, names, aliases), created once."""
    key = (k, tuple(names), tuple(tuple(a) for a in aliases))
    cls = _CLASSES.get(key)
    if cls is None:
        # a fresh name string per class: EnumType.__eq__ compares the identity of this string
        cls = ie.Enum("Enum%d_%d" % (k, len(_CLASSES)), dict(declaration(names, aliases)))
        members = list(cls)       # Python's own view: aliases are not members
        if ([m.name for m in members] != list(names) or [m.index for m in members] != list(range(len(names)))
                or len(cls.__members__) != len(names) + len(aliases)
                or any(cls[a] is not members[t] for a, t, _ in aliases)):
            raise RuntimeError(f"harness: enumeration not created as declared: {names!r} {aliases!r}")
        _CLASSES[key] = cls
    return cls


_MEMBERS: dict = {}


def members_of(cls):
    """list(cls): Python's own enumeration of the members (aliases excluded), cached."""
    ms = _MEMBERS.get(id(cls))
    if ms is None:
        ms = _MEMBERS[id(cls)] = list(cls)
    return ms


def aliases_of(c):
    return c.get("aliases") or [[] for _ in c["enums"]]


def classes_of(c):
    al = aliases_of(c)
    return [enum_class(k, names, al[k]) for k, names in enumerate(c["enums"])]


def mk_elem(classes, el):
    t = el[0]
    if t == "i":
        return int(el[1])
    if t == "b":
        return bool(el[1])
    if t == "s":
        return str(el[1])
    if t == "m":
        return members_of(classes[el[1]])[el[2]]
    if t == "ma":             # ["ma", k, alias name, index of the member it points at]: E[alias]
        return classes[el[1]][el[2]]
    if t == "ob":             # the bytes of a string (e.g. of a member name)
        return el[1].encode("ascii")
    if t == "of":             # a float, given as text (e.g. "2.0", "2.7": inside the index range, but no int)
        return float(el[1])
    if t == "o":
        return {"float": 1.0, "float0": 0.0, "bytes": b"a", "none": None, "npint": numpy.int64(0),
                "list": [0], "complex": 1j}[el[1]]
    raise ValueError(el)


def other_array(what, n):
    if what == "float":
        return numpy.array([float(i % 2) for i in range(n)], dtype=numpy.float64)
    if what == "float32":
        return numpy.zeros(n, dtype=numpy.float32)
    if what == "bytes":
        return numpy.array([b"a"] * n, dtype="S1")
    if what == "bool":
        return numpy.array([i % 2 == 1 for i in range(n)], dtype=bool)
    if what == "complex":
        return numpy.zeros(n, dtype=numpy.complex128)
    raise ValueError(what)


def seq_elems(x):
    if x["container"] == "range":
        return [["i", v] for v in range(x["start"], x["stop"])]
    return x["elems"]


def mk_input(classes, x):
    k = x["k"]
    if k == "encoded":
        pv = None if x["pv"] is None else classes[x["pv"]]
        return ie.EnumArray(numpy.array(x["values"], dtype=numpy.uint8), pv)
    if k == "arr_int":
        via = x.get("via")
        if via == "view":          # the raw indices of an EnumArray: first.view(numpy.ndarray), dtype uint8
            return ie.EnumArray(numpy.array(x["values"], dtype=numpy.uint8), classes[0]).view(numpy.ndarray)
        if via == "bytearray":     # a writable uint8 array over a caller's byte buffer
            return numpy.frombuffer(bytearray(x["values"]), dtype=numpy.uint8)
        if via == "strided":       # every second item of a larger array
            base = numpy.zeros(2 * len(x["values"]), dtype=x["dtype"])
            base[::2] = numpy.array(x["values"], dtype=x["dtype"])
            return base[::2]
        return numpy.array(x["values"], dtype=x["dtype"])
    if k == "arr_str":
        return numpy.array(x["values"], dtype=numpy.str_)
    if k == "arr_obj":
        a = numpy.empty(len(x["elems"]), dtype=object)
        for i, el in enumerate(x["elems"]):
            a[i] = mk_elem(classes, el)
        return a
    if k == "arr_other":
        return other_array(x["what"], x["len"])
    if k == "seq":
        if x["container"] == "range":
            return range(x["start"], x["stop"])
        vals = [mk_elem(classes, el) for el in x["elems"]]
        return tuple(vals) if x["container"] == "tuple" else vals
    raise ValueError(k)


# ---- implementation driver -----------------------------------------------------------------

def obs_members(classes, arr):
    out = []
    for m in arr:
        k = [i for i, cls in enumerate(classes) if type(m) is cls]
        out.append([k[0] if k else -1, int(m.index), str(m.name)])
    return out


def obs_indices(a):
    if not isinstance(a, ie.EnumArray):
        raise RuntimeError(f"harness: encode returned {type(a).__name__}, not an EnumArray")
    return [int(v) for v in a.view(numpy.ndarray)]


def scribble(arg, a, n):
    """What a caller may do once Enum.encode has returned: reuse ITS input buffer.  Every item of a numpy
    input array (or of a list) is overwritten with something else - another valid index, or a value that
    designates nothing.  The array that encode returned must not be concerned.  (Not when encode
    returned its argument itself: an EnumArray is handed back as it is.)"""
    if a is arg:
        return
    if isinstance(arg, list):
        arg[:] = [None] * len(arg)
        return
    if not isinstance(arg, numpy.ndarray) or arg.size == 0 or not arg.flags.writeable:
        return
    kind = arg.dtype.kind
    if kind in "iu":
        hi = int(numpy.iinfo(arg.dtype).max)
        old = [int(v) for v in arg]
        new = [((v + 1) % n if n > 1 and 0 <= v < n else 0) if p % 2 == 0 else min(hi, 200 + p % 50) for p, v in enumerate(old)]
        arg[...] = numpy.array(new, dtype=arg.dtype)
    elif kind == "U":
        arg[...] = "~"
    elif kind == "O":
        arg[...] = None


def run_round(classes, x):
    """classes[0].encode(x); the caller then overwrites its input buffer (scribble); then the indices held,
    decode / decode_to_str / encode again of what was accepted."""
    E = classes[0]
    arg = mk_input(classes, x)
    a = E.encode(arg)                      # an exception here is the whole observation
    scribble(arg, a, len(members_of(E)))
    enc = obs_indices(a)
    if x["k"] == "encoded" and a is not arg:
        raise RuntimeError("harness: an EnumArray was not returned as is")
    return [enc,
            guarded(lambda: obs_members(classes, a.decode())),
            guarded(lambda: [str(s) for s in a.decode_to_str()]),
            guarded(lambda: obs_indices(E.encode(a)))]


_GROUPS = [0]


def same_name_classes(enums):
    """Fresh enumeration classes that all carry the SAME class-name string object (a baseline
    enumeration and its redefinitions by reforms, or two modules declaring the same name):
    EnumType.__eq__/__hash__ cannot tell them apart.  Created anew for every run of a case so
    that a case always starts from classes nothing has been done with."""
    _GROUPS[0] += 1
    name = "SameName%d" % _GROUPS[0]          # one string object for the whole group
    out = []
    for names in enums:
        cls = ie.Enum(name, dict(declaration(names, [])))
        members = list(cls)
        if (cls.__name__ is not name or [m.name for m in members] != list(names)
                or [m.index for m in members] != list(range(len(names)))):
            raise RuntimeError(f"harness: enumeration not created as declared: {names!r}")
        out.append(cls)
    if any(a != b for a in out for b in out):
        raise RuntimeError("harness: classes of one name do not compare equal")
    return out


def renumber(x, f):
    """The input x with the enumeration number k of every member element replaced by f(k)."""
    if "elems" not in x:
        return x
    x = dict(x)
    x["elems"] = [[el[0], f(el[1])] + list(el[2:]) if el[0] in ("m", "ma") else el for el in x["elems"]]
    return x


def step_order(c, st):
    """The enumerations of the group as a step sees them: its own first (number 0), then the others."""
    e = st["e"]
    return [e] + [k for k in range(len(c["enums"])) if k != e]


def step_case(c, st):
    """A step of a multi case seen as a round case of its own enumeration (which is then number 0, the
    other enumerations of the group following); member elements name their enumeration by its number in
    the group and are renumbered accordingly."""
    order = step_order(c, st)
    return {"op": "round", "enums": [c["enums"][k] for k in order], "same_name": True,
            "input": renumber(st["input"], order.index)}


def apply_view(E, a, spec):
    """One step of a view chain on the EnumArray a (numpy's own operations)."""
    t = spec[0]
    if t == "slice":
        return a[slice(spec[1], spec[2], spec[3])]
    if t == "mask":
        return a[numpy.array(spec[1], dtype=bool)]
    if t == "fancy":
        return a[numpy.array(spec[1], dtype=numpy.intp)]
    if t == "copy":
        return a.copy()
    if t == "view":
        return a.view()
    if t == "reshape":
        return a.reshape(-1)
    if t == "reenc":
        return E.encode(a)
    raise ValueError(spec)


def positions(n, chain):
    """The positions of the encoded array (of length n) a chain of views keeps, in order: plain Python lists."""
    pos = list(range(n))
    for spec in chain:
        t = spec[0]
        if t == "slice":
            pos = pos[slice(spec[1], spec[2], spec[3])]
        elif t == "mask":
            pos = [p for p, b in zip(pos, spec[1]) if b]
        elif t == "fancy":
            pos = [pos[i] for i in spec[1]]
    return pos


def decode_obs(classes, v):
    return [obs_indices(v),
            guarded(lambda: obs_members(classes, v.decode())),
            guarded(lambda: [str(s) for s in v.decode_to_str()])]


def run_views(classes, c):
    """encode; (touch the whole array: decode, repr, ...); take parts / reorderings of it and decode them;
    decode the whole again.  Besides what the model answers, every part is compared with a freshly built
    EnumArray of the same indices (decode, decode_to_str, repr, str, ==): the differences go to `checks`."""
    E = classes[0]
    arg = mk_input(classes, c["input"])
    a = E.encode(arg)
    scribble(arg, a, len(members_of(E)))
    n = len(a)
    members = list(E)
    checks = []
    made = {}
    for j in c["early"]:                      # parts taken before anything was done with the whole
        v = a
        for spec in c["views"][j]:
            v = apply_view(E, v, spec)
        made[j] = v
    for what in c["pre"]:
        if what == "decode":
            a.decode()
        elif what == "decode_to_str":
            a.decode_to_str()
        elif what == "repr":
            repr(a)
        elif what == "str":
            str(a)
        elif what == "eq":
            a == members[0]
        elif what == "reenc":
            E.encode(a)
    whole = decode_obs(classes, a) if c["pre"] else None
    out = []
    for j, chain in enumerate(c["views"]):
        v = made.get(j)
        if v is None:
            v = a
            for spec in chain:
                v = apply_view(E, v, spec)
        if not isinstance(v, ie.EnumArray) or v.possible_values is not E:
            checks.append(f"view {j} {chain}: not an EnumArray of the enumeration")
        ob = decode_obs(classes, v)
        out.append(ob)
        idx = ob[0]
        fresh = ie.EnumArray(numpy.array(idx, dtype=numpy.uint8), E)

        def same(f):
            x, y = guarded(f, v), guarded(f, fresh)
            return (x.kind == y.kind) if isinstance(x, Err) and isinstance(y, Err) else x == y

        if not same(lambda z: [id(m) for m in z.decode()]):
            checks.append(f"view {j} {chain} holding {idx[:12]}: decode() differs from decoding a fresh array of these indices")
        if not same(lambda z: [id(m) for m in z.decode()]):
            checks.append(f"view {j} {chain} holding {idx[:12]}: the second decode() differs from a fresh array's")
        if not same(lambda z: [str(x) for x in z.decode_to_str()]):
            checks.append(f"view {j} {chain} holding {idx[:12]}: decode_to_str() differs from a fresh array's")
        if not same(repr):
            checks.append(f"view {j} {chain} holding {idx[:12]}: repr {repr(v)[:80]} differs from a fresh array's {repr(fresh)[:80]}")
        if not same(str):
            checks.append(f"view {j} {chain} holding {idx[:12]}: str differs from a fresh array's")
        for m in (members[0], members[-1]):
            if not same(lambda z: [bool(b) for b in (z == m)]) or \
                    guarded(lambda: [bool(b) for b in (v == m)]) != [i == m.index for i in idx]:
                checks.append(f"view {j} {chain} holding {idx[:12]}: == {m.name} is not the comparison of its members")
        if idx and not same(lambda z: obs_indices(E.encode(z))):
            checks.append(f"view {j} {chain}: encoding it again differs")
    if whole is None:
        whole = decode_obs(classes, a)
    return [[whole] + out + [decode_obs(classes, a)], checks]


def expand_runs(runs):
    out = []
    for count, el in runs:
        out.extend([el] * count)
    return out


def rle(values):
    out = []
    for v in values:
        if out and out[-1][1] == v:
            out[-1][0] += 1
        else:
            out.append([1, v])
    return out


def long_case_as_encode(c):
    """The long case written out element by element (for the oracle; never stored)."""
    return {"op": "encode", "enums": c["enums"], "no_scribble": True,
            "input": {"k": "seq", "container": c["container"], "elems": expand_runs(c["runs"])}}


def run_long(classes, c):
    """E.encode of a list / tuple of more than 65536 items; the index array comes back run-length
    compressed, with the findings of decoding it (every position by decode_to_str, first / last / run
    borders / a sample by decode, encoding it again) in `checks`."""
    E = classes[0]
    vals = [mk_elem(classes, el) for el in expand_runs(c["runs"])]
    arg = tuple(vals) if c["container"] == "tuple" else vals
    a = E.encode(arg)
    idx = obs_indices(a)
    checks = []
    names = [str(s) for s in E.names]
    members = members_of(E)
    if len(idx) != len(vals):
        checks.append(f"{len(vals)} items were encoded as {len(idx)} indices")
    if all(0 <= i < len(names) for i in idx):
        strs = guarded(lambda: [str(s) for s in a.decode_to_str()])
        if isinstance(strs, Err) or strs != [names[i] for i in idx]:
            checks.append("decode_to_str does not give the names of the indices held")
        dec = guarded(lambda: a.decode())
        if isinstance(dec, Err) or len(dec) != len(idx):
            checks.append("decode failed or has another length")
        else:
            borders, p = set(), 0
            for count, _ in c["runs"]:
                borders.update({p, p + count - 1})
                p += count
            for q in sorted(borders | {0, 65535, 65536, len(idx) - 1} | set(range(0, len(idx), 997))):
                if 0 <= q < len(idx) and dec[q] is not members[idx[q]]:
                    checks.append(f"position {q}: index {idx[q]} decoded to {dec[q]!r}")
                    break
        if guarded(lambda: obs_indices(E.encode(a))) != idx:
            checks.append("encoding the encoded array again changed it")
    return [rle(idx), checks]


def run_impl(c):
    if c["op"] == "long":
        return run_long(classes_of(c), c)
    if c["op"] == "views":
        return run_views(classes_of(c), c)
    if c["op"] == "multi":
        group = same_name_classes(c["enums"])
        return [guarded(run_round, [group[k] for k in step_order(c, st)], step_case(c, st)["input"])
                for st in c["steps"]]
    classes = classes_of(c)
    E = classes[0]
    op = c["op"]
    if op == "encode":
        arg = mk_input(classes, c["input"])
        a = E.encode(arg)
        scribble(arg, a, len(members_of(E)))
        return obs_indices(a)
    if op == "round":
        return run_round(classes, c["input"])
    if op == "decode":
        pv = None if c["pv"] is None else classes[c["pv"]]
        a = ie.EnumArray(numpy.array(c["values"], dtype=c["dtype"]), pv)
        return [guarded(lambda: obs_members(classes, a.decode())),
                guarded(lambda: [str(s) for s in a.decode_to_str()])]
    if op == "int_to_index":
        v = c["values"] if c["dtype"] is None else numpy.array(c["values"], dtype=c["dtype"])
        return [int(i) for i in _utils._int_to_index(E, v)]
    if op == "str_to_index":
        v = c["values"] if not c["array"] else numpy.array(c["values"], dtype=numpy.str_)
        return [int(i) for i in _utils._str_to_index(E, v)]
    if op == "enum_to_index":
        return [int(i) for i in _utils._enum_to_index([members_of(classes[k])[i] for k, i in c["members"]])]
    if op == "argsort":
        return [int(i) for i in numpy.argsort(E.names)]
    if op == "search":
        return int(numpy.searchsorted(E.names, c["key"], sorter=numpy.argsort(E.names)))
    raise ValueError(op)


# ---- Coq rendering ----------------------------------------------------------------------------

def cenum(k, names):
    return f"(mkEnum {k} {clist([cstr(s) for s in names])})"


def eid(c, k):
    """The model's identity of enumeration k of the case: what EnumType.__eq__ compares, i.e. the
    class-name string; the enumerations of a same-name group all have the same one."""
    return 0 if c.get("same_name") else k


def cmem(c, k, i):
    return f"(mkMem {cz(eid(c, k))} {int(i)}%nat {cstr(c['enums'][k][i])})"


def celem(c, el):
    t = el[0]
    if t == "i":
        return f"(EInt {cz(el[1])})"
    if t == "b":
        return f"(EBool {'true' if el[1] else 'false'})"
    if t == "s":
        return f"(EStr {cstr(el[1])})"
    if t == "m":
        return f"(EMem {cmem(c, el[1], el[2])})"
    if t == "ma":             # the member the alias stands for
        return f"(EMem {cmem(c, el[1], el[3])})"
    return "EOther"


def carr(c, pv, values):
    e = "None" if pv is None else f"(Some {cenum(eid(c, pv), c['enums'][pv])})"
    return f"(mkArr {e} {clist([cz(v) for v in values])})"


def cinput(c, x):
    k = x["k"]
    if k == "encoded":
        return f"(Encoded {carr(c, x['pv'], x['values'])})"
    if k == "arr_int":
        return f"(ArrInt {clist([cz(v) for v in x['values']])})"
    if k == "arr_str":
        return f"(ArrStr {clist([cstr(s) for s in x['values']])})"
    if k == "arr_obj":
        return f"(ArrObj {clist([celem(c, e) for e in x['elems']])})"
    if k == "arr_other":
        return f"(ArrOther {int(x['len'])}%nat)"
    if k == "seq":
        return f"(Seq {clist([celem(c, e) for e in seq_elems(x)])})"
    raise ValueError(k)


def obs_for_coq(c, o):
    if c["op"] in ("views", "long") and not isinstance(o, Err):
        return o[0]               # the comparisons with fresh arrays are the oracle's business
    return o


def coq_case(c):
    op = c["op"]
    if op == "long":
        runs = clist([f"({cz(count)}, {celem(c, el)})" for count, el in c["runs"]])
        return f"(KLong {cenum(0, c['enums'][0])} {runs})"
    if op == "views":
        n = input_size(c)
        sel = clist([clist(["%d%%nat" % p for p in positions(n, chain)]) for chain in c["views"]])
        return f"(KViews {cenum(0, c['enums'][0])} {cinput(c, c['input'])} {sel})"
    if op == "multi":
        steps = []
        for st in c["steps"]:
            sc = step_case(c, st)
            steps.append(f"({cenum(eid(sc, 0), sc['enums'][0])}, {cinput(sc, sc['input'])})")
        return f"(KMulti {clist(steps)})"
    e = cenum(0, c["enums"][0])
    if op == "encode":
        return f"(KEncode {e} {cinput(c, c['input'])})"
    if op == "round":
        return f"(KRound {e} {cinput(c, c['input'])})"
    if op == "decode":
        return f"(KDecode {carr(c, c['pv'], c['values'])})"
    if op == "int_to_index":
        return f"(KIntToIndex {e} {clist([cz(v) for v in c['values']])})"
    if op == "str_to_index":
        return f"(KStrToIndex {e} {clist([cstr(s) for s in c['values']])})"
    if op == "enum_to_index":
        return f"(KEnumToIndex {clist([cmem(c, k, i) for k, i in c['members']])})"
    if op == "argsort":
        return f"(KArgsort {e})"
    if op == "search":
        return f"(KSearch {e} {cstr(c['key'])})"
    raise ValueError(op)


# ---- oracle: the statement of C15 evaluated on the implementation's answer -------------------------

def element_view(c):
    """Naive reading of an encode input: (items, odd, lenient) where every item is
    ('int'|'name'|'member', index) for something that designates a member of enumeration 0,
    or ('bad', reason); odd = a container/dtype on which the statement makes no promise of
    acceptance (numpy bool array, object array of ints or names); lenient = the input holds a member
    of ANOTHER enumeration of the same class name whose name is also a member name here: it may be
    refused, but if it is accepted the result must designate the member of that name."""
    x = c["input"]
    names = c["enums"][0]
    n = len(names)
    k = x["k"]
    odd = False
    lenient = [False]
    items = []

    def of_member(kk, i):
        if kk == 0:
            return ("member", i)
        if c.get("same_name") and c["enums"][kk][i] in names:
            lenient[0] = True
            return ("member", names.index(c["enums"][kk][i]))
        return ("bad", "member of another enumeration" + (" of the same class name" if c.get("same_name") else ""))

    def of_int(v):
        return ("int", v) if 0 <= v < n else ("bad", f"index {v} outside 0..{n - 1}")

    def of_name(s):
        return ("name", names.index(s)) if s in names else ("bad", f"unknown name {s!r}")

    if k == "arr_int":
        items = [of_int(v) for v in x["values"]]
    elif k == "arr_str":
        items = [of_name(s) for s in x["values"]]
    elif k == "arr_other":
        if x["what"] == "bool":
            odd = True
            items = [of_int(i % 2) for i in range(x["len"])]
        else:
            items = [("bad", f"unsupported element type {x['what']}")] * x["len"]
    elif k in ("arr_obj", "seq"):
        els = seq_elems(x) if k == "seq" else x["elems"]
        for el in els:
            t = el[0]
            if t == "i":
                items.append(of_int(el[1]))
                odd = odd or k == "arr_obj"
            elif t == "b":
                items.append(of_int(1 if el[1] else 0))
                odd = odd or k == "arr_obj"
            elif t == "s":
                items.append(of_name(el[1]))
                odd = odd or k == "arr_obj"
            elif t == "m":
                items.append(of_member(el[1], el[2]))
            elif t == "ma":       # an alias is the same member
                items.append(of_member(el[1], el[3]))
            else:
                items.append(("bad", f"unsupported element type {el[1]}"))
    return items, odd, lenient[0]


def check_encoded(c, o, tag):
    """Whatever was accepted: only valid indices, decoding gives the members they designate,
    encoding again changes nothing."""
    names = c["enums"][0]
    n = len(names)
    enc, dec, strs, again = o
    for i in enc:
        if not 0 <= i < n:
            return f"{tag}-invalid-index: encoded array {enc[:20]} holds {i}, not an index of the {n} members"
    if isinstance(dec, Err) or isinstance(strs, Err):
        return f"{tag}-decode-raised: decoding {enc[:20]} raised {dec if isinstance(dec, Err) else strs}"
    if dec != [[0, i, names[i]] for i in enc]:
        return f"{tag}-decode: {enc[:20]} decoded to {dec[:20]}"
    if strs != [names[i] for i in enc]:
        return f"{tag}-decode-to-str: {enc[:20]} decoded to {strs[:20]}"
    if again != enc:
        return f"{tag}-idempotence: encoding the encoded array {enc[:20]} again gives {again}"
    return None


def oracle_views(c, o):
    names = c["enums"][0]
    if isinstance(o, Err):
        return f"views-valid-rejected: a valid input raised {o.kind}"
    obs, checks = o
    items, _, _ = element_view(c) if c["input"]["k"] != "encoded" else ([("int", v) for v in c["input"]["values"]], 0, 0)
    exp = [it[1] for it in items]
    touched = "after " + "/".join(c["pre"]) + " of the whole array" if c["pre"] else "nothing done with the whole array before"

    def judge(tag, ob, want):
        idx, dec, strs = ob
        if idx != want:
            return f"{tag}-indices: holds {idx[:20]}, expected {want[:20]}"
        if isinstance(dec, Err) or isinstance(strs, Err):
            return f"{tag}-decode-raised: {dec if isinstance(dec, Err) else strs}"
        if dec != [[0, i, names[i]] for i in want]:
            return f"{tag}-decode: indices {want[:20]} decoded to {[d[1:] for d in dec][:20]} ({touched})"
        if strs != [names[i] for i in want]:
            return f"{tag}-decode-to-str: indices {want[:20]} decoded to {strs[:20]} ({touched})"
        return None

    msg = judge("whole", obs[0], exp) or judge("whole-again", obs[-1], exp)
    if msg:
        return msg
    for j, chain in enumerate(c["views"]):
        want = [exp[p] for p in positions(len(exp), chain)]
        when = "taken before" if j in c["early"] else "taken after"
        msg = judge("view", obs[1 + j], want)
        if msg:
            return msg + f" [part {chain} {when} that]"
    if checks:
        return "view-vs-fresh: " + checks[0] + f" ({touched})"
    return None


def oracle_long(c, o):
    total = sum(count for count, _ in c["runs"])
    where, p = [], 0
    for count, el in c["runs"]:
        if count == 1:
            where.append(f"{el[:2]} at position {p}")
        p += count
    what = f"a {c['container']} of {total} items ({'; '.join(where[:3]) or 'all runs long'})"
    if isinstance(o, Err):
        msg = oracle(long_case_as_encode(c), o)
    else:
        idx = [v for count, v in o[0] for _ in range(count)]
        msg = oracle(long_case_as_encode(c), idx)
        if msg is None and o[1]:
            msg = "long-decode: " + o[1][0]
    if msg:
        cls, _, rest = msg.partition(":")
        return f"long-{cls}: {what}:{rest}"
    return None


NOTE = " [all observed after the caller overwrote its own input buffer, which must not concern the array encode returned]"


def overwritten(c):
    if c["op"] == "multi":
        return True
    if c["op"] not in ("encode", "round", "views") or c.get("no_scribble"):
        return False
    x = c["input"]
    return x["k"] in ("arr_int", "arr_str", "arr_obj") or (x["k"] == "seq" and x["container"] == "list")


def oracle(c, o):
    msg = _oracle(c, o)
    if msg and overwritten(c) and NOTE not in msg and not isinstance(o, Err):
        msg += NOTE
    return msg


def _oracle(c, o):
    op = c["op"]
    if op == "long":
        return oracle_long(c, o)
    if op == "views":
        return oracle_views(c, o)
    if op == "multi":
        if isinstance(o, Err):
            return f"multi-raised: {o.kind}"
        for j, (st, oj) in enumerate(zip(c["steps"], o)):
            msg = oracle(step_case(c, st), oj)
            if msg:
                cls, _, rest = msg.partition(":")
                order = [s["e"] for s in c["steps"][:j + 1]]
                return (f"same-name-{cls}: step {j} (enumerations used so far, in order: {order}) on enumeration "
                        f"#{st['e']} {c['enums'][st['e']][:8]} among {len(c['enums'])} of one class name:{rest}")
        return None
    names = c["enums"][0]
    n = len(names)
    if op in ("encode", "round"):
        x = c["input"]
        if x["k"] == "encoded":
            if isinstance(o, Err):
                return f"encoded-raised: encoding an already encoded array raised {o.kind}"
            enc = o if op == "encode" else o[0]
            if enc != x["values"]:
                return f"encoded-changed: encoding the encoded array {x['values'][:20]} gave {enc[:20]}"
            if op == "round" and x["pv"] == 0 and all(0 <= i < n for i in enc):
                return check_encoded(c, o, "encoded")
            return None
        items, odd, lenient = element_view(c)
        bad = [it for it in items if it[0] == "bad"]
        if bad:
            if not isinstance(o, Err):
                return f"invalid-accepted: input with {bad[0][1]} was encoded as {(o if op == 'encode' else o[0])[:20]}"
            return None
        kinds = {it[0] for it in items}
        claimed = not odd and len(kinds) <= 1
        if isinstance(o, Err):
            if claimed and not lenient:
                return f"valid-rejected: {x['k']} of {len(items)} valid {'/'.join(kinds) or 'no'} element(s) raised {o.kind}"
            return None
        enc = o if op == "encode" else o[0]
        if claimed and enc != [it[1] for it in items]:
            return f"round-trip: expected indices {[it[1] for it in items][:20]}, encoded as {enc[:20]}"
        if op == "round":
            return check_encoded(c, o, "round-trip")
        if any(not 0 <= i < n for i in enc):
            return f"round-trip-invalid-index: encoded array {enc[:20]} holds a non-member index"
        return None
    if isinstance(o, Err):
        return f"{op}-raised: {o.kind}"
    if op == "decode":
        dec, strs = o
        vals = c["values"]
        if c["pv"] is None:
            return None
        m = len(c["enums"][c["pv"]])
        if any(v >= m or v < -m for v in vals):
            if not (isinstance(dec, Err) and isinstance(strs, Err)):
                return f"decode-invalid: an EnumArray holding {vals[:20]} over {m} members decoded to {dec}"
        elif all(0 <= v < m for v in vals):
            if dec != [[c["pv"], v, c["enums"][c["pv"]][v]] for v in vals] or strs != [c["enums"][c["pv"]][v] for v in vals]:
                return f"decode: {vals[:20]} decoded to {dec} / {strs}"
        return None
    if op == "int_to_index":
        exp = [v for v in c["values"] if 0 <= v < n]
        if o != exp:
            return f"int_to_index: kept {o[:20]} of {c['values'][:20]}, the valid indices are {exp[:20]}"
    elif op == "str_to_index":
        exp = [names.index(s) for s in c["values"] if s in names]
        if o != exp:
            return f"str_to_index: {c['values'][:20]} gave {o[:20]}, declared positions are {exp[:20]}"
    elif op == "enum_to_index":
        if o != [i for _, i in c["members"]]:
            return f"enum_to_index: {c['members'][:20]} gave {o[:20]}"
    elif op == "argsort":
        if sorted(o) != list(range(n)) or [names[i] for i in o] != sorted(names):
            return f"argsort: {o[:20]} does not sort the names"
    elif op == "search":
        if o != bisect.bisect_left(sorted(names), c["key"]):
            return f"search: {c['key']!r} found at {o}, bisect_left says {bisect.bisect_left(sorted(names), c['key'])}"
    return None


def input_size(c):
    if c["op"] == "long":
        return sum(count for count, _ in c["runs"])
    if c["op"] == "multi":
        return sum(input_size(step_case(c, st)) for st in c["steps"])
    if "input" in c:
        x = c["input"]
        if x["k"] == "arr_other":
            return x["len"]
        if x["k"] == "seq":
            return len(seq_elems(x))
        return len(x.get("values", x.get("elems", [])))
    return len(c.get("values", c.get("members", [1])))


def nontrivial(c, o):
    return input_size(c) > 0


def classify(c, o):
    op = c["op"]
    tag = op
    if op == "long":
        kinds = sorted({el[0] for _, el in c["runs"]})
        return tag + ":" + c["container"] + ":" + "+".join(kinds) + (":" + o.kind if isinstance(o, Err) else "")
    if op == "views":
        tag += ":" + c["input"]["k"] + (":pre=" + "+".join(sorted(set(c["pre"]))) if c["pre"] else ":untouched")
        tag += ":" + "+".join(sorted({spec[0] for chain in c["views"] for spec in chain}))
        return tag
    if op == "multi":
        kinds = sorted({st["input"]["k"] for st in c["steps"]})
        tag += f":{len(c['enums'])}enums:" + "+".join(kinds)
        if isinstance(o, list) and any(isinstance(x, Err) for x in o):
            tag += ":some-rejected"
        return tag
    if "input" in c:
        x = c["input"]
        tag += ":" + x["k"]
        if x["k"] == "arr_int":
            tag += ":" + x["dtype"] + (":" + x["via"] if x.get("via") else "")
        elif x["k"] == "seq":
            tag += ":" + x["container"]
        elif x["k"] == "arr_other":
            tag += ":" + x["what"]
    n = len(c["enums"][0]) if c.get("enums") else 0
    tag += ":n<=3" if n <= 3 else ":n<=32" if n <= 32 else ":n<=200"
    if input_size(c) == 0:
        tag += ":empty"
    if isinstance(o, Err):
        tag += ":" + o.kind
    return tag


# ---- generation ---------------------------------------------------------------------------------

def _words(alphabet, maxlen):
    out, layer = [], [""]
    for _ in range(maxlen):
        layer = [w + ch for w in layer for ch in alphabet]
        out += layer
    return out


POOLS = {
    "prefix": _words("ab", 7),                       # 254 names, closed under prefixes
    "case": _words("aAbB", 4),                       # 340 case variants
    "digits": ["n%d" % i for i in range(260)] + ["%d" % i for i in range(120)],
    "blanks": [w + s for w in ("a", "A", "ab", "aB", "b", "a b", "a.b", "Z", "z", "a-", "0") for s in
               ("", " ", "  ", ".", "_", "-", "~", "!", " a", "0", "a", "A", "z", "Z", "_x", " .", ". ", "''", "\"", "|", "{", "`", "@")],
    "words": ["OWNER", "TENANT", "FREE_LODGER", "HOMELESS", "owner", "tenant", "Owner", "Tenant", "free_lodger",
              "single", "couple", "SINGLE", "COUPLE", "widowed", "divorced", "unknown", "UNKNOWN", "other", "Other",
              "none", "None", "null", "yes", "no", "YES", "NO", "true", "false", "True", "False", "A", "B", "C", "a",
              "b", "c", "zone_1", "zone_2", "zone_3", "zone_10", "zone_11", "zone_20", "Zone_1", "ZONE_1"],
}


def valid_name(s):
    return bool(s) and not s.startswith("_") and s not in RESERVED and all(32 <= ord(ch) < 127 for ch in s)


def random_word(rng):
    alpha = rng.choice(["ab", "abAB", "aA0 ", "xyz_.-", "01", "aZ~ !"])
    return "".join(rng.choice(alpha) for _ in range(rng.randrange(1, 9)))


def gen_names(rng, n):
    style = rng.choice(["prefix", "case", "digits", "blanks", "words", "random", "mixed"])
    if style == "random":
        pool = []
    elif style == "mixed":
        pool = [w for p in POOLS.values() for w in rng.sample(p, min(len(p), 60))]
    else:
        pool = list(POOLS[style])
    pool = [w for w in dict.fromkeys(pool) if valid_name(w)]
    seen = set(pool)
    while len(pool) < n:
        w = random_word(rng)
        if valid_name(w) and w not in seen:
            seen.add(w)
            pool.append(w)
    names = rng.sample(pool, n)
    order = rng.choice(["shuffled", "shuffled", "sorted", "reversed", "almost"])
    if order == "sorted":
        names.sort()
    elif order == "reversed":
        names.sort(reverse=True)
    elif order == "almost":
        names.sort()
        if n >= 2:
            i, j = rng.randrange(n), rng.randrange(n)
            names[i], names[j] = names[j], names[i]
    return names


def near_misses(rng, names):
    """Strings that are not member names but close to one."""
    out = []
    have = set(names)
    for s in rng.sample(names, min(len(names), 4)):
        for t in (s.swapcase(), s[:-1], s + " ", " " + s, s + s[-1], s.lower(), s.upper(), s + "0", s[1:], s + "."):
            if t not in have and all(32 <= ord(ch) < 127 for ch in t):
                out.append(t)
    out += [t for t in ("", " ", "zzzzzzzzzz", "!", "~", "0", "None") if t not in have]
    return out


DT_RANGE = {"int8": (-2 ** 7, 2 ** 7 - 1), "int16": (-2 ** 15, 2 ** 15 - 1), "int32": (-2 ** 31, 2 ** 31 - 1),
            "int64": (-2 ** 63, 2 ** 63 - 1), "uint8": (0, 2 ** 8 - 1), "uint16": (0, 2 ** 16 - 1),
            "uint32": (0, 2 ** 32 - 1), "uint64": (0, 2 ** 64 - 1)}


def bad_ints(rng, n, dtype=None):
    cand = [-1, n, n + 1, n + 2, n + 3, -2, -n, -n - 1, 127, 128, 255, 256, 257, -128, -129, -255, -256, 2 * n, 1000, 65535, 65536,
            2 ** 31 - 1, 2 ** 31, -2 ** 31, 2 ** 32, 2 ** 63 - 1, -2 ** 63]
    if dtype is None:
        cand += [2 ** 63, 2 ** 64 - 1, 2 ** 64, 2 ** 70, -2 ** 70, -2 ** 63 - 1]
        lo, hi = -2 ** 80, 2 ** 80
    else:
        lo, hi = DT_RANGE[dtype]
        cand += [lo, hi, hi - 1, lo + 1]
    return [v for v in dict.fromkeys(cand) if lo <= v <= hi and not 0 <= v < n]


def lengths(rng, n):
    return rng.choice([1, 1, 2, 3, n, n + 1, 2 * n, rng.randrange(1, 40), rng.randrange(1, 40), rng.randrange(40, 120)])


def place(rng, good, bad, where):
    """Put invalid elements into a list of valid ones: first / last / middle / several / all."""
    good = list(good)
    if where == "first":
        return [rng.choice(bad)] + good
    if where == "last":
        return good + [rng.choice(bad)]
    if where == "middle":
        i = rng.randrange(len(good) + 1)
        return good[:i] + [rng.choice(bad)] + good[i:]
    if where == "several":
        out = good + [rng.choice(bad) for _ in range(rng.randrange(2, 5))]
        rng.shuffle(out)
        return out
    return [rng.choice(bad) for _ in range(max(1, len(good)))]


WHERE = ["first", "last", "middle", "several", "all"]


def gen_aliases(rng, names):
    """1..3 aliases [alias name, index of the member it points at, position in the declaration] for the
    enumeration `names`: pointing at the first / last / a middle member, declared right after the member, last,
    or somewhere in between (an alias can only follow the member: the first name bound to a value is the member)."""
    n = len(names)
    decl = list(range(n))          # the member each declared name stands for
    have = set(names)
    out = []
    for _ in range(rng.choice([1, 2, 2, 3])):
        t = rng.choice([0, n - 1, n // 2, rng.randrange(n)])
        base = names[t]
        cands = [base + "_alias", base.swapcase(), base + "2", "alias_of_" + base, base + base, base[:-1], "A" + base]
        rng.shuffle(cands)
        a = next((w for w in cands if valid_name(w) and w not in have), None)
        while a is None:
            w = random_word(rng)
            a = w if valid_name(w) and w not in have else None
        first = decl.index(t)
        pos = rng.choice([first + 1, len(decl), rng.randrange(first + 1, len(decl) + 1)])
        decl.insert(pos, t)
        have.add(a)
        out.append([a, t, pos])
    return out


def battery(rng, names, foreign, aliases=None):
    """All the cases generated for one enumeration (with one or two foreign ones).
    aliases: per enumeration, the aliases it declares (see gen_aliases)."""
    n = len(names)
    enums = [names] + foreign
    aliases = aliases or [[] for _ in enums]
    has_alias = any(aliases)
    cases = []

    def add(op, **kw):
        d = {"op": op, "enums": enums}
        if has_alias:
            d["aliases"] = aliases
        d.update(kw)
        cases.append(d)

    def enc(x):
        add("round" if rng.random() < 0.85 else "encode", input=x)

    def seq(elems):
        return {"k": "seq", "container": rng.choice(["list", "list", "tuple"]), "elems": elems}

    def idx(k):
        base = [rng.randrange(n) for _ in range(k)]
        if rng.random() < 0.4:
            base[rng.randrange(k)] = n - 1
        if rng.random() < 0.4:
            base[rng.randrange(k)] = 0
        return base

    fmembers = [["m", k, i] for k in range(1, len(enums)) for i in
                sorted({0, len(enums[k]) - 1, min(len(enums[k]) - 1, n), rng.randrange(len(enums[k]))})]
    misses = near_misses(rng, names)
    misses += [a for a, _, _ in aliases[0] if a not in misses] * 2      # an alias name is not a member name

    # -- the first index that designates no member, alone and after a valid one ---------------------------
    enc({"k": "arr_int", "dtype": rng.choice(["int16", "int32", "int64", "uint8", "uint16", "uint32", "uint64"]), "values": [n]})
    enc(seq([["i", n - 1], ["i", n]]))
    # -- enumerations that declare aliases ------------------------------------------------------------------
    if aliases[0]:
        al0 = aliases[0]
        wide = ["int16", "int32", "int64", "uint8", "uint16", "uint32", "uint64"]
        for j in range(len(al0) + 2):        # len(members) .. len(members) + aliases + 1: none designates a member
            v = n + j
            enc({"k": "arr_int", "dtype": rng.choice(wide), "values": [v]})
            enc(seq([["i", v]]))
            vals = place(rng, idx(lengths(rng, n)), [v], rng.choice(["first", "last", "middle"]))
            if rng.random() < 0.5:
                enc({"k": "arr_int", "dtype": rng.choice(wide), "values": vals})
            else:
                enc(seq([["i", x] for x in vals]))
            add("decode", pv=0, dtype="int64", values=[v])
        add("int_to_index", dtype=rng.choice([None, "int64", "uint8"]), values=list(range(max(0, n - 2), n + len(al0) + 2)))
        for a, t, _ in al0:                  # the alias NAME: rejected like any unknown name
            enc(seq([["s", a]]) if rng.random() < 0.5 else {"k": "arr_str", "values": [a]})
            vals = place(rng, [names[i] for i in idx(lengths(rng, n))], [a], rng.choice(["first", "last", "middle"]))
            enc({"k": "arr_str", "values": vals} if rng.random() < 0.5 else seq([["s", s] for s in vals]))
        add("str_to_index", array=rng.random() < 0.5, values=[a for a, _, _ in al0] + [names[0], names[-1]])
        am = [["ma", 0, a, t] for a, t, _ in al0]      # E[alias]: the member itself
        enc(seq(am))
        vals = am + [["m", 0, i] for i in idx(rng.randrange(1, 6))]
        rng.shuffle(vals)
        enc({"k": "arr_obj", "elems": vals} if rng.random() < 0.5 else seq(vals))
        enc({"k": "arr_obj", "elems": [["ma", 0, a, t] for a, t, _ in al0] + [["m", 0, n - 1]]})
    for k in range(1, len(enums)):           # a foreign member obtained through an alias of its enumeration
        if aliases[k]:
            fm = [["ma", k, a, t] for a, t, _ in aliases[k]]
            vals = place(rng, [["m", 0, i] for i in idx(rng.randrange(1, 6))], fm, rng.choice(WHERE))
            enc({"k": "arr_obj", "elems": vals} if rng.random() < 0.5 else seq(vals))
    # -- names --------------------------------------------------------------------------------
    for _ in range(3):
        good = [names[i] for i in idx(lengths(rng, n))]
        if rng.random() < 0.5:
            enc({"k": "arr_str", "values": good})
        else:
            enc(seq([["s", s] for s in good]))
    enc({"k": "arr_str", "values": list(names)})                     # every member once, declaration order
    enc(seq([["s", s] for s in sorted(names)]))                       # and in sorted order
    for where in rng.sample(WHERE, 3):
        vals = place(rng, [names[i] for i in idx(lengths(rng, n))], misses, where)
        if rng.random() < 0.5:
            enc({"k": "arr_str", "values": vals})
        else:
            enc(seq([["s", s] for s in vals]))
    # -- indices ------------------------------------------------------------------------------
    for dt in rng.sample(INT_DTYPES, 4):
        hi = DT_RANGE[dt][1]
        good = [min(i, hi) for i in idx(lengths(rng, n))]
        enc({"k": "arr_int", "dtype": dt, "values": good})
        bad = bad_ints(rng, n, dt)
        vals = place(rng, good, bad, rng.choice(WHERE))
        enc({"k": "arr_int", "dtype": dt, "values": vals})
    for via in ("view", "bytearray", "strided", None):        # arrays that already have the index dtype (uint8), and int8
        good = idx(lengths(rng, n))
        enc({"k": "arr_int", "dtype": "uint8", "values": good, "via": via})
    vals = place(rng, idx(lengths(rng, n)), [v for v in (n, n + 1, 200, 255) if v >= n], rng.choice(WHERE))
    enc({"k": "arr_int", "dtype": "uint8", "values": vals, "via": rng.choice(["view", "bytearray", "strided"])})
    enc({"k": "arr_int", "dtype": "int8", "values": [min(i, 127) for i in idx(lengths(rng, n))]})
    dt = rng.choice(INT_DTYPES)
    enc({"k": "arr_int", "dtype": dt, "values": [v for v in range(n) if v <= DT_RANGE[dt][1]]})
    for _ in range(2):
        enc(seq([["i", i] for i in idx(lengths(rng, n))]))
    enc(seq([["b", rng.random() < 0.5] for _ in range(rng.randrange(1, 5))]))      # bools alone (True invalid when n = 1)
    enc(seq([rng.choice([["b", True], ["b", False], ["i", i]]) for i in idx(rng.randrange(2, 9))]))
    for where in rng.sample(WHERE, 2):
        vals = place(rng, idx(lengths(rng, n)), bad_ints(rng, n), where)
        enc(seq([["i", v] for v in vals]))
    a, b = sorted([rng.randrange(-2, n + 3), rng.randrange(-2, n + 3)])
    enc({"k": "seq", "container": "range", "start": a, "stop": b})
    enc({"k": "seq", "container": "range", "start": 0, "stop": n})
    # -- members ------------------------------------------------------------------------------
    for _ in range(2):
        good = [["m", 0, i] for i in idx(lengths(rng, n))]
        enc({"k": "arr_obj", "elems": good} if rng.random() < 0.5 else seq(good))
    enc(seq([["m", 0, i] for i in range(n)]))                         # list(E)
    for where in rng.sample(WHERE, 3):
        vals = place(rng, [["m", 0, i] for i in idx(lengths(rng, n))], fmembers, where)
        enc({"k": "arr_obj", "elems": vals} if rng.random() < 0.5 else seq(vals))
    # -- unsupported element types and mixtures -----------------------------------------------------
    others = [["o", w] for w in ("float", "float0", "bytes", "none", "npint", "list", "complex")]
    goods = {"i": lambda: ["i", rng.randrange(n)], "s": lambda: ["s", rng.choice(names)],
             "m": lambda: ["m", 0, rng.randrange(n)], "b": lambda: ["b", False]}
    for _ in range(2):
        kind = rng.choice("ism")
        good = [goods[kind]() for _ in range(rng.randrange(0, 6))]
        enc(seq(place(rng, good, others, rng.choice(WHERE))))
    for _ in range(2):      # valid elements of different kinds in one sequence: no promise, must stay valid if accepted
        ks = rng.sample("ismb", 2)
        vals = [goods[rng.choice(ks)]() for _ in range(rng.randrange(2, 7))]
        enc(seq(vals))
    vals = [goods[rng.choice("ism")]() for _ in range(rng.randrange(1, 6))]
    enc({"k": "arr_obj", "elems": vals})
    vals = place(rng, [["m", 0, i] for i in idx(rng.randrange(1, 6))],
                 [["o", "none"], ["o", "float"], ["i", 0], ["s", names[0]], ["o", "bytes"]], rng.choice(WHERE))
    enc({"k": "arr_obj", "elems": vals})
    enc({"k": "arr_other", "what": rng.choice(OTHER_KINDS), "len": rng.randrange(1, 6)})
    # -- empty inputs -----------------------------------------------------------------------------
    empties = [{"k": "arr_int", "dtype": rng.choice(INT_DTYPES), "values": []}, {"k": "arr_str", "values": []},
               {"k": "arr_obj", "elems": []}, {"k": "arr_other", "what": rng.choice(OTHER_KINDS), "len": 0},
               {"k": "seq", "container": "list", "elems": []}, {"k": "seq", "container": "tuple", "elems": []},
               {"k": "seq", "container": "range", "start": 0, "stop": 0}, {"k": "encoded", "pv": 0, "values": []}]
    for x in rng.sample(empties, 2):
        enc(x)
    # -- already encoded ------------------------------------------------------------------------------
    enc({"k": "encoded", "pv": 0, "values": idx(lengths(rng, n))})
    if rng.random() < 0.5:
        k = rng.randrange(1, len(enums))
        enc({"k": "encoded", "pv": k, "values": [rng.randrange(len(enums[k])) for _ in range(rng.randrange(1, 6))]})
    # -- decode of directly built arrays ----------------------------------------------------------------
    add("decode", pv=0, dtype="uint8", values=idx(lengths(rng, n)))
    add("decode", pv=0, dtype="int64", values=place(rng, idx(rng.randrange(1, 6)), [n, n + 1, 255, -n - 1, 2 * n + 1, -300], rng.choice(WHERE)))
    add("decode", pv=0, dtype="int16", values=[rng.randrange(-n, n) for _ in range(rng.randrange(1, 8))])
    if rng.random() < 0.3:
        add("decode", pv=None, dtype="uint8", values=idx(rng.randrange(1, 4)))
    # -- helpers ----------------------------------------------------------------------------------------
    dt = rng.choice(INT_DTYPES + [None])
    vals = place(rng, [min(i, 127) for i in idx(lengths(rng, n))], bad_ints(rng, n, dt), rng.choice(WHERE))
    add("int_to_index", dtype=dt, values=vals)
    vals = place(rng, [names[i] for i in idx(lengths(rng, n))], misses, rng.choice(WHERE))
    add("str_to_index", array=rng.random() < 0.5, values=vals)
    add("enum_to_index", members=[[k, rng.randrange(len(enums[k]))] for k in
                                  [rng.randrange(len(enums)) for _ in range(rng.randrange(1, 8))]])
    add("argsort")
    for key in rng.sample(names, min(n, 2)) + rng.sample(misses, 2):
        add("search", key=key)
    return cases


def gen_view(rng, m):
    """One numpy operation on an EnumArray of length m, and the length of what it gives."""
    kinds = ["slice", "slice", "slice", "mask", "mask", "fancy", "fancy", "copy", "view", "reshape", "reenc"]
    t = rng.choice(kinds)
    if t == "slice":
        pick = lambda: rng.choice([None, None, 0, 1, 2, m - 1, m, m + 1, -1, -2, -m, rng.randrange(-m - 1, m + 2)])
        spec = ["slice", pick(), pick(), rng.choice([None, None, 1, 2, -1, -1, -2, 3])]
    elif t == "mask":
        style = rng.random()
        bools = [style < 0.1 or (style > 0.2 and rng.random() < 0.5) for _ in range(m)]
        spec = ["mask", bools]
    elif t == "fancy":
        k = rng.choice([0, 1, 2, m, m + 2, rng.randrange(0, m + 4)]) if m else 0
        spec = ["fancy", [rng.randrange(-m, m) for _ in range(k)]]
        if m and rng.random() < 0.3:
            spec = ["fancy", list(range(m))[::-1]]
    else:
        spec = [t]
    return spec, len(positions(m, [spec]))


def view_cases(rng, count):
    """One EnumArray, then parts and reorderings of it: each must decode to the members ITS indices designate,
    whatever was done with the whole array before."""
    cases = []
    for g in range(count):
        n = rng.choice([1, 2, 2, 3, 3, 4, 5, 6, 8, 12, rng.randrange(1, 60), rng.randrange(1, 201)])
        names = gen_names(rng, n)
        L = rng.choice([1, 2, 3, 4, 5, 6, 8, 13, rng.randrange(1, 30), rng.randrange(1, 60)])
        picks = [rng.randrange(n) for _ in range(L)]
        if rng.random() < 0.3 and L >= n:             # every member, declaration order (then the rest)
            picks[:n] = range(n)
        kind = rng.choice(["arr_int", "arr_u8", "arr_str", "seq_str", "seq_int", "arr_obj", "seq_mem", "encoded"])
        if kind == "arr_u8":
            x = {"k": "arr_int", "dtype": "uint8", "values": picks, "via": rng.choice(["view", "bytearray", "strided", None])}
        elif kind == "arr_int":
            x = {"k": "arr_int", "dtype": rng.choice(["int16", "int32", "int64", "uint8", "uint16", "uint32", "uint64"]), "values": picks}
        elif kind == "arr_str":
            x = {"k": "arr_str", "values": [names[i] for i in picks]}
        elif kind == "seq_str":
            x = {"k": "seq", "container": rng.choice(["list", "tuple"]), "elems": [["s", names[i]] for i in picks]}
        elif kind == "seq_int":
            x = {"k": "seq", "container": rng.choice(["list", "tuple"]), "elems": [["i", i] for i in picks]}
        elif kind == "arr_obj":
            x = {"k": "arr_obj", "elems": [["m", 0, i] for i in picks]}
        elif kind == "seq_mem":
            x = {"k": "seq", "container": "list", "elems": [["m", 0, i] for i in picks]}
        else:
            x = {"k": "encoded", "pv": 0, "values": picks}
        r = rng.random()
        if r < 0.15:
            pre = []
        elif r < 0.55:
            pre = [rng.choice(["decode", "repr"])]
        else:
            pre = rng.sample(["decode", "decode_to_str", "repr", "str", "eq", "reenc"], rng.randrange(1, 5))
        views = []
        for _ in range(rng.randrange(2, 7)):
            chain, m = [], L
            for _ in range(rng.choice([1, 1, 1, 2, 2, 3])):
                spec, m = gen_view(rng, m)
                chain.append(spec)
            views.append(chain)
        early = [j for j in range(len(views)) if rng.random() < 0.2]
        cases.append({"op": "views", "enums": [names], "input": x, "pre": pre, "early": early, "views": views})
    return cases


def long_cases(rng, tier):
    """Lists / tuples of 65537..70000 items, run by run: all valid; or valid but for ONE element (a float
    inside the index range or an out-of-range index among ints, bytes of a member name / None / an unknown
    name among names, a member of another enumeration / a name among members) at position 0, 65535, 65536
    or last."""
    cases = []
    n = rng.choice([2, 3, 3, 4, 6, 12, 40])
    names = gen_names(rng, n)
    foreign = gen_names(rng, rng.choice([n, n + 1, 3]))
    enums = [names, foreign]

    def total():
        return rng.randrange(65537, 70001)

    def good_runs(kind, length):
        """valid elements of one kind in a few long runs adding up to `length`"""
        k = rng.randrange(0, 4)
        cuts = sorted({0, length} | ({rng.randrange(1, length) for _ in range(k)} if length > 2 else set()))
        runs = []
        for a, b in zip(cuts, cuts[1:]):
            i = rng.choice([0, n - 1, rng.randrange(n)])
            el = {"i": ["i", i], "s": ["s", names[i]], "m": ["m", 0, i]}[kind]
            runs.append([b - a, el])
        return runs

    def with_bad(kind, bad, pos, length):
        before, after = good_runs(kind, pos) if pos else [], good_runs(kind, length - pos - 1) if pos < length - 1 else []
        return before + [[1, bad]] + after

    def add(runs):
        cases.append({"op": "long", "enums": enums, "container": rng.choice(["list", "tuple"]), "runs": runs})

    for kind in (rng.sample("ism", 2) if tier == "quick" else "ism"):
        add(good_runs(kind, total()))
    inside = rng.randrange(n)
    bads = {"i": [["of", "%d.0" % inside], ["of", "%d.7" % inside], ["i", n], ["i", -1], ["o", "none"], ["s", names[0]]],
            "s": [["ob", names[inside]], ["o", "none"], ["s", names[0] + "~"], ["o", "bytes"], ["i", 0], ["m", 0, inside]],
            "m": [["m", 1, min(inside, len(foreign) - 1)], ["s", names[inside]], ["i", inside], ["o", "none"]]}
    per_kind = {"quick": 1, "escalated": 3, "thorough": 6}[tier]
    for kind in "ism":
        for bad in ([bads[kind][0]] + rng.sample(bads[kind][1:], min(per_kind, len(bads[kind]) - 1))):
            for where in ("first", "65535", "65536", "last"):
                length = total()
                pos = {"first": 0, "65535": 65535, "65536": 65536, "last": length - 1}[where]
                add(with_bad(kind, bad, pos, length))
    return cases


def variant(rng, names):
    """Another enumeration a reform could declare under the same name: the same members in another
    order, one member replaced / added / removed, another size, or something else altogether."""
    n = len(names)
    how = rng.choice(["reorder", "reverse", "replace", "add", "remove", "swap2", "other", "resize", "same", "append"])
    have = set(names)

    def fresh():
        while True:
            w = rng.choice(POOLS["words"] + POOLS["prefix"][:40]) if rng.random() < 0.7 else random_word(rng)
            if valid_name(w) and w not in have:
                have.add(w)
                return w

    v = list(names)
    if how == "same":                 # a second class declaring exactly the same members
        return v
    if how == "append":               # the same members and some more after them
        return v + [fresh() for _ in range(rng.choice([1, 2, 5]))]
    if how == "reorder":
        rng.shuffle(v)
    elif how == "reverse":
        v.reverse()
    elif how == "replace":
        v[rng.randrange(n)] = fresh()
    elif how == "add":
        v.insert(rng.randrange(n + 1), fresh())
    elif how == "remove" and n > 1:
        del v[rng.randrange(n)]
    elif how == "swap2" and n > 1:
        i, j = rng.sample(range(n), 2)
        v[i], v[j] = v[j], v[i]
    elif how == "resize":
        m = rng.choice([1, 2, n + 3, 2 * n + 1, max(1, n // 2)])
        v = (v + [fresh() for _ in range(max(0, m - n))])[:m]
        rng.shuffle(v)
    else:
        v = gen_names(rng, rng.choice([n, n, max(1, n - 1), n + 1, rng.randrange(1, 12)]))
    if v == list(names):              # nothing changed (n = 1, or an unlucky shuffle): make it differ
        v = v[::-1] if n > 1 and v[::-1] != v else v + [fresh()]
    return v


def multi_cases(rng, count):
    """Several enumerations of ONE class name used in one process, interleaved, in both orders:
    every step is a round trip on one of them and is judged against that enumeration alone."""
    cases = []
    for g in range(count):
        n = rng.choice([2, 2, 3, 3, 3, 4, 5, 6, 8, 12, rng.randrange(2, 40)])
        base = gen_names(rng, n)
        enums = [base, variant(rng, base)]
        if rng.random() < 0.35:
            enums.append(variant(rng, rng.choice(enums)))

        def one_input(k, kind):
            names = enums[k]
            m = len(names)
            picks = [rng.randrange(m) for _ in range(rng.choice([1, 2, 3, m, m + 2, 2 * m]))]
            if kind == "all":
                return {"k": "arr_str", "values": list(names)}
            if kind == "sorted":
                return {"k": "seq", "container": "list", "elems": [["s", s] for s in sorted(names)]}
            if kind == "str":
                vals = [names[i] for i in picks]
                return ({"k": "arr_str", "values": vals} if rng.random() < 0.5 else
                        {"k": "seq", "container": rng.choice(["list", "tuple"]), "elems": [["s", s] for s in vals]})
            if kind == "str_bad":     # a name of ANOTHER enumeration of the group (or a near miss) among valid ones
                others = [s for j, e in enumerate(enums) if j != k for s in e if s not in names]
                bad = rng.choice(others) if others and rng.random() < 0.7 else rng.choice(near_misses(rng, names))
                vals = place(rng, [names[i] for i in picks], [bad], rng.choice(["first", "last", "middle"]))
                return {"k": "arr_str", "values": vals}
            if kind == "int":
                return ({"k": "arr_int", "dtype": rng.choice(INT_DTYPES), "values": [min(i, 127) for i in picks]}
                        if rng.random() < 0.5 else {"k": "seq", "container": "list", "elems": [["i", i] for i in picks]})
            if kind == "int_bad":
                return {"k": "arr_int", "dtype": "int64", "values": place(rng, picks, [m, m + 1, -1], "middle")}
            elems = [["m", k, i] for i in picks]        # the step's own members
            if kind == "mem_foreign":                   # members of ANOTHER enumeration of the same class name
                j = rng.choice([q for q in range(len(enums)) if q != k])
                mj = len(enums[j])
                style = rng.choice(["all", "one", "one", "some", "last", "common"])
                if style == "all":
                    elems = [["m", j, i] for i in range(mj)]
                elif style == "some":
                    elems = [["m", j, rng.randrange(mj)] for _ in range(rng.randrange(1, 6))]
                elif style == "last":                   # its last member alone (beyond our range when it is larger)
                    elems = [["m", j, mj - 1]]
                elif style == "common":                 # those that have the same name at the same index here
                    same = [i for i in range(min(m, mj)) if enums[j][i] == names[i]]
                    elems = [["m", j, i] for i in same] or [["m", j, 0]]
                else:
                    elems = place(rng, elems, [["m", j, rng.randrange(mj)]], rng.choice(["first", "last", "middle"]))
            return {"k": "arr_obj", "elems": elems} if rng.random() < 0.5 else {"k": "seq", "container": "list", "elems": elems}

        kinds = ["all", "sorted", "str", "str", "str", "str_bad", "int", "int_bad", "mem", "mem_foreign", "mem_foreign"]
        nsteps = rng.randrange(3, 9)
        pattern = rng.choice(["ab", "ba", "aab", "abab", "random"])
        order = [rng.randrange(len(enums)) for _ in range(nsteps)] if pattern == "random" else \
                [("ab".index(pattern[i % len(pattern)])) for i in range(nsteps)]
        if len(enums) == 3 and pattern != "random":
            order[rng.randrange(nsteps)] = 2
        steps = [{"e": k, "input": one_input(k, rng.choice(kinds))} for k in order]
        # every enumeration of the group encodes names at least once
        for k in range(len(enums)):
            if not any(st["e"] == k and st["input"]["k"] in ("arr_str", "seq") and
                       (st["input"].get("values") or st["input"].get("elems")) for st in steps):
                steps.append({"e": k, "input": one_input(k, rng.choice(["all", "sorted", "str"]))})
        cases.append({"op": "multi", "enums": enums, "steps": steps})
        # the same steps with the enumerations taking turns in the opposite order
        perm = list(range(len(enums)))[::-1]
        cases.append({"op": "multi", "enums": [enums[p] for p in perm],
                      "steps": [{"e": perm.index(st["e"]), "input": renumber(st["input"], perm.index)}
                                for st in steps][::-1]})
        # and first everything of one enumeration, then everything of the next
        cases.append({"op": "multi", "enums": enums, "steps": sorted(steps, key=lambda st: st["e"])})
    return cases


SIZES = [1, 1, 2, 2, 3, 3, 4, 5, 6, 7, 8, 9, 12, 15, 16, 17, 24, 31, 32, 33, 50, 64, 100, 127, 128, 129, 199, 200]


def generate(rng, tier):
    n_enums = {"quick": 75, "escalated": 300, "thorough": 1500}[tier]
    cases = []
    for i in range(n_enums):
        r = rng.random()
        if i < len(SIZES):
            n = SIZES[i]
        elif r < 0.55:
            n = rng.randrange(1, 12)
        elif r < 0.9:
            n = rng.randrange(12, 64)
        else:
            n = rng.randrange(64, 201)
        names = gen_names(rng, n)
        foreign = []
        for _ in range(rng.choice([1, 1, 2])):
            m = rng.choice([1, 2, max(1, n - 1), n, n + 1, min(200, 2 * n + 1), rng.randrange(1, 40)])
            f = gen_names(rng, m)
            if rng.random() < 0.5:      # a foreign enumeration that shares names with ours, at other positions
                f = list(dict.fromkeys(rng.sample(names, min(n, m)) + f))[:m]
                rng.shuffle(f)
            foreign.append(f)
        aliases = [[] for _ in range(1 + len(foreign))]
        if i % 3 == 1 or rng.random() < 0.1:          # about every third enumeration declares aliases
            aliases[0] = gen_aliases(rng, names)
            if rng.random() < 0.5:
                aliases[1] = gen_aliases(rng, foreign[0])
        cases += battery(rng, names, foreign, aliases)
    cases += multi_cases(rng, {"quick": 60, "escalated": 250, "thorough": 1200}[tier])
    cases += view_cases(rng, {"quick": 250, "escalated": 1000, "thorough": 5000}[tier])
    cases += long_cases(rng, tier)
    return cases


# ---- failing-input search helpers ---------------------------------------------------------------------

def _payload(c):
    """(container dict, key) of the list that makes up the case's input."""
    if "input" in c:
        x = c["input"]
        if x["k"] == "seq" and x["container"] == "range":
            return None
        for key in ("values", "elems"):
            if key in x:
                return x, key
        return None
    for key in ("values", "members"):
        if key in c:
            return c, key
    return None


def _with_payload(c, new):
    import copy
    c2 = copy.deepcopy(c)
    holder, key = _payload(c2)
    holder[key] = new
    return c2


def neighbours(c, rng):
    if c["op"] in ("views", "multi", "long"):
        return []
    p = _payload(c)
    if p is None:
        return []
    items = p[0][p[1]]
    out = []
    for i in range(len(items)):
        out.append(_with_payload(c, [items[i]]))
        out.append(_with_payload(c, items[:i] + items[i + 1:]))
        if len(out) > 60:
            break
    if c["op"] == "encode":
        c2 = dict(c)
        c2["op"] = "round"
        out.append(c2)
    return out


def shrink(c, still_fails):
    if c["op"] == "long":
        return None
    if c["op"] == "views":
        views, early = list(c["views"]), list(c["early"])
        changed = False
        j = 0
        while j < len(views) and len(views) > 1:
            cand = dict(c)
            cand["views"] = views[:j] + views[j + 1:]
            cand["early"] = [e if e < j else e - 1 for e in early if e != j]
            if still_fails(cand):
                views, early, changed = cand["views"], cand["early"], True
            else:
                j += 1
        if not changed:
            return None
        out = dict(c)
        out["views"], out["early"] = views, early
        return out
    if c["op"] == "multi":
        steps = list(c["steps"])
        changed = False
        i = 0
        while i < len(steps) and len(steps) > 1:
            cand = dict(c)
            cand["steps"] = steps[:i] + steps[i + 1:]
            if still_fails(cand):
                steps = cand["steps"]
                changed = True
            else:
                i += 1
        if not changed:
            return None
        out = dict(c)
        out["steps"] = steps
        return out
    p = _payload(c)
    if p is None:
        return None
    items = list(p[0][p[1]])
    changed = False
    chunk = max(1, len(items) // 2)
    while chunk >= 1:
        i = 0
        while i < len(items) and len(items) > 1:
            cand = items[:i] + items[i + chunk:]
            if cand and still_fails(_with_payload(c, cand)):
                items = cand
                changed = True
            else:
                i += chunk
        chunk //= 2
    return _with_payload(c, items) if changed else None
