"""C04 - period arithmetic agrees with the calendar.

Cases are single operations of Period / Instant.  The implementation driver calls the
real openfisca_core.periods; the oracle re-derives every answer from Python's
datetime (ordinals, isocalendar): an implementation of the calendar independent of
pendulum and of the Coq model.
"""
from __future__ import annotations

import calendar
import datetime

from openfisca_core import periods
from openfisca_core.periods import DateUnit as U
from openfisca_core.periods import Instant, Period

from common import Err, clist, copt, cstr, cz

PROP = "C04"
COQ_HEADER = "From Verif Require Import Cal Period Corr_C04."
COQ_RUN = "Corr_C04.run"
SHARD = 500
ANCHORS = ["openfisca_core/periods/period_.py", "openfisca_core/periods/instant_.py",
           "openfisca_core/periods/helpers.py", "openfisca_core/periods/date_unit.py"]
RULE = ("single operations (stop, days, size_in_*, contains, intersection, get_subperiods, offset, "
        "named reference periods, Instant.offset/first-of/last-of, isocalendar, instant order) on periods "
        "drawn from calendar boundary classes (29 Feb, month ends, 31 Dec/1 Jan inside ISO weeks, 53-week "
        "years, century years) x 6 units x size ladder plus uniformly random dates 1000..2400; a case is "
        "non-trivial when it returns a value (not an error) and is distinct as (op, arguments)")
TRUSTED = ["pendulum 3.2 date arithmetic and datetime.date are modelled by Cal.v (add_months clipping, ISO weeks), covered by the correspondence only"]
ASSUMPTIONS = ["years kept within 1..9999 (Python date range); out-of-range arithmetic is not generated",
               "value equalities of sub-period tiling claimed for aligned starts and same-family units only (DESIGN.md C04 scope)"]

UNITS = [U.WEEKDAY, U.WEEK, U.DAY, U.MONTH, U.YEAR, U.ETERNITY]
UCODE = {u: i for i, u in enumerate(UNITS)}
UCOQ = ["Weekday", "Week", "Day", "Month", "Year", "Eternity"]
NAMED = ["this_year", "first_month", "first_week", "first_day", "first_weekday", "last_year", "n_2",
         "last_month", "last_3_months", "last_week", "last_fortnight", "last_2_weeks", "last_26_weeks",
         "last_52_weeks"]
SIZES = ["size_in_years", "size_in_months", "size_in_days", "size_in_weeks", "size_in_weekdays"]
FAMILY = {(4, 4), (4, 3), (4, 2), (3, 3), (3, 2), (2, 2), (1, 1), (1, 0), (0, 0)}  # (period unit, sub unit)


# ---- conversions -------------------------------------------------------------------

def mk_period(p):
    u, s, n = p
    return Period((UNITS[u], Instant(tuple(s)), n))


def enc_period(p):
    return [UCODE[p.unit], [p.start.year, p.start.month, p.start.day], p.size]


def enc_inst(i):
    return None if i is None else [i[0], i[1], i[2]]


def cdate(d):
    return f"({cz(d[0])}, {cz(d[1])}, {cz(d[2])})"


def cperiod(p):
    return f"({UCOQ[p[0]]}, {cdate(p[1])}, {cz(p[2])})"


def coq_case(c):
    op = c["op"]
    if op == "stop":
        return f"(KStop {cperiod(c['p'])})"
    if op == "days":
        return f"(KDays {cperiod(c['p'])})"
    if op == "size":
        return f"(KSize {c['which']} {cperiod(c['p'])})"
    if op == "contains":
        return f"(KContains {cperiod(c['p'])} {cperiod(c['q'])})"
    if op == "inter":
        return f"(KInter {cperiod(c['p'])} {copt(c['a'], cdate)} {copt(c['b'], cdate)})"
    if op == "sub":
        return f"(KSub {cperiod(c['p'])} {UCOQ[c['u']]})"
    if op == "offset":
        return f"(KOffset {cperiod(c['p'])} {cz(c['n'])} {copt(c['u'], lambda u: UCOQ[u])})"
    if op == "named":
        return f"(KNamed {cstr(c['name'])} {cperiod(c['p'])})"
    if op == "ioffset":
        return f"(KInstOffset {cdate(c['c'])} {cz(c['n'])} {UCOQ[c['u']]})"
    if op in ("pfirstof", "plastof"):
        eu = c["p"][0] if c["u"] is None else c["u"]
        return f"({'KFirstOf' if op == 'pfirstof' else 'KLastOf'} {cdate(c['p'][1])} {UCOQ[eu]})"
    if op == "firstof":
        return f"(KFirstOf {cdate(c['c'])} {UCOQ[c['u']]})"
    if op == "lastof":
        return f"(KLastOf {cdate(c['c'])} {UCOQ[c['u']]})"
    if op == "isocal":
        return f"(KIsocal {cdate(c['c'])})"
    if op == "le":
        return f"(KLe {cdate(c['a'])} {cdate(c['b'])})"
    raise ValueError(op)


# ---- implementation driver -------------------------------------------------------------

def spell(u, sp):
    """The unit in one of its accepted spellings: DateUnit member (sp 0) or the plain str it equals (sp 1).
    DateUnit is a StrEnum and the API documents `unit (str)`; the model case is the same for both."""
    return UNITS[u] if not sp else str(UNITS[u].value)


def run_impl(c):
    op = c["op"]
    sp = c.get("sp", 0)
    if op in ("pfirstof", "plastof"):
        # Period.offset("first-of" / "last-of", unit): same unit and size, start moved by Instant.offset;
        # observed as that start (None when the code has no such instant: NotImplementedError)
        p = mk_period(c["p"])
        try:
            r = p.offset("first-of" if op == "pfirstof" else "last-of", None if c["u"] is None else spell(c["u"], sp))
        except NotImplementedError:
            return None
        if r.unit != p.unit or r.size != p.size:
            raise RuntimeError(f"keyword offset changed unit or size: {r!r}")
        return enc_inst(r.start)
    if op == "stop":
        return enc_inst(mk_period(c["p"]).stop)
    if op == "days":
        return mk_period(c["p"]).days
    if op == "size":
        return getattr(mk_period(c["p"]), SIZES[c["which"]])
    if op == "contains":
        return bool(mk_period(c["p"]).contains(mk_period(c["q"])))
    if op == "inter":
        a = None if c["a"] is None else Instant(tuple(c["a"]))
        b = None if c["b"] is None else Instant(tuple(c["b"]))
        r = mk_period(c["p"]).intersection(a, b)
        return None if r is None else enc_period(r)
    if op == "sub":
        return [enc_period(q) for q in mk_period(c["p"]).get_subperiods(spell(c["u"], sp))]
    if op == "offset":
        u = None if c["u"] is None else spell(c["u"], sp)
        return enc_period(mk_period(c["p"]).offset(c["n"], u))
    if op == "named":
        return enc_period(getattr(mk_period(c["p"]), c["name"]))
    if op == "ioffset":
        return enc_inst(Instant(tuple(c["c"])).offset(c["n"], spell(c["u"], sp)))
    if op == "firstof":
        return enc_inst(Instant(tuple(c["c"])).offset("first-of", spell(c["u"], sp)))
    if op == "lastof":
        return enc_inst(Instant(tuple(c["c"])).offset("last-of", spell(c["u"], sp)))
    if op == "isocal":
        return list(datetime.date(*c["c"]).isocalendar())
    if op == "le":
        return bool(Instant(tuple(c["a"])) <= Instant(tuple(c["b"])))
    raise ValueError(op)


# ---- independent calendar (datetime) -----------------------------------------------------

def D(t):
    return datetime.date(*t)


def addm(d, n):
    t = d.year * 12 + d.month - 1 + n
    y, m = divmod(t, 12)
    m += 1
    return datetime.date(y, m, min(d.day, calendar.monthrange(y, m)[1]))


def excl_end(u, s, n):
    d = D(s)
    if u == 4:
        return addm(d, 12 * n)
    if u == 3:
        return addm(d, n)
    if u == 1:
        return d + datetime.timedelta(7 * n)
    return d + datetime.timedelta(n)


def shifted(d, u, k):
    """date d moved by k units u, by datetime arithmetic (month / year shifts clip to the month's end)."""
    if u == 4:
        return addm(d, 12 * k)
    if u == 3:
        return addm(d, k)
    if u == 1:
        return d + datetime.timedelta(7 * k)
    return d + datetime.timedelta(k)


def span(p):
    """(first ordinal, last ordinal) of the set of days the period denotes."""
    u, s, n = p
    return D(s).toordinal(), excl_end(u, s, n).toordinal() - 1


def aligned(u, s):
    if u == 4:
        return s[1] == 1 and s[2] == 1
    if u == 3:
        return s[2] == 1
    if u == 1:
        return D(s).isoweekday() == 1
    return True


def oracle(c, o):
    """Statement of C04 evaluated on the implementation's answer with datetime as calendar."""
    op = c["op"]
    if isinstance(o, Err):
        # Operations the statement covers must not fail on in-range inputs.
        if op in ("stop", "days", "contains") and c["p"][0] != 5:
            return f"{op}: raised {o.kind} on {c}"
        if op == "sub" and (c["p"][0], c["u"]) in FAMILY:
            return f"sub: raised {o.kind} on {c}"
        if op == "size" and c["which"] == 2 and c["p"][0] in (0, 1, 2, 3, 4) and c["p"][2] >= 1:
            return f"size: size_in_days raised {o.kind} on {c['p']}"
        if op in ("offset", "ioffset"):
            # a shift whose target is a calendar day in range must not fail
            u, s0, k = (c["u"], c["c"], c["n"]) if op == "ioffset" else (
                c["p"][0] if c["u"] is None else c["u"], c["p"][1], c["n"])
            if u != 5 and s0[0] >= 1:
                try:
                    shifted(D(s0), u, k)
                except (ValueError, OverflowError):
                    return None
                return f"{op}: raised {o.kind} on {c}"
        return None
    if op in ("stop", "days", "size", "sub", "contains", "inter", "offset") and c["p"][0] == 5:
        return None
    if op == "stop":
        lo, hi = span(c["p"])
        if D(o).toordinal() != hi:
            return f"stop: {c['p']} stops at {o}, calendar says ordinal {hi} = {datetime.date.fromordinal(hi)}"
    elif op == "days":
        lo, hi = span(c["p"])
        if o != hi - lo + 1:
            return f"days: {c['p']} has {hi - lo + 1} days, got {o}"
    elif op == "size":
        u, s, n = c["p"]
        lo, hi = span(c["p"])
        w = c["which"]
        exp = None
        if w == 2 and u in (0, 1, 2, 3, 4):
            exp = hi - lo + 1
        elif w == 4 and u in (0, 1):
            exp = hi - lo + 1
        elif w == 1 and u in (3, 4):
            exp = n * (12 if u == 4 else 1)
        elif w == 0 and u == 4:
            exp = n
        elif w == 3 and u == 1:
            exp = n
        if exp is not None and o != exp:
            return f"size: {SIZES[w]} of {c['p']} is {exp}, got {o}"
    elif op == "contains":
        a, b = span(c["p"])
        if c["q"][0] == 5:
            return None
        x, y = span(c["q"])
        if o != (a <= x and y <= b):
            return f"contains: {c['p']} contains {c['q']} should be {a <= x and y <= b}, got {o}"
    elif op == "inter":
        if c["a"] and c["b"] and D(c["a"]) > D(c["b"]):
            return None   # not a date range: outside the statement (modelled, compared)
        a, b = span(c["p"])
        lo = max(a, D(c["a"]).toordinal()) if c["a"] else a
        hi = min(b, D(c["b"]).toordinal()) if c["b"] else b
        if lo > hi:
            if o is not None:
                return f"inter: empty intersection reported as {o}"
        else:
            if o is None or span(o) != (lo, hi):
                return f"inter: {c} should denote ordinals {(lo, hi)}, got {o}"
    elif op == "sub":
        u, s, n = c["p"]
        v = c["u"]
        if (u, v) in FAMILY and aligned(v, s) and n >= 1:
            lo, hi = span(c["p"])
            cur = lo
            for q in o:
                a, b = span(q)
                if not (q[0] == v and q[2] == 1 and a == cur and b >= a):
                    return f"sub: {c} piece {q} is not the size-one {UCOQ[v]} period starting at ordinal {cur}"
                cur = b + 1
            if cur != hi + 1:
                return f"sub: {c} pieces end at ordinal {cur - 1}, period ends at {hi}"
    elif op == "offset":
        # shifting by n then by -n returns the original period when no clipping occurs
        u, s, n = c["p"]
        k = c["n"]
        ou = u if c["u"] is None else c["u"]
        # the shift moves the start by the right amount (month-end clipping as the calendar has it)
        d = D(s)
        exp = shifted(d, ou, k)
        if list(o[1]) != [exp.year, exp.month, exp.day]:
            return f"offset: start of {c['p']} shifted by {k} {UCOQ[ou]} should be {exp}, got {o[1]}"
        if o[0] != u or o[2] != n:
            return f"offset: {c['p']} shifted by {k} changed unit or size: {o}"
        # shifting by n then by -n returns the original period when no clipping occurs
        if ou in (3, 4) and exp.day != d.day:
            return None
        try:
            # the way back spells the unit the other way round: same unit, same shift
            back = mk_period(o).offset(-k, None if c["u"] is None else spell(c["u"], 1 - c.get("sp", 0)))
        except Exception as e:  # noqa: BLE001
            return f"offset: inverse shift raised {e}"
        if enc_period(back) != [u, list(s), n]:
            return f"offset: {c['p']} shifted by {k} then {-k} gives {enc_period(back)}"
    elif op in ("pfirstof", "plastof", "firstof", "lastof"):
        s0, eu = (c["c"], c["u"]) if op in ("firstof", "lastof") else (c["p"][1], c["p"][0] if c["u"] is None else c["u"])
        d = D(s0)
        first = op in ("pfirstof", "firstof")
        if eu == 4:
            exp = datetime.date(d.year, 1, 1) if first else datetime.date(d.year, 12, 31)
        elif eu == 3:
            exp = datetime.date(d.year, d.month, 1 if first else calendar.monthrange(d.year, d.month)[1])
        elif eu == 1:
            exp = d - datetime.timedelta(d.isoweekday() - 1) if first else d + datetime.timedelta(7 - d.isoweekday())
        else:
            exp = None   # day / weekday: no such instant
        got = None if o is None else list(o)
        if got != (None if exp is None else [exp.year, exp.month, exp.day]):
            return f"{op}: {'first' if first else 'last'} day of the {UCOQ[eu]} of {s0} should be {exp}, got {o}"
    elif op == "ioffset":
        if c["u"] != 5:
            exp = shifted(D(c["c"]), c["u"], c["n"])
            if list(o) != [exp.year, exp.month, exp.day]:
                return f"ioffset: {c['c']} shifted by {c['n']} {UCOQ[c['u']]} should be {exp}, got {o}"
    elif op == "named":
        s = c["p"][1]
        d = D(s)
        mon = d - datetime.timedelta(d.isoweekday() - 1)
        fm = datetime.date(s[0], s[1], 1)

        def P(u, dt, n):
            return [u, [dt.year, dt.month, dt.day], n]
        exp = {
            "this_year": lambda: P(4, datetime.date(s[0], 1, 1), 1),
            "first_month": lambda: P(3, fm, 1),
            "first_week": lambda: P(1, mon, 1),
            "first_day": lambda: P(2, d, 1),
            "first_weekday": lambda: P(0, d, 1),
            "last_year": lambda: P(4, datetime.date(s[0] - 1, 1, 1), 1),
            "n_2": lambda: P(4, datetime.date(s[0] - 2, 1, 1), 1),
            "last_month": lambda: P(3, addm(fm, -1), 1),
            "last_3_months": lambda: P(3, addm(fm, -3), 3),
            "last_week": lambda: P(1, mon - datetime.timedelta(7), 1),
            "last_fortnight": lambda: P(1, mon - datetime.timedelta(14), 1),
            "last_2_weeks": lambda: P(1, mon - datetime.timedelta(14), 2),
            "last_26_weeks": lambda: P(1, mon - datetime.timedelta(182), 26),
            "last_52_weeks": lambda: P(1, mon - datetime.timedelta(364), 52),
        }[c["name"]]()
        if o != exp:
            return f"named: {c['name']} of {c['p']} should be {exp}, got {o}"
    elif op == "le":
        if o != (D(c["a"]) <= D(c["b"])):
            return f"le: {c['a']} <= {c['b']} should be {D(c['a']) <= D(c['b'])}"
    return None


def nontrivial(c, o):
    return not isinstance(o, Err)


def classify(c, o):
    p = c.get("p")
    tag = c["op"]
    if p is not None:
        tag += ":" + UCOQ[p[0]]
    if isinstance(o, Err):
        tag += ":" + o.kind
    return tag


# ---- generation -------------------------------------------------------------------------

BOUNDARY_MD = [(1, 1), (1, 2), (1, 3), (1, 4), (1, 5), (1, 28), (1, 29), (1, 30), (1, 31), (2, 1), (2, 27), (2, 28), (2, 29),
               (3, 1), (3, 30), (3, 31), (4, 1), (4, 30), (5, 31), (6, 15), (6, 30), (7, 31), (8, 31), (9, 30),
               (10, 31), (11, 30), (12, 1), (12, 27), (12, 28), (12, 29), (12, 30), (12, 31)]
BOUNDARY_Y = [1000, 1582, 1600, 1700, 1899, 1900, 1970, 1996, 1999, 2000, 2001, 2004, 2008, 2009, 2012, 2015,
              2016, 2019, 2020, 2021, 2024, 2026, 2032, 2100, 2200, 2399, 2400]
LEAP_NEAR_CENTURY = [1596, 1600, 1604, 1696, 1704, 1796, 1804, 1896, 1904, 1996, 2000, 2004, 2096, 2104,
                     2196, 2204, 2296, 2304, 2396, 2400, 2404]
LEAP_SHIFTS = [1, -1, 4, -4, 8, -8, 96, -96, 100, -100, 104, -104, 200, -200, 300, -300, 400, -400]
LADDER = [1, 1, 1, 2, 3, 4, 6, 7, 11, 12, 13, 24, 25, 36, 40, 52, 53, 100, 366]


def boundary_dates():
    out = []
    for y in BOUNDARY_Y:
        for m, d in BOUNDARY_MD:
            try:
                datetime.date(y, m, d)
            except ValueError:
                continue
            out.append([y, m, d])
    return out


def rand_date(rng, lo=datetime.date(1000, 1, 1).toordinal(), hi=datetime.date(2400, 12, 31).toordinal()):
    x = datetime.date.fromordinal(rng.randrange(lo, hi))
    return [x.year, x.month, x.day]


def align(rng, u, s):
    """Mostly aligned starts (the claimed domain), some unaligned ones."""
    if rng.random() < 0.25:
        return s
    if u == 4:
        return [s[0], 1, 1] if rng.random() < 0.7 else [s[0], s[1], 1]
    if u == 3:
        return [s[0], s[1], 1]
    if u == 1:
        d = D(s)
        d = d - datetime.timedelta(d.isoweekday() - 1)
        return [d.year, d.month, d.day]
    return s


def period_ops(rng, p, heavy):
    u, s, n = p
    out = [{"op": "stop", "p": p}, {"op": "days", "p": p}]
    for w in range(5):
        out.append({"op": "size", "which": w, "p": p})
    for k in rng.sample([1, 2, 5, 12, 13, -1, -3, -12, 40, -40, 0], 3):
        out.append({"op": "offset", "p": p, "n": k, "u": None})
    out.append({"op": "offset", "p": p, "n": rng.choice([1, -1, 7, -13]), "u": rng.randrange(5)})
    if heavy:
        lo, hi = span(p)
        ndays = hi - lo + 1
        for v in range(6):
            # keep the lists bounded: at most ~1500 pieces
            est = {0: ndays, 2: ndays, 1: ndays // 7, 3: ndays // 28, 4: ndays // 365, 5: 0}[v]
            if est <= 1500:
                out.append({"op": "sub", "p": p, "u": v})
        for name in rng.sample(NAMED, 4):
            out.append({"op": "named", "name": name, "p": p})
    return out


def generate(rng, tier):
    n_random = {"quick": 700, "escalated": 4000, "thorough": 30000}[tier]
    n_bound = {"quick": 500, "escalated": 2500, "thorough": 20000}[tier]
    bd = boundary_dates()
    cases = []
    plist = []
    for i in range(n_bound + n_random):
        s = rng.choice(bd) if i < n_bound else rand_date(rng)
        u = rng.choice([0, 1, 2, 3, 3, 4, 4])
        n = rng.choice(LADDER) if rng.random() < 0.8 else rng.randrange(1, 500)
        if u in (3, 4) and n > 100:
            n = n % 100 + 1
        s = align(rng, u, s)
        p = [u, s, n]
        plist.append(p)
        cases += period_ops(rng, p, heavy=(i % 3 == 0))
    # eternity and degenerate sizes: accept/reject behaviour only
    for u in range(6):
        for v in range(6):
            s = [-1, -1, -1] if u == 5 else rng.choice(bd)
            cases.append({"op": "sub", "p": [u, s, -1 if u == 5 else rng.choice([1, 2, 3])], "u": v})
    for w in range(5):
        cases.append({"op": "size", "which": w, "p": [5, [-1, -1, -1], -1]})
    cases.append({"op": "stop", "p": [5, [-1, -1, -1], -1]})
    # pairs: containment and intersection
    n_pairs = {"quick": 1500, "escalated": 8000, "thorough": 60000}[tier]
    for _ in range(n_pairs):
        p = rng.choice(plist)
        r = rng.random()
        if r < 0.5:
            q = rng.choice(plist)
        else:
            # a period built near p's span so that containment is often true / borderline
            lo, hi = span(p)
            o = rng.randrange(max(lo - 3, 365), hi + 3)
            x = datetime.date.fromordinal(o)
            u = rng.choice([0, 1, 2, 3, 4])
            q = [u, align(rng, u, [x.year, x.month, x.day]), rng.choice([1, 1, 2, 3, 12])]
        cases.append({"op": "contains", "p": p, "q": q})
        lo, hi = span(p)
        a = datetime.date.fromordinal(rng.randrange(max(lo - 40, 365), hi + 40))
        b = datetime.date.fromordinal(rng.randrange(max(lo - 40, 365), hi + 40))
        if rng.random() < 0.3:
            a = datetime.date(a.year, a.month, 1)
            b = datetime.date(b.year, b.month, calendar.monthrange(b.year, b.month)[1])
        elif rng.random() < 0.2:
            a = datetime.date(a.year, 1, 1)
            b = datetime.date(b.year, 12, 31)
        if a > b and rng.random() < 0.9:
            a, b = b, a
        ea, eb = [a.year, a.month, a.day], [b.year, b.month, b.day]
        r = rng.random()
        cases.append({"op": "inter", "p": p, "a": None if r < 0.15 else ea, "b": None if 0.1 < r < 0.3 else eb})
    # instants
    n_inst = {"quick": 800, "escalated": 4000, "thorough": 40000}[tier]
    for i in range(n_inst):
        c = rng.choice(bd) if i % 2 else rand_date(rng)
        u = rng.randrange(5)
        n = rng.choice([1, -1, 2, 11, 12, 13, -12, 52, 53, 365, -366, rng.randrange(-2000, 2000)])
        if u == 4:
            # stay inside Python's date range (ASSUMPTIONS): the shifted year is kept >= 1
            n = max(n, 1 - c[0])
        cases.append({"op": "ioffset", "c": c, "n": n, "u": u})
        cases.append({"op": "firstof", "c": c, "u": u})
        cases.append({"op": "lastof", "c": c, "u": u})
        cases.append({"op": "isocal", "c": c})
        cases.append({"op": "le", "a": c, "b": rng.choice(bd)})
    # 29 February against the century rule: whole-year / whole-month shifts and multi-year spans from
    # every leap year next to a century year, onto leap (1600, 2000, 2400) and common (1700 ... 2300)
    # century years and their neighbours, in both directions (deterministic, all tiers)
    for y in LEAP_NEAR_CENTURY:
        c = [y, 2, 29]
        for k in LEAP_SHIFTS:
            if not 1 <= y + k <= 9990:
                continue
            cases.append({"op": "ioffset", "c": c, "n": k, "u": 4})
            cases.append({"op": "ioffset", "c": c, "n": 12 * k, "u": 3})
            cases.append({"op": "offset", "p": [4, c, 1], "n": k, "u": None})
            cases.append({"op": "offset", "p": [2, c, 1], "n": k, "u": 4})
            cases.append({"op": "offset", "p": [3, c, 1], "n": 12 * k, "u": None})
            if k > 0:
                p = [4, c, k]
                cases += [{"op": "stop", "p": p}, {"op": "days", "p": p}, {"op": "size", "which": 2, "p": p},
                          {"op": "stop", "p": [3, c, 12 * k]}, {"op": "size", "which": 2, "p": [3, c, 12 * k]}]
    # Period.offset("first-of" / "last-of", unit) on a sample of the periods
    for i, p in enumerate(plist[::3]):
        if p[0] == 5:
            continue
        for op in ("pfirstof", "plastof"):
            cases.append({"op": op, "p": p, "u": None if i % 4 == 0 else (i // 4) % 5})
    # every API taking a unit is called with the unit in each accepted spelling in turn (DateUnit member /
    # the plain str it equals); the model case is the same, only the implementation-side call differs
    turn = {}
    for c in cases:
        if c["op"] in ("offset", "ioffset", "firstof", "lastof", "sub", "pfirstof", "plastof") and c.get("u") is not None:
            k = (c["op"], c["u"])
            turn[k] = turn.get(k, 0) + 1
            c["sp"] = turn[k] % 2
    if tier == "thorough":
        # exhaustive sweep: every start date of the 400-year cycle 2000..2399, stop + isocalendar
        d = datetime.date(2000, 1, 1)
        end = datetime.date(2400, 1, 1)
        k = 0
        while d < end:
            c = [d.year, d.month, d.day]
            cases.append({"op": "isocal", "c": c})
            for u in (1, 2, 3, 4):
                cases.append({"op": "stop", "p": [u, c, LADDER[(k + u) % len(LADDER)]]})
            cases.append({"op": "named", "name": NAMED[k % len(NAMED)], "p": [2, c, 1]})
            d += datetime.timedelta(1)
            k += 1
    return cases


def neighbours(c, rng):
    """Cases around a mismatching one (same operation, nearby dates / sizes)."""
    out = []
    for _ in range(30):
        c2 = dict(c)
        if "p" in c2:
            u, s, n = c2["p"]
            d = D(s) + datetime.timedelta(rng.randrange(-3, 4))
            c2["p"] = [u, [d.year, d.month, d.day], max(1, n + rng.randrange(-1, 2))]
        out.append(c2)
    return out
